"""Cython front end for depccg/parsing.pyx: a line-preserving normaliser to
plain Python syntax, then `ast`.  Not a Cython parser: it knows the constructs
this file uses (cimport, `cdef extern` blocks, typed signatures, bare cdef
declarations, `<T>x` casts, `&x`).  Anything it cannot turn into parsable
Python is an ANALYSIS-ERROR, never a verdict.
"""
import ast
import re

from .core import AnalysisError, PyModule

REL = 'depccg/parsing.pyx'


def _depth_split(s, sep=','):
    out, cur, depth = [], '', 0
    quote = None
    for ch in s:
        if quote:
            cur += ch
            if ch == quote:
                quote = None
            continue
        if ch in '\'"':
            quote = ch
            cur += ch
            continue
        if ch in '([{':
            depth += 1
        elif ch in ')]}':
            depth -= 1
        if ch == sep and depth == 0:
            out.append(cur)
            cur = ''
        else:
            cur += ch
    out.append(cur)
    return out


def _top_level_eq(s):
    """index of the first '=' outside brackets that is an assignment, or -1"""
    depth = 0
    for i, ch in enumerate(s):
        if ch in '([{':
            depth += 1
        elif ch in ')]}':
            depth -= 1
        elif ch == '=' and depth == 0:
            if s[i - 1:i] in ('=', '!', '<', '>') or s[i + 1:i + 2] == '=':
                continue
            return i
    return -1


def _param(p):
    raw = p
    p = p.strip()
    if not p:
        return raw
    if p.startswith('*') and ' ' not in p.split('=')[0].strip():
        return p
    eq = _top_level_eq(p)
    default = ''
    if eq >= 0:
        default = p[eq:]
        p = p[:eq].strip()
    m = re.search(r'(\w+)\s*$', p)
    if not m:
        raise AnalysisError('%s: cannot normalise parameter %r' % (REL, raw))
    return m.group(1) + default


_CAST = re.compile(r'<\s*[A-Za-z_][\w\.\[\], ]*\s*\**\s*>\s*(?=[A-Za-z_\(])')
_ADDR = re.compile(r'(?<=[\(,\s])&(?=[A-Za-z_])')


def _expr(s):
    s = _CAST.sub('', s)
    s = _ADDR.sub('', s)
    return s


def normalise(text):
    lines = text.split('\n')
    out = [''] * len(lines)
    i = 0
    n = len(lines)
    while i < n:
        line = lines[i]
        stripped = line.strip()
        indent = line[:len(line) - len(line.lstrip())]
        # cimport
        if re.match(r'(from\s+\S+\s+)?cimport\b', stripped):
            out[i] = ''
            i += 1
            continue
        # extension types read as plain classes
        m = re.match(r'cdef\s+class\s+(\w+)\s*(\([^)]*\))?\s*:\s*$', stripped)
        if m:
            out[i] = '%sclass %s%s:' % (indent, m.group(1), m.group(2) or '')
            i += 1
            continue
        # cdef extern block / ctypedef at top level
        if re.match(r'cdef\s+extern\b', stripped):
            out[i] = ''
            i += 1
            while i < n and (lines[i].strip() == '' or lines[i].startswith((' ', '\t'))):
                # swallow the indented block (blank lines inside stay blank)
                if lines[i].strip() == '':
                    # a blank line followed by a non-indented line ends the block
                    j = i
                    while j < n and lines[j].strip() == '':
                        j += 1
                    if j >= n or not lines[j].startswith((' ', '\t')):
                        break
                out[i] = ''
                i += 1
            continue
        # function signatures: cdef ... name( ... ) [except ..|noexcept]:   or   def name( ... ) -> T:
        m = re.match(r'(cdef\s+[^=\(]*?|def\s+)(\w+)\s*\($', stripped) or \
            re.match(r'(cdef\s+[^=\(]*?|def\s+)(\w+)\s*\((.*)$', stripped)
        is_sig = False
        if m and (stripped.startswith('def ') or (stripped.startswith('cdef ') and _top_level_eq(stripped) < 0)):
            # collect until parentheses balance
            j = i
            buf = stripped
            depth = buf.count('(') - buf.count(')')
            while depth > 0 and j + 1 < n:
                j += 1
                buf += '\n' + lines[j].strip()
                depth += lines[j].count('(') - lines[j].count(')')
            tail_m = re.search(r'\)\s*(->\s*[^:]+)?\s*(except\s*[-+\w\*\?]+|noexcept)?\s*:\s*$', buf)
            if tail_m and buf.rstrip().endswith(':'):
                is_sig = True
                name = m.group(2)
                inner = buf[buf.index('(') + 1:tail_m.start()]
                params = [_param(p.replace('\n', ' ')) for p in _depth_split(inner) if p.strip()]
                out[i] = '%sdef %s(%s):' % (indent, name, ', '.join(p.strip() for p in params))
                for k in range(i + 1, j + 1):
                    out[k] = ''
                i = j + 1
                continue
        if not is_sig and stripped.startswith('cdef '):
            rest = stripped[5:]
            eq = _top_level_eq(rest)
            if eq >= 0:
                lhs = rest[:eq].strip()
                mm = re.search(r'(\w+)\s*$', lhs)
                if not mm:
                    raise AnalysisError('%s:%d cannot normalise %r' % (REL, i + 1, stripped))
                out[i] = '%s%s = %s' % (indent, mm.group(1), _expr(rest[eq + 1:].strip()))
            else:
                # bare declaration(s): keep them visible as  a = b = __cdecl__('type')
                segs = [x.strip() for x in _depth_split(rest) if x.strip()]
                names, ctype = [], ''
                for k, seg in enumerate(segs):
                    words = [w_ for w_ in re.split(r'\s+(?![^\[]*\])', seg) if w_]
                    if k == 0 and len(words) >= 2:
                        ctype = ' '.join(words[:-1])
                        names.append(words[-1].lstrip('*&'))
                    else:
                        names.append(words[-1].lstrip('*&'))
                if all(re.match(r'^[A-Za-z_]\w*$', n_) for n_ in names) and names:
                    out[i] = '%s%s = __cdecl__(%r)' % (indent, ' = '.join(names), ctype)
                else:
                    out[i] = indent + 'pass'
            i += 1
            continue
        if stripped.startswith('ctypedef '):
            out[i] = indent + 'pass' if indent else ''
            i += 1
            continue
        out[i] = _expr(line)
        i += 1
    return '\n'.join(out)


def load(repo):
    text = repo.text(REL)
    norm = normalise(text)
    try:
        tree = ast.parse(norm, filename=REL)
    except SyntaxError as e:
        raise AnalysisError('%s: normalised Cython does not parse as Python (line %s: %s)'
                            % (REL, e.lineno, e.msg))
    from . import objflat
    flattened = objflat.flatten(tree)
    mod = PyModule(REL, text, tree)
    mod.normalised = norm
    mod.flattened = flattened
    mod.repo = repo
    tree._pymodule = mod
    return mod
