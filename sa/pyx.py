"""Cython front end for depccg/parsing.pyx: a line-preserving normaliser to
plain Python syntax, then `ast`.  Not a Cython parser: it knows the constructs
this file uses (cimport, `cdef extern` blocks, typed signatures, bare cdef
declarations, `<T>x` casts, `&x`).  Anything it cannot turn into parsable
Python is an ANALYSIS-ERROR, never a verdict.
"""
import ast
import re

from .core import AnalysisError, PyModule

REL = 'depccg/parsing.pyx'


def _depth_split(s, sep=','):
    out, cur, depth = [], '', 0
    quote = None
    for ch in s:
        if quote:
            cur += ch
            if ch == quote:
                quote = None
            continue
        if ch in '\'"':
            quote = ch
            cur += ch
            continue
        if ch in '([{':
            depth += 1
        elif ch in ')]}':
            depth -= 1
        if ch == sep and depth == 0:
            out.append(cur)
            cur = ''
        else:
            cur += ch
    out.append(cur)
    return out


def _top_level_eq(s):
    """index of the first '=' outside brackets that is an assignment, or -1"""
    depth = 0
    for i, ch in enumerate(s):
        if ch in '([{':
            depth += 1
        elif ch in ')]}':
            depth -= 1
        elif ch == '=' and depth == 0:
            if s[i - 1:i] in ('=', '!', '<', '>') or s[i + 1:i + 2] == '=':
                continue
            return i
    return -1


def _param(p):
    raw = p
    p = p.strip()
    if not p:
        return raw
    if p.startswith('*') and ' ' not in p.split('=')[0].strip():
        return p
    eq = _top_level_eq(p)
    default = ''
    if eq >= 0:
        default = p[eq:]
        p = p[:eq].strip()
    m = re.search(r'(\w+)\s*$', p)
    if not m:
        raise AnalysisError('%s: cannot normalise parameter %r' % (REL, raw))
    return m.group(1) + default


_CAST = re.compile(r'<\s*[A-Za-z_][\w\.\[\], ]*\s*\**\s*>\s*(?=[A-Za-z_\(])')
_ADDR = re.compile(r'(?<=[\(,\s])&(?=[A-Za-z_])')


def _expr(s):
    s = _CAST.sub('', s)
    s = _ADDR.sub('', s)
    return s


def normalise(text):
    lines = text.split('\n')
    out = [''] * len(lines)
    i = 0
    n = len(lines)
    while i < n:
        line = lines[i]
        stripped = line.strip()
        indent = line[:len(line) - len(line.lstrip())]
        # cimport
        if re.match(r'(from\s+\S+\s+)?cimport\b', stripped):
            out[i] = ''
            i += 1
            continue
        # extension types read as plain classes
        m = re.match(r'cdef\s+class\s+(\w+)\s*(\([^)]*\))?\s*:\s*$', stripped)
        if m:
            out[i] = '%sclass %s%s:' % (indent, m.group(1), m.group(2) or '')
            i += 1
            continue
        # cdef extern block / ctypedef at top level
        if re.match(r'cdef\s+extern\b', stripped):
            out[i] = ''
            i += 1
            while i < n and (lines[i].strip() == '' or lines[i].startswith((' ', '\t'))):
                # swallow the indented block (blank lines inside stay blank)
                if lines[i].strip() == '':
                    # a blank line followed by a non-indented line ends the block
                    j = i
                    while j < n and lines[j].strip() == '':
                        j += 1
                    if j >= n or not lines[j].startswith((' ', '\t')):
                        break
                out[i] = ''
                i += 1
            continue
        # function signatures: cdef ... name( ... ) [except ..|noexcept]:   or   def name( ... ) -> T:
        m = re.match(r'(cdef\s+[^=\(]*?|def\s+)(\w+)\s*\($', stripped) or \
            re.match(r'(cdef\s+[^=\(]*?|def\s+)(\w+)\s*\((.*)$', stripped)
        is_sig = False
        if m and (stripped.startswith('def ') or (stripped.startswith('cdef ') and _top_level_eq(stripped) < 0)):
            # collect until parentheses balance
            j = i
            buf = stripped
            depth = buf.count('(') - buf.count(')')
            while depth > 0 and j + 1 < n:
                j += 1
                buf += '\n' + lines[j].strip()
                depth += lines[j].count('(') - lines[j].count(')')
            tail_m = re.search(r'\)\s*(->\s*[^:]+)?\s*(except\s*[-+\w\*\?]+|noexcept)?\s*:\s*$', buf)
            if tail_m and buf.rstrip().endswith(':'):
                is_sig = True
                name = m.group(2)
                inner = buf[buf.index('(') + 1:tail_m.start()]
                params = [_param(p.replace('\n', ' ')) for p in _depth_split(inner) if p.strip()]
                out[i] = '%sdef %s(%s):' % (indent, name, ', '.join(p.strip() for p in params))
                for k in range(i + 1, j + 1):
                    out[k] = ''
                i = j + 1
                continue
        if not is_sig and stripped.startswith('cdef '):
            rest = stripped[5:]
            eq = _top_level_eq(rest)
            if eq >= 0:
                lhs = rest[:eq].strip()
                mm = re.search(r'(\w+)\s*$', lhs)
                if not mm:
                    raise AnalysisError('%s:%d cannot normalise %r' % (REL, i + 1, stripped))
                out[i] = '%s%s = %s' % (indent, mm.group(1), _expr(rest[eq + 1:].strip()))
            else:
                # bare declaration(s): keep them visible as  a = b = __cdecl__('type')
                segs = [x.strip() for x in _depth_split(rest) if x.strip()]
                names, ctype = [], ''
                for k, seg in enumerate(segs):
                    words = [w_ for w_ in re.split(r'\s+(?![^\[]*\])', seg) if w_]
                    if k == 0 and len(words) >= 2:
                        ctype = ' '.join(words[:-1])
                        names.append(words[-1].lstrip('*&'))
                    else:
                        names.append(words[-1].lstrip('*&'))
                if all(re.match(r'^[A-Za-z_]\w*$', n_) for n_ in names) and names:
                    out[i] = '%s%s = __cdecl__(%r)' % (indent, ' = '.join(names), ctype)
                else:
                    out[i] = indent + 'pass'
            i += 1
            continue
        if stripped.startswith('ctypedef '):
            out[i] = indent + 'pass' if indent else ''
            i += 1
            continue
        out[i] = _expr(line)
        i += 1
    return '\n'.join(out)


def load(repo):
    text = repo.text(REL)
    norm = normalise(text)
    try:
        tree = ast.parse(norm, filename=REL)
    except SyntaxError as e:
        raise AnalysisError('%s: normalised Cython does not parse as Python (line %s: %s)'
                            % (REL, e.lineno, e.msg))
    # X = namedtuple('X', [fields]) / namedtuple('X', 'a b c'): a record class with these fields
    for i_, st_ in enumerate(list(tree.body)):
        if isinstance(st_, ast.Assign) and len(st_.targets) == 1 and isinstance(st_.targets[0], ast.Name) and isinstance(st_.value, ast.Call) \
                and isinstance(st_.value.func, (ast.Name, ast.Attribute)) and (st_.value.func.id if isinstance(st_.value.func, ast.Name) else st_.value.func.attr) == 'namedtuple' \
                and len(st_.value.args) == 2 and not st_.value.keywords:
            fa_ = st_.value.args[1]
            flds_ = None
            if isinstance(fa_, (ast.List, ast.Tuple)) and all(isinstance(e_, ast.Constant) and isinstance(e_.value, str) for e_ in fa_.elts):
                flds_ = [e_.value for e_ in fa_.elts]
            elif isinstance(fa_, ast.Constant) and isinstance(fa_.value, str):
                flds_ = fa_.value.replace(',', ' ').split()
            if flds_ and all(f_.isidentifier() for f_ in flds_):
                code_ = 'class %s(object):\n    def __init__(self, %s):\n%s' % (
                    st_.targets[0].id, ', '.join(flds_), ''.join('        self.%s = %s\n' % (f_, f_) for f_ in flds_))
                cls_ = ast.parse(code_).body[0]
                for n_ in ast.walk(cls_):
                    if hasattr(n_, 'lineno'):
                        n_.lineno = n_.end_lineno = st_.lineno
                tree.body[tree.body.index(st_)] = cls_
    # an extension type's __cinit__ is its constructor; a local declared with the type of such a class (`cdef C x`) is
    # only a declaration
    cnames = set()
    for c_ in tree.body:
        if isinstance(c_, ast.ClassDef):
            names_ = {f_.name for f_ in c_.body if isinstance(f_, ast.FunctionDef)}
            if '__cinit__' in names_ and '__init__' not in names_:
                for f_ in c_.body:
                    if isinstance(f_, ast.FunctionDef) and f_.name == '__cinit__':
                        f_.name = '__init__'
            cnames.add(c_.name)
    for f_ in ast.walk(tree):
        if isinstance(f_, (ast.FunctionDef, ast.AsyncFunctionDef)):
            for blk in [f_.body]:
                blk[:] = [x for x in blk if not (isinstance(x, ast.Assign) and isinstance(x.value, ast.Call) and isinstance(x.value.func, ast.Name)
                                                 and x.value.func.id == '__cdecl__' and x.value.args and isinstance(x.value.args[0], ast.Constant)
                                                 and x.value.args[0].value in cnames)] or [ast.Pass()]
    from . import objflat

    # enumerators declared in a `cdef extern` block (`cdef enum parse_status: PARSE_SUCCEEDED ..`) take their values from
    # the C++ header: their names read as those integers
    enum_names = set()
    in_enum = None
    for ln in text.split('\n'):
        m_ = re.match(r'^(\s*)c?p?def\s+enum\b[^:]*:\s*$', ln)
        if m_:
            in_enum = len(m_.group(1))
            continue
        if in_enum is not None:
            if not ln.strip():
                continue
            if len(ln) - len(ln.lstrip()) <= in_enum:
                in_enum = None
                continue
            for part in ln.split('#')[0].split(','):
                nm_ = part.split('=')[0].strip()
                if nm_.isidentifier() and nm_ != 'pass':
                    enum_names.add(nm_)
    if enum_names:
        from . import cxx
        values = cxx.load(repo).get('enums:', {})

        class _Enum(ast.NodeTransformer):
            def visit_Name(self, node):
                if isinstance(node.ctx, ast.Load) and node.id in enum_names and isinstance(values.get(node.id), int):
                    return ast.copy_location(ast.Constant(value=values[node.id]), node)
                return node
        _Enum().visit(tree)

    # pointers are erased by this front end (`&x` reads x), so dereferencing one reads the variable as well
    class _Deref(ast.NodeTransformer):
        def visit_Call(self, node):
            self.generic_visit(node)
            if isinstance(node.func, ast.Name) and node.func.id in ('deref', 'dereference') and len(node.args) == 1 and not node.keywords:
                return node.args[0]
            return node
    _Deref().visit(tree)
    objflat.inline_worker(tree, 'run', 'parse_sentence')
    flattened = objflat.flatten(tree)
    mod = PyModule(REL, text, tree)
    mod.normalised = norm
    mod.flattened = flattened
    mod.repo = repo
    tree._pymodule = mod
    return mod
