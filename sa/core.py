"""Shared engine: repository access, Python front end, reporting.

Nothing under the analysed repository is imported or executed; files are
read as text and parsed (``ast`` for Python, see ``pyx``/``cxx`` for the rest).
"""
import ast
import json
import os
import sys
import time

VERIF = os.path.dirname(os.path.dirname(os.path.abspath(__file__)))
REPO = os.environ.get('VERIF_REPO', '/repo')


class AnalysisError(Exception):
    """An anchor vanished or a construct is outside the recognised idioms.

    Reported as ANALYSIS-ERROR / exit 2: never a violation, never a pass."""


# ---------------------------------------------------------------------------
# Python front end
# ---------------------------------------------------------------------------

def attach_parents(tree):
    for node in ast.walk(tree):
        for child in ast.iter_child_nodes(node):
            child._parent = node
    tree._parent = None
    return tree


def parents(node):
    node = getattr(node, '_parent', None)
    while node is not None:
        yield node
        node = getattr(node, '_parent', None)


def enclosing_function(node):
    for p in parents(node):
        if isinstance(p, (ast.FunctionDef, ast.Lambda, ast.AsyncFunctionDef)):
            return p
    return None


def src(node):
    """Normalised source text of a node (formatting-independent)."""
    try:
        return ast.unparse(node)
    except Exception:  # pragma: no cover
        return '<%s>' % type(node).__name__


def src_ref(node):
    """like src(), with module-level private functions that were renamed since the reference tree spelt by their
    reference name (so that a rule written against `_helper(x)` still recognises `_renamed_helper(x)`)"""
    root = node
    while getattr(root, '_parent', None) is not None:
        root = root._parent
    al = getattr(root, '_aliases', None)
    if not al:
        return src(node)
    import copy
    clone = copy.deepcopy(node)
    for n in ast.walk(clone):
        if isinstance(n, ast.Name) and n.id in al:
            n.id = al[n.id]
    return src(clone)


def const_str(node):
    if isinstance(node, ast.Constant) and isinstance(node.value, str):
        return node.value
    return None


def closure_functions_of(fn):
    """fn plus the functions of its own module (module level, its class, enclosing functions) that it calls, transitively:
    the unit a syntactic scan has to cover so that moving a closure out of its function changes nothing"""
    root = fn
    while getattr(root, '_parent', None) is not None:
        root = root._parent
    out = [fn]
    todo = [fn]
    while todo:
        f = todo.pop()
        called = set()
        for n in ast.walk(f):
            if isinstance(n, ast.Call):
                if isinstance(n.func, ast.Name):
                    called.add(n.func.id)
                elif isinstance(n.func, ast.Attribute) and isinstance(n.func.value, ast.Name) and n.func.value.id in ('self', 'cls'):
                    called.add(n.func.attr)
        scope = getattr(f, '_parent', None)
        while scope is not None:
            for n in getattr(scope, 'body', []):
                if isinstance(n, (ast.FunctionDef, ast.AsyncFunctionDef)) and n.name in called and n not in out \
                        and not any(n in ast.walk(o) for o in out):
                    out.append(n)
                    todo.append(n)
            scope = getattr(scope, '_parent', None)
    return out


def closure_walk(fn):
    """ast.walk over fn and the same-module helpers it calls (see closure_functions_of)"""
    for f in closure_functions_of(fn):
        for n in ast.walk(f):
            yield n


def private_function_table(tree):
    """{name: {'params': n, 'callers': [top-level functions / classes of the module whose body calls it by name]}} for the
    module-level functions whose name starts with one underscore"""
    out = {}
    tops = [n for n in tree.body if isinstance(n, (ast.FunctionDef, ast.ClassDef))]
    for fn in tops:
        if isinstance(fn, ast.FunctionDef) and fn.name.startswith('_') and not fn.name.startswith('__'):
            callers = sorted({t.name for t in tops if t is not fn and any(
                isinstance(c, ast.Call) and isinstance(c.func, ast.Name) and c.func.id == fn.name for c in ast.walk(t))})
            out[fn.name] = {'params': len(fn.args.posonlyargs) + len(fn.args.args), 'callers': callers}
    return out


_REFERENCE_NAMES = None


def reference_names():
    global _REFERENCE_NAMES
    if _REFERENCE_NAMES is None:
        p = os.path.join(os.path.dirname(os.path.abspath(__file__)), 'reference_names.json')
        try:
            with open(p) as f:
                _REFERENCE_NAMES = json.load(f)
        except (OSError, ValueError):
            _REFERENCE_NAMES = {}
    return _REFERENCE_NAMES


def renamed_privates(rel, tree):
    """{current name: reference name} for module-level private functions of the reference tree that are gone under their
    name but have exactly one successor: a private function unknown to the reference tree with the same arity that is
    called from the same functions (callers compared after applying the renames already found)"""
    ref = reference_names().get(rel, {})
    if not ref:
        return {}
    cur = private_function_table(tree)
    missing = [n for n in ref if n not in cur]
    fresh = [n for n in cur if n not in ref]
    alias = {}
    for _ in range(3):
        for old in missing:
            if old in alias.values():
                continue
            want = ref[old]
            cands = []
            for new in fresh:
                if new in alias:
                    continue
                callers = sorted({alias.get(c, c) for c in cur[new]['callers']})
                if cur[new]['params'] == want['params'] and callers == sorted(want['callers']) and callers:
                    cands.append(new)
            if len(cands) == 1:
                alias[cands[0]] = old
    return alias


def dotted(node):
    """'a.b.c' for Name/Attribute chains, else None."""
    parts = []
    while isinstance(node, ast.Attribute):
        parts.append(node.attr)
        node = node.value
    if isinstance(node, ast.Name):
        parts.append(node.id)
        return '.'.join(reversed(parts))
    return None


# modules whose small helper classes are read as the locals and closures they group (sa/objflat.py)
FLATTEN_CLASSES = {'depccg/parsing.py', 'depccg/allennlp/utils.py'}


class PyModule(object):
    def __init__(self, rel, text, tree):
        self.rel = rel
        self.text = text
        self.tree = attach_parents(tree)
        # private module-level functions that were renamed since the reference tree: {current name: reference name}
        self.aliases = renamed_privates(rel, self.tree)
        self.tree._aliases = self.aliases

    # -- lookup ------------------------------------------------------------
    def _find(self, body, name, kinds):
        for node in body:
            if isinstance(node, kinds) and node.name == name:
                return node
        return None

    def current_name(self, ref_name):
        for new, old in self.aliases.items():
            if old == ref_name:
                return new
        return ref_name

    def get(self, qualname, required=True):
        """Function / class by dotted path: 'f', 'Class.method', 'outer.inner'.
        Nested lookups search the whole body of the enclosing def (any depth
        of if/try/with), not only its top level."""
        node = self.tree
        by_role = False
        for i_part, part in enumerate(qualname.split('.')):
            if i_part == 0:
                part = self.current_name(part)
            found = None
            todo = list(getattr(node, 'body', []))
            while todo:
                n = todo.pop(0)
                if isinstance(n, (ast.FunctionDef, ast.ClassDef, ast.AsyncFunctionDef)):
                    if n.name == part:
                        found = n
                        break
                    continue
                for field in ('body', 'orelse', 'finalbody', 'handlers'):
                    todo.extend(getattr(n, field, []) or [])
            if found is None and isinstance(node, (ast.FunctionDef, ast.AsyncFunctionDef)):
                # a private nested helper may have been renamed: if the enclosing function has exactly one
                # nested definition, that is the one meant
                nested = [n for n in ast.walk(node) if isinstance(n, (ast.FunctionDef, ast.AsyncFunctionDef)) and n is not node
                          and getattr(n, '_parent', None) is not None and enclosing_function(n) is node]
                if len(nested) == 1:
                    found = nested[0]
                else:
                    found = self._helper_by_role(node, nested, last=(i_part == len(qualname.split('.')) - 1))
                if found is not None:
                    by_role = True
            if found is None and i_part == 0:
                # a definition that was moved to another module of the package and is imported here under its name
                found = self._imported_def(part)
            if found is None and i_part > 0 and by_role and isinstance(node, (ast.FunctionDef, ast.AsyncFunctionDef)):
                found = node            # closures that were merged: the helper found by role is the innermost there is
            if found is None:
                if required:
                    raise AnalysisError('%s: definition %r not found' % (self.rel, qualname))
                return None
            node = found
        return node

    def _imported_def(self, name):
        repo = getattr(self, 'repo', None)
        if repo is None:
            return None
        for s_ in self.tree.body:
            if isinstance(s_, ast.ImportFrom) and s_.module and s_.level == 0:
                for al in s_.names:
                    if (al.asname or al.name) == name:
                        for rel in (s_.module.replace('.', '/') + '.py', s_.module.replace('.', '/') + '/__init__.py'):
                            if repo.exists(rel) and rel != self.rel:
                                other = repo.module(rel)
                                for d in other.tree.body:
                                    if isinstance(d, (ast.FunctionDef, ast.ClassDef)) and d.name == al.name:
                                        return d
            # a module-level alias  _name = imported_name
            if isinstance(s_, ast.Assign) and len(s_.targets) == 1 and isinstance(s_.targets[0], ast.Name) and s_.targets[0].id == name \
                    and isinstance(s_.value, ast.Name) and s_.value.id != name:
                return self._imported_def(s_.value.id) or self._find(self.tree.body, s_.value.id, (ast.FunctionDef, ast.ClassDef))
        return None

    def _helper_by_role(self, entry, nested, last=True):
        """the recursive helper of `entry` when it is not found by name: the one self-recursive closure of entry, or
        the one self-recursive function / method of the enclosing scope that entry calls (a closure that was moved out)"""
        def calls_self(fn):
            for n in ast.walk(fn):
                if isinstance(n, ast.Call):
                    f = n.func
                    if isinstance(f, ast.Name) and f.id == fn.name:
                        return True
                    if isinstance(f, ast.Attribute) and f.attr == fn.name and isinstance(f.value, ast.Name):
                        return True
            return False
        rec = [n for n in nested if calls_self(n)]
        if len(rec) == 1:
            return rec[0]
        if rec:
            return None
        if not nested and calls_self(entry):
            return entry            # the entry point recurses itself (its closure was merged into it)
        called = set()
        for n in ast.walk(entry):
            if isinstance(n, ast.Call):
                if isinstance(n.func, ast.Name):
                    called.add(n.func.id)
                elif isinstance(n.func, ast.Attribute) and isinstance(n.func.value, ast.Name) and n.func.value.id in ('self', 'cls'):
                    called.add(n.func.attr)
        scope = getattr(entry, '_parent', None)
        cands = []
        while scope is not None:
            for n in getattr(scope, 'body', []):
                if isinstance(n, (ast.FunctionDef, ast.AsyncFunctionDef)) and n is not entry and n.name in called and calls_self(n):
                    cands.append(n)
            scope = getattr(scope, '_parent', None)
        if len(cands) == 1:
            return cands[0]
        if not cands and not nested:
            # the work was moved into a module-level function that keeps the recursive walk as its own closure
            # (entry: open the file / check the arguments; worker: def rec(..) .. for x in ..: yield ..)
            workers = []
            scope = getattr(entry, '_parent', None)
            while scope is not None:
                for n in getattr(scope, 'body', []):
                    if isinstance(n, (ast.FunctionDef, ast.AsyncFunctionDef)) and n is not entry and n.name in called:
                        inner = [m for m in ast.walk(n) if isinstance(m, (ast.FunctionDef, ast.AsyncFunctionDef)) and m is not n and calls_self(m)]
                        if len(inner) == 1:
                            workers.append((n, inner[0]))
                scope = getattr(scope, '_parent', None)
            if len(workers) == 1:
                return workers[0][1] if last else workers[0][0]
        return None

    def literal(self, node):
        """the display a node stands for: itself, or -- for a name bound once at module level -- that binding's value"""
        seen = 0
        while isinstance(node, ast.Name) and seen < 4:
            binds = [s_ for s_ in self.tree.body if isinstance(s_, (ast.Assign, ast.AnnAssign)) and any(
                isinstance(t, ast.Name) and t.id == node.id for t in (s_.targets if isinstance(s_, ast.Assign) else [s_.target]))]
            if len(binds) != 1 or binds[0].value is None:
                return node
            node = binds[0].value
            seen += 1
        return node

    def functions(self, top_only=True):
        out = []
        for node in (self.tree.body if top_only else ast.walk(self.tree)):
            if isinstance(node, (ast.FunctionDef, ast.AsyncFunctionDef)):
                out.append(node)
        return out

    def assign(self, name, required=True):
        """Value node of the (last) module-level assignment to `name`."""
        found = None
        for node in self.tree.body:
            if isinstance(node, ast.Assign):
                for t in node.targets:
                    if isinstance(t, ast.Name) and t.id == name:
                        found = node.value
            elif isinstance(node, ast.AnnAssign) and isinstance(node.target, ast.Name) \
                    and node.target.id == name and node.value is not None:
                found = node.value
        if found is None and getattr(self, 'repo', None) is not None:
            # a table that is spelled out in another module of the package and imported here under its name
            for s_ in self.tree.body:
                if isinstance(s_, ast.ImportFrom) and s_.module and s_.level == 0 and any(al.name == name and al.asname in (None, name) for al in s_.names):
                    for rel in (s_.module.replace('.', '/') + '.py', s_.module.replace('.', '/') + '/__init__.py'):
                        if self.repo.exists(rel) and rel != self.rel:
                            found = self.repo.module(rel).assign(name, required=False)
                            break
        if found is None and required:
            raise AnalysisError('%s: module-level name %r not found' % (self.rel, name))
        return found

    def where(self, node, func=None):
        f = func
        if f is None:
            e = enclosing_function(node)
            f = qualname_of(e) if e is not None else '<module>'
        return '%s:%s %s' % (self.rel, getattr(node, 'lineno', '?'), f)


def qualname_of(node):
    names = []
    n = node
    while n is not None:
        if isinstance(n, (ast.FunctionDef, ast.ClassDef, ast.AsyncFunctionDef)):
            names.append(n.name)
        elif isinstance(n, ast.Lambda):
            names.append('<lambda>')
        n = getattr(n, '_parent', None)
    return '.'.join(reversed(names)) or '<module>'


class Repo(object):
    def __init__(self, root=None):
        self.root = root or os.environ.get('VERIF_REPO', '/repo')
        self._mods = {}
        self.files_read = []

    def path(self, rel):
        return os.path.join(self.root, rel)

    def exists(self, rel):
        return os.path.exists(self.path(rel))

    def text(self, rel):
        try:
            with open(self.path(rel), encoding='utf-8') as f:
                t = f.read()
        except OSError as e:
            raise AnalysisError('cannot read %s: %s' % (rel, e))
        if rel not in self.files_read:
            self.files_read.append(rel)
        return t

    def module(self, rel):
        if rel not in self._mods:
            text = self.text(rel)
            try:
                tree = ast.parse(text, filename=rel)
            except SyntaxError as e:
                raise AnalysisError('%s does not parse: %s' % (rel, e))
            from . import objflat
            # generic functions read as isinstance chains; helper classes are left as written here (the rules for the
            # Python modules know the classes of the reference tree by role) -- the Cython front end flattens them
            ref_ = reference_names().get(rel, {})
            gone_ = [n_ for n_ in ref_ if ref_[n_].get('params') == 1 and not any(isinstance(s_, ast.FunctionDef) and s_.name == n_ for s_ in tree.body)]
            if gone_:
                def _cat_class(name, self=self):
                    try:
                        raw = ast.parse(self.text('depccg/cat.py'))
                    except (SyntaxError, AnalysisError):
                        return None
                    return next((d for d in raw.body if isinstance(d, ast.ClassDef) and d.name == name), None)
                objflat.restore_private_predicates(tree, gone_, lambda name, tree=tree, rel=rel: self._generator_named(tree, rel, name), _cat_class)
            try:
                props_ = objflat.derived_tree_properties(self.text('depccg/tree.py')) if rel.startswith('depccg/') else {}
            except AnalysisError:
                props_ = {}
            objflat.expand_derived_tree_properties(tree, props_)
            objflat.dataclass_constructors(tree)
            objflat.classmethod_constructors(tree)
            objflat.plain_local_assignments(tree)
            objflat.splice_starred_displays(tree)
            objflat.inline_kind_dispatch(tree)
            objflat.split_record_tables(tree)
            objflat.merge_registry(tree)
            objflat._link(tree)
            objflat.expand_element_attributes(tree)
            objflat.unalias_memoised(tree)
            objflat.unwrap_memo_functions(tree)
            objflat.inline_category_constants(tree)
            objflat.specialise_walkers(tree, lambda name, tree=tree, rel=rel: self._generator_named(tree, rel, name))
            objflat.unfold_tree_folds(tree, lambda name, tree=tree, rel=rel: self._generator_named(tree, rel, name))
            objflat.unmap_structural(tree, lambda name, tree=tree, rel=rel: self._generator_named(tree, rel, name))
            objflat.inline_bases(tree, lambda name, tree=tree, rel=rel: self._class_named(tree, rel, name))
            objflat.unfuse_factories(tree, lambda name, tree=tree, rel=rel: self._class_named(tree, rel, name))
            if rel == 'depccg/printer/jigg_xml.py':
                # the per-sentence part of the Jigg writer (one converter, the loop over the n-best trees) and the token
                # elements may sit in private helpers of their own: read where they are called
                objflat.inline_worker(tree, 'to_jigg_xml', lambda c_, cls_={d_.name for d_ in tree.body if isinstance(d_, ast.ClassDef)}: isinstance(c_.func, ast.Name) and c_.func.id in cls_)
                objflat.inline_worker(tree, 'to_jigg_xml', lambda c_: ast.unparse(c_.func) in ('etree.SubElement', 'etree.Element', 'SubElement', 'Element') and c_.args
                                      and isinstance(c_.args[-1], ast.Constant) and c_.args[-1].value == 'token')
            objflat.list_walks_to_generators(tree)
            objflat.inline_skeletons(tree)
            objflat.nest_workers(tree)
            objflat._link(tree)
            objflat.inline_generators(tree, lambda name, tree=tree, rel=rel: self._generator_named(tree, rel, name))
            objflat.unmap_loops(tree)
            objflat.unmemoise_locals(tree)
            objflat.accumulator_to_value(tree)
            if rel in FLATTEN_CLASSES:
                flattened = objflat.flatten(tree)
            else:
                objflat._link(tree)
                flattened = objflat.merge_dispatch(tree)
            self._mods[rel] = PyModule(rel, text, tree)
            self._mods[rel].flattened = flattened
            self._mods[rel].repo = self
            self._mods[rel].tree._pymodule = self._mods[rel]
        return self._mods[rel]

    def _class_named(self, tree, rel, name):
        """the class `name` of this module, or of the module of the package it is imported from (as loaded, i.e. with its
        own normalisations applied)"""
        for s_ in tree.body:
            if isinstance(s_, ast.ClassDef) and s_.name == name:
                return s_
        loading = self.__dict__.setdefault('_loading', set())
        for s_ in tree.body:
            if isinstance(s_, ast.ImportFrom) and s_.module and s_.level == 0:
                for al in s_.names:
                    if (al.asname or al.name) == name:
                        for other in (s_.module.replace('.', '/') + '.py', s_.module.replace('.', '/') + '/__init__.py'):
                            if self.exists(other) and other != rel and other not in loading:
                                loading.add(rel)
                                try:
                                    text = self.text(other)
                                finally:
                                    loading.discard(rel)
                                # the class as written in its own module (not the normalised tree: the base may have been
                                # merged into a sibling there)
                                try:
                                    raw = ast.parse(text, filename=other)
                                except SyntaxError:
                                    return None
                                for d in raw.body:
                                    if isinstance(d, ast.ClassDef) and d.name == al.name:
                                        return d
        return None

    def _generator_named(self, tree, rel, name):
        """the module-level function `name` of this module, or of the module of the package it is imported from"""
        for s_ in tree.body:
            if isinstance(s_, ast.FunctionDef) and s_.name == name:
                return s_
        loading = self.__dict__.setdefault('_loading', set())
        for s_ in tree.body:
            if isinstance(s_, ast.ImportFrom) and s_.module and s_.level == 0:
                for al in s_.names:
                    if (al.asname or al.name) == name:
                        for other in (s_.module.replace('.', '/') + '.py', s_.module.replace('.', '/') + '/__init__.py'):
                            if self.exists(other) and other != rel and other not in loading:
                                loading.add(rel)
                                try:
                                    om = self.module(other)
                                finally:
                                    loading.discard(rel)
                                for d in om.tree.body:
                                    if isinstance(d, ast.FunctionDef) and d.name == al.name:
                                        return d
        return None

    def py_files(self, subdir):
        out = []
        base = self.path(subdir)
        for dirpath, dirnames, filenames in os.walk(base):
            dirnames[:] = sorted(d for d in dirnames if d != '__pycache__')
            for fn in sorted(filenames):
                if fn.endswith('.py'):
                    out.append(os.path.relpath(os.path.join(dirpath, fn), self.root))
        return out


# ---------------------------------------------------------------------------
# Reporting
# ---------------------------------------------------------------------------

def load_known_findings():
    p = os.path.join(VERIF, 'known_findings.json')
    if not os.path.exists(p):
        return []
    with open(p) as f:
        return json.load(f).get('findings', [])


class Report(object):
    """Collects obligations; writes evidence; decides the exit code.

    A finding is identified by (property, rule, key); `key` is built from
    module, function and normalised construct text, never from line numbers.
    """

    def __init__(self, prop, tier='quick', explanation='', trusted=None):
        self.prop = prop
        self.tier = tier
        self.t0 = time.time()
        self.explanation = explanation
        self.trusted = trusted or []
        self.obligations = []      # (rule, where, what, nontrivial)
        self.violations = []       # dicts
        self.known_hit = []
        self.floors = []
        self.floor_failures = []
        self.samples = []
        self.analysed = {}
        self.assumptions = []
        self.extra = {}
        self.rules = {}
        self.known = [k for k in load_known_findings()
                      if k.get('property') == prop and k.get('status') == 'known']

    # -- recording ---------------------------------------------------------
    def rule(self, rid, text):
        self.rules[rid] = text

    def ok(self, rule, where, what, nontrivial=True):
        self.obligations.append((rule, where, what, nontrivial, True))

    def violation(self, rule, where, key, msg):
        full_key = key
        for k in self.known:
            if k.get('rule') == rule and k.get('key') == full_key:
                self.known_hit.append((k, where, msg))
                self.obligations.append((rule, where, msg, True, False))
                return
        self.obligations.append((rule, where, msg, True, False))
        self.violations.append({'rule': rule, 'where': where, 'key': full_key, 'message': msg})

    def check(self, cond, rule, where, key, ok_msg, bad_msg=None):
        if cond:
            self.ok(rule, where, ok_msg)
        else:
            self.violation(rule, where, key, bad_msg or ('NOT: ' + ok_msg))
        return cond

    def floor(self, name, actual, minimum):
        self.floors.append({'name': name, 'actual': actual, 'minimum': minimum})
        if actual < minimum:
            # decided in finish(): a violation found on the way takes precedence over the vacuity guard
            self.floor_failures.append('instance floor %r: found %d, confirmed by hand %d'
                                       % (name, actual, minimum))

    def sample(self, obj):
        if len(self.samples) < 40:
            self.samples.append(obj)

    def note(self, key, value):
        self.analysed[key] = value

    # -- output ------------------------------------------------------------
    def _evidence(self, status):
        n_obl = len(self.obligations)
        n_ok = sum(1 for o in self.obligations if o[4])
        distinct = len({(o[0], o[2]) for o in self.obligations if o[3]})
        samples = list(self.samples)
        for o in self.obligations[:12]:
            samples.append({'rule': o[0], 'where': o[1], 'obligation': o[2], 'holds': o[4]})
        cov = {
            'explanation': self.explanation,
            'obligations': n_obl,
            'discharged': n_ok,
            'evaluations': max(n_obl, 1),
            'distinct_nontrivial': distinct,
            'rule': ('one evaluation = one rule instance (rule id x code site) extracted from the '
                     'current source; distinct = distinct (rule id, evaluated obligation text); '
                     'an instance is non-trivial when it compares an extracted construct with the '
                     'rule table (all recorded instances are)'),
            'samples': samples,
            'rules': self.rules,
            'floors': self.floors,
            'analysed': self.analysed,
            'trusted_base': self.trusted,
            'checker_cmd': 'python3 -m sa.run %s --tier %s' % (self.prop, self.tier),
            'status': status,
            'known_findings_reported': [k[0].get('key') for k in self.known_hit],
            'violations_detail': self.violations[:50],
        }
        cov.update(self.extra)
        return {
            'property_id': self.prop,
            'tier': self.tier,
            'seed': int(os.environ.get('VERIF_SEED', '0') or 0),
            'level': 'other',
            'coverage': cov,
            'assumptions': self.assumptions,
            'wall_s': round(time.time() - self.t0, 3),
            'violations': len(self.violations),
        }

    def write_evidence(self, status):
        d = os.environ.get('VERIF_EVIDENCE_DIR') or os.path.join(VERIF, 'evidence')
        os.makedirs(d, exist_ok=True)
        with open(os.path.join(d, self.prop + '.json'), 'w') as f:
            json.dump(self._evidence(status), f, indent=1, sort_keys=True, default=str)
            f.write('\n')

    def finish(self):
        for k, where, msg in self.known_hit:
            print('KNOWN-FINDING: property=%s rule=%s %s -- %s [%s]'
                  % (self.prop, k.get('rule'), k.get('what', ''), msg, where))
        if self.violations:
            d = os.environ.get('VERIF_REPLAY_DIR') or os.path.join(VERIF, 'out', 'replay')
            os.makedirs(d, exist_ok=True)
            path = os.path.join(d, '%s.json' % self.prop)
            with open(path, 'w') as f:
                json.dump({'property': self.prop, 'repo': os.environ.get('VERIF_REPO', '/repo'),
                           'violations': self.violations},
                          f, indent=1)
            for v in self.violations:
                print('FINDING rule=%s at %s: %s  [key=%s]'
                      % (v['rule'], v['where'], v['message'], v['key']))
            print('VIOLATION property=%s replay=%s' % (self.prop, path))
            self.write_evidence('violation')
            return 1
        if self.floor_failures:
            raise AnalysisError('; '.join(self.floor_failures))
        self.write_evidence('holds')
        n_ok = sum(1 for o in self.obligations if o[4])
        print('OK property=%s tier=%s obligations=%d discharged=%d known_findings=%d wall=%.2fs'
              % (self.prop, self.tier, len(self.obligations), n_ok, len(self.known_hit),
                 time.time() - self.t0))
        return 0


class StructuralViolation(AnalysisError):
    """raised by a front end when the construct it looks for is missing in a way that is itself a violation"""

    def __init__(self, rule, where, key, message):
        AnalysisError.__init__(self, message)
        self.rule, self.where, self.key, self.message = rule, where, key, message


def run_check(prop, tier, fn, explanation, trusted=None):
    """Run `fn(repo, report)`; map outcomes to the exit-code contract."""
    rep = Report(prop, tier, explanation, trusted)
    repo = Repo()
    try:
        fn(repo, rep)
        rep.note('files', sorted(repo.files_read))
        return rep.finish()
    except AnalysisError as e:
        if isinstance(e, StructuralViolation):
            # the front end could not build its model *because* the code has a shape that breaks the property
            rep.rule(e.rule, 'shape of the code the model of this check is built from')
            rep.violation(e.rule, e.where, e.key, e.message)
            rep.floor_failures = []
            return rep.finish()
        if rep.violations:
            # a violation established before the analysis got stuck stands on its own
            print('NOTE property=%s: analysis incomplete (%s); reporting the violations found before that' % (prop, e))
            rep.extra['analysis_error'] = str(e)
            rep.floor_failures = []
            return rep.finish()
        print('ANALYSIS-ERROR property=%s: %s' % (prop, e))
        rep.extra['analysis_error'] = str(e)
        try:
            rep.write_evidence('analysis-error')
        except Exception:
            pass
        return 2
    except Exception as e:  # a crash of the checker is not a verdict
        import traceback
        traceback.print_exc()
        print('ANALYSIS-ERROR property=%s: checker crashed: %r' % (prop, e))
        rep.extra['analysis_error'] = repr(e)
        try:
            rep.write_evidence('analysis-error')
        except Exception:
            pass
        return 2
