"""What a comparator decides, read off its source.

A comparison function touches its operands only through comparisons (and, for agenda items, the sum in + out), so what
it computes is settled by the relative order of a handful of numbers.  This module reads the body of a small C++
comparator as paths (parse_model.Paths), and interprets the returned expression over every assignment of values from a
small domain to the operands' fields -- a finite enumeration of the orderings the fields can be in, not a run of the
program.  The rules then state the required decision as a predicate over the same assignment.

  table(fn, sides)   -> [(assignment, result)]; assignment maps (side, field) -> number, side in 'L' / 'R'
"""
import itertools

from .core import AnalysisError

TUPLE_MAKERS = ('tie', 'std::tie', 'make_tuple', 'std::make_tuple', 'forward_as_tuple', 'std::forward_as_tuple', 'make_pair', 'std::make_pair')


class Unreadable(Exception):
    pass


def _side(t, sides):
    """which operand a base term denotes"""
    if t in sides:
        return sides[t]
    if t and t[0] in ('deref', 'addr') and t[1] in sides:
        return sides[t[1]]
    return None


def leaves(t, sides, acc=None):
    acc = set() if acc is None else acc
    if not isinstance(t, tuple) or not t:
        return acc
    if t[0] == 'mem' and _side(t[1], sides) is not None:
        acc.add((_side(t[1], sides), t[2]))
        return acc
    if _side(t, sides) is not None and getattr(leaves, 'whole_is_score', False):
        acc.add((_side(t, sides), 'in_score'))
        acc.add((_side(t, sides), 'out_score'))
        return acc
    if t[0] == 'mcall' and _side(t[1], sides) is not None and t[2] == 'score' and not t[3]:
        acc.add((_side(t[1], sides), 'in_score'))
        acc.add((_side(t[1], sides), 'out_score'))
        return acc
    for x in (t if isinstance(t[0], tuple) else t[1:]):
        if isinstance(x, tuple):
            leaves(x, sides, acc)
    return acc


def ev(t, val, sides):
    k = t[0]
    if k == 'lit':
        return t[1]
    if _side(t, sides) is not None and getattr(leaves, 'whole_is_score', False):
        # an operand compared as a whole: items are ordered by their operator<, i.e. by score (judged on its own)
        return val[(_side(t, sides), 'in_score')] + val[(_side(t, sides), 'out_score')]
    if k == 'mem':
        s = _side(t[1], sides)
        if s is None:
            raise Unreadable('member of something that is not an operand: %r' % (t,))
        return val[(s, t[2])]
    if k == 'mcall' and t[2] == 'score' and not t[3]:
        s = _side(t[1], sides)
        if s is None:
            raise Unreadable('score() of something that is not an operand')
        return val[(s, 'in_score')] + val[(s, 'out_score')]
    if k == 'bin':
        op = t[1]
        if op == '&&':
            return bool(ev(t[2], val, sides)) and bool(ev(t[3], val, sides))
        if op == '||':
            return bool(ev(t[2], val, sides)) or bool(ev(t[3], val, sides))
        a, b = ev(t[2], val, sides), ev(t[3], val, sides)
        if op == '<':
            return a < b
        if op == '>':
            return a > b
        if op == '<=':
            return a <= b
        if op == '>=':
            return a >= b
        if op == '==':
            return a == b
        if op == '!=':
            return a != b
        if op == '+':
            return a + b
        if op == '-':
            return a - b
        raise Unreadable('operator %s' % op)
    if k == 'un' and t[1] == '!':
        return not ev(t[2], val, sides)
    if k == 'un' and t[1] == '-':
        return -ev(t[2], val, sides)
    if k == 'cond':
        return ev(t[2], val, sides) if ev(t[1], val, sides) else ev(t[3], val, sides)
    if k == 'call' and t[1] in TUPLE_MAKERS:
        return tuple(ev(x, val, sides) for x in t[2])
    if k in ('ctor', 'init'):
        return tuple(ev(x, val, sides) for x in t[-1])
    raise Unreadable('%s term' % k)


def table(fn, domain=(0, 1, 2)):
    """-> (sides, rows): rows = [(assignment, bool result)] over every assignment of `domain` values to the fields the
    comparator reads.  fn: a FunctionDecl with two parameters, or a method with one (the left operand is *this)."""
    from . import cxx
    from .parse_model import Paths
    ps = [p.name for p in cxx.params_of(fn)]
    if len(ps) == 2:
        sides = {('var', ps[0]): 'L', ('var', ps[1]): 'R'}
    elif len(ps) == 1:
        sides = {('this',): 'L', ('var', ps[0]): 'R'}
    else:
        raise Unreadable('%d parameters' % len(ps))
    paths = Paths(fn).paths
    lv = set()
    for conds, effects, ret in paths:
        if effects:
            raise Unreadable('the comparator has effects')
        if ret is None:
            raise Unreadable('a path returns nothing')
        for c, _ in conds:
            leaves(c, sides, lv)
        leaves(ret, sides, lv)
    # both operands read the same fields
    fields = sorted({f for _, f in lv})
    keys = [(s, f) for s in ('L', 'R') for f in fields]
    if len(keys) > 8:
        raise Unreadable('%d operand fields' % len(keys))
    rows = []
    for vals in itertools.product(domain, repeat=len(keys)):
        val = dict(zip(keys, vals))
        res = None
        for conds, effects, ret in paths:
            if all(bool(ev(c, val, sides)) == pol for c, pol in conds):
                res = bool(ev(ret, val, sides))
                break
        if res is None:
            raise Unreadable('no path for an assignment')
        rows.append((val, res))
    return fields, rows


def judge_items(fn, spec, domain=(0, 1, 2)):
    """judge() for comparators of agenda items, where `a < b` on whole items means the items' own operator<"""
    leaves.whole_is_score = True
    try:
        return judge(fn, spec, domain)
    finally:
        leaves.whole_is_score = False


def judge(fn, spec, domain=(0, 1, 2)):
    """does the comparator decide `spec(assignment) -> bool | None` (None: either answer is fine) everywhere?
    -> (ok, detail)"""
    try:
        fields, rows = table(fn, domain)
    except Unreadable as e:
        return False, 'cannot be read as a comparison of the operands: %s' % e
    for val, res in rows:
        try:
            want = spec(val)
        except KeyError as e:
            return False, 'does not read %s' % (e.args[0],)
        if want is not None and want != res:
            txt = ', '.join('%s.%s=%s' % (s, f, v) for (s, f), v in sorted(val.items()))
            return False, 'answers %s for %s' % (res, txt)
    return True, 'decided over %d orderings of %s' % (len(rows), fields)
