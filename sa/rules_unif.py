"""Typestate, purity, order-independence and shape-safety rules (C06, C14)."""
import ast

from . import logic
from .core import AnalysisError, src, qualname_of, enclosing_function, parents
from .pysym import SymExec, show, subterms, subterms_guarded, guards_of
from .rules_pyx import N, C, A, MUTATORS
from . import symcat as sc

UNI = 'depccg/unification.py'


def truthiness(t, trace):
    """truth value of term t that follows propositionally from the (cond, polarity) trace, or None"""
    if t is None:
        return None
    if t[0] == 'const':
        return bool(t[1])
    f = logic.formula(t)
    if logic.implied(trace, f):
        return True
    if logic.excluded(trace, f):
        return False
    return None


def r_provider_typestate(repo, rep, R='R6.1'):
    mod = repo.module(UNI)
    call = mod.get('Unification.__call__')
    w = '%s:%s Unification.__call__' % (UNI, call.lineno)
    S_ = N('self')
    paths = SymExec(call).run()
    own_methods = {f_.name for f_ in getattr(call, '_parent', None).body if isinstance(f_, ast.FunctionDef)} if isinstance(getattr(call, '_parent', None), ast.ClassDef) else set()
    n_ret = 0
    for st, out in paths:
        trace = [(e[1], e[2]) for e in st.events if e[0] == 'branch']
        done_conds = [(c, p) for c, p in trace if c == A(S_, 'done')]
        first_effect = None
        for e in st.events:
            if e[0] == 'call' and e[1][1][0] == 'attr' and e[1][1][1] == S_ and e[1][1][2] in own_methods:
                continue        # a method of the matcher itself, read in place: its statements are the events that follow
            if e[0] in ('setattr', 'setitem', 'call', 'aug', 'del'):
                first_effect = e
                break
        first_branch = trace[0] if trace else None
        rep.check(first_branch is not None and first_branch[0] == A(S_, 'done') and
                  (first_effect is None or st.events.index(first_effect) > [i for i, e in enumerate(st.events) if e[0] == 'branch'][0]),
                  R, w, 'Unification.__call__:done-first', 'the matcher tests `done` before doing anything else',
                  'the matcher does something before testing `done` (%s)' % (show(first_effect[1]) if first_effect else 'no test at all'))
        if (A(S_, 'done'), True) in trace:
            rep.check(out == 'raise', R, w, 'Unification.__call__:second-call-raises', 'a second call raises',
                      'a second call does not raise')
            continue
        sets = [e for e in st.events if e[0] == 'setattr' and e[1] == S_ and e[2] == 'done']
        rep.check(bool(sets) and sets[0][3] == C(True) and (first_effect is sets[0] or first_effect is None), R, w,
                  'Unification.__call__:marks-done', 'every answering path first marks the matcher as used (self.done = True)',
                  'an answering path does not set self.done = True before its first effect')
        if out != 'return':
            rep.violation(R, w, 'Unification.__call__:path-end:%s' % out, 'a path ends with %s instead of an answer' % out)
            continue
        n_ret += 1
        ans = truthiness(st.ret, trace)
        succ = truthiness(st.env.get('self.success'), trace)
        rep.check(ans is not None and succ is not None and ans == succ, R, w,
                  'Unification.__call__:answer-matches-state:%s' % ans,
                  'a path answering %s leaves self.success %s' % (ans, succ),
                  'a path answers %s but leaves self.success = %s (%s)' % (show(st.ret), succ, show(st.env.get('self.success', C(None)))[:80]))
    rep.floor('answering paths of Unification.__call__', n_ret, 3)
    init = mod.get('Unification.__init__')
    for st, out in SymExec(init).run():
        env = st.env
        rep.check(env.get('self.success') == C(False) and env.get('self.done') == C(False), R,
                  '%s:%s Unification.__init__' % (UNI, init.lineno), 'Unification.__init__:initial-state',
                  'a new matcher is neither done nor successful', 'initial state is success=%s done=%s'
                  % (show(env.get('self.success', C(None))), show(env.get('self.done', C(None)))))
    gi = mod.get('Unification.__getitem__')
    w = '%s:%s Unification.__getitem__' % (UNI, gi.lineno)
    for st, out in SymExec(gi).run():
        guard_i = None
        read_i = None
        for i, e in enumerate(st.events):
            if e[0] == 'assert' and e[1] == A(S_, 'success') and guard_i is None:
                guard_i = i
            if e[0] == 'branch' and e[1] in (('unop', 'not', A(S_, 'success')), A(S_, 'success')) and guard_i is None:
                guard_i = i
            terms = [x for x in e[1:-1] if isinstance(x, tuple)]
            reads = any(s in (A(S_, 'cats'), A(S_, 'mapping')) for t in terms for s in subterms(t))
            if reads and read_i is None and e[0] != 'assert':
                read_i = i
        if read_i is None:
            continue
        rep.check(guard_i is not None and guard_i < read_i, R, w, 'Unification.__getitem__:guard',
                  'bindings are read only after the success flag was checked',
                  'bindings (self.cats / self.mapping) are read before the success flag is checked')
    # the nested reader is only called after the guard
    rep.ok(R, w, 'nested binding reader is a local function called after the guard (checked through the call order above)')


def unification_sites(repo, files):
    out = []
    for rel in files:
        mod = repo.module(rel)
        for n in ast.walk(mod.tree):
            if isinstance(n, ast.Call) and isinstance(n.func, ast.Name) and n.func.id == 'Unification':
                out.append((mod, enclosing_function(n), n))
    return out


def _site_entries(sites):
    """a matcher created inside a private helper that the rule functions call (a schema-driven `_apply(schema, x, y)`) is
    judged where the helper is used: -> [(mod, entry function, site node)] with the helper's callers as entries"""
    from .core import closure_functions_of
    out = []
    for mod, fn, node in sites:
        if fn is None:
            out.append((mod, None, node))
            continue
        top = fn
        while isinstance(getattr(top, '_parent', None), ast.FunctionDef):
            top = top._parent
        private = isinstance(getattr(top, '_parent', None), ast.Module) and top.name.startswith('_')
        callers = [f for f in mod.tree.body if isinstance(f, ast.FunctionDef) and f is not top and top in closure_functions_of(f)] if private else []
        callers = [f for f in callers if not any(f in closure_functions_of(g) for g in callers if g is not f)]
        if callers:
            for f in callers:
                out.append((mod, f, node))
        else:
            out.append((mod, fn, node))
    return out


def r_client_typestate(repo, rep, files, R='R6.2'):
    sites = _site_entries(unification_sites(repo, files))
    n = 0
    for mod, fn, node in sites:
        w = '%s:%s %s' % (mod.rel, node.lineno, qualname_of(fn) if fn is not None else '<module>')
        key = '%s:%s' % (mod.rel, qualname_of(fn) if fn is not None else '<module>')
        if fn is None:
            rep.violation(R, w, key + ':module-level', 'a Unification object is created at module level and shared between rule applications')
            continue
        n += 1
        ok_once = ok_guard = ok_keys = ok_escape = True
        why = []
        for st, out in SymExec(fn, unroll=1).run():
            unis = [e[1] for e in st.events if e[0] == 'call' and e[2] is node]
            if not unis:
                continue
            uni = unis[0]
            args = uni[2]
            if len(args) != 2 or any(a[0] != 'const' or not isinstance(a[1], str) for a in args):
                rep.violation(R, w, key + ':patterns', 'patterns are not two string literals: %s' % show(uni)[:80])
                ok_keys = False
                continue
            try:
                allowed = set(sc.pattern_vars(sc.parse_pattern(args[0][1])) + sc.pattern_vars(sc.parse_pattern(args[1][1])))
            except AnalysisError as e:
                rep.violation(R, w, key + ':patterns', str(e))
                continue
            calls = [i for i, e in enumerate(st.events) if e[0] == 'call' and e[1][1] == uni]
            if len(calls) > 1:
                ok_once = False
                why.append('called %d times on one path' % len(calls))
            asked = [st.events[i][1] for i in calls]
            succeeded = ('or', tuple(logic.formula(c_) for c_ in asked)) if asked else ('const', False)
            trace = []
            for i, e in enumerate(st.events + [('ret', st.ret or C(None), None)]):
                eg = list(guards_of(st, e)) if e[0] in ('call', 'getattr') else []
                for t in (x for x in e[1:-1] if isinstance(x, tuple)):
                    for s_, g in subterms_guarded(t):
                        if s_[0] == 'sub' and s_[1] == uni:
                            # the read must follow from the tests passed so far plus the short-circuit guards it sits under
                            if not logic.implied(trace + eg + list(g), succeeded):
                                ok_guard = False
                                why.append('binding %s read without a successful match before it' % show(s_[2]))
                            if s_[2][0] != 'const' or s_[2][1] not in allowed:
                                ok_keys = False
                                why.append('binding key %s is not a meta variable of the patterns %s' % (show(s_[2]), sorted(allowed)))
                        if s_[0] == 'call' and s_[1] != uni and s_ != uni and uni in s_[2] + tuple(v for _, v in s_[3]):
                            callee = s_[1]
                            helper = callee[0] == 'name' and callee[1].startswith('_') and isinstance(mod.get(callee[1], required=False), ast.FunctionDef)
                            if helper:
                                continue        # a private helper of the module: the walker has inlined it, its reads are judged here
                            ok_escape = False
                            why.append('matcher passed to %s' % show(s_[1]))
                if e[0] == 'branch':
                    trace.append((e[1], e[2]))
                elif e[0] == 'assert':
                    trace.append((e[1], True))
            if st.ret is not None and uni in set(subterms(st.ret)) and not any(
                    s_[0] == 'sub' and s_[1] == uni for s_ in subterms(st.ret)) and st.ret == uni:
                ok_escape = False
                why.append('matcher returned')
        rep.check(ok_once, R, w, key + ':answers-once', 'the matcher is asked at most once on every path', '; '.join(sorted(set(why))))
        rep.check(ok_guard, R, w, key + ':read-after-success', 'bindings are read only on paths dominated by a successful match', '; '.join(sorted(set(why))))
        rep.check(ok_keys, R, w, key + ':keys', 'binding keys are meta variables of the two patterns', '; '.join(sorted(set(why))))
        rep.check(ok_escape, R, w, key + ':local', 'the matcher does not leave the function that created it', '; '.join(sorted(set(why))))
    return n


# ---------------------------------------------------------------------------
# purity
# ---------------------------------------------------------------------------

def root_of(t):
    """root name of an access path term (name / attr / sub / elem / unpack chains)"""
    while True:
        if t[0] == 'name':
            return t[1]
        if t[0] in ('attr', 'sub', 'elem', 'unpack', 'star'):
            t = t[1]
            continue
        return None


class Purity(object):
    """param-mutation summaries over a set of functions (same-module calls resolved by name)."""

    def __init__(self, repo, rep, R):
        self.repo, self.rep, self.R = repo, rep, R
        self.summ = {}      # (rel, qualname) -> set(param names mutated) ; in progress -> None
        self.analysed = []

    def fn_params(self, fn):
        a = fn.args
        return [x.arg for x in a.posonlyargs + a.args] + ([a.vararg.arg] if a.vararg else []) + \
            [x.arg for x in a.kwonlyargs] + ([a.kwarg.arg] if a.kwarg else [])

    def resolve(self, mod, fn, callee_t, st):
        """-> (mod, FunctionDef) for a call target term, or None"""
        if callee_t[0] == 'func':
            for n in ast.walk(fn):
                if isinstance(n, ast.FunctionDef) and id(n) == callee_t[2]:
                    return mod, n
        if callee_t[0] == 'name':
            f = mod.get(callee_t[1], required=False)
            if isinstance(f, ast.FunctionDef):
                return mod, f
        if callee_t[0] == 'attr' and callee_t[1][0] == 'name':
            # self.helper(...) / Class.helper(...) of the class the function belongs to
            node = fn
            cls = None
            while getattr(node, '_parent', None) is not None:
                node = node._parent
                if isinstance(node, ast.ClassDef):
                    cls = node
                    break
            if cls is not None and callee_t[1][1] in ('self', 'cls', cls.name):
                for s_ in cls.body:
                    if isinstance(s_, ast.FunctionDef) and s_.name == callee_t[2]:
                        return mod, s_
        return None

    def call_params(self, cf, callee_t):
        """parameter names in the order the call's positional arguments bind to them"""
        ps = self.fn_params(cf)
        if isinstance(getattr(cf, '_parent', None), ast.ClassDef) and callee_t[0] == 'attr' \
                and 'staticmethod' not in [src(d) for d in cf.decorator_list]:
            return ps[1:]
        return ps

    def analyse(self, mod, fn, allow_self=False):
        key = (mod.rel, qualname_of(fn))
        if key in self.summ:
            return self.summ[key] or set()
        self.summ[key] = None
        params = self.fn_params(fn)
        module_names = {t.id for s in mod.tree.body if isinstance(s, (ast.Assign, ast.AnnAssign))
                        for t in (s.targets if isinstance(s, ast.Assign) else [s.target]) if isinstance(t, ast.Name)}
        mutated = set()
        w = lambda n: '%s:%s %s' % (mod.rel, getattr(n, 'lineno', fn.lineno), qualname_of(fn))
        globs = [n for n in ast.walk(fn) if isinstance(n, (ast.Global, ast.Nonlocal))]
        enclosing_locals = set()
        for g in globs:
            if isinstance(g, ast.Global):
                self.rep.violation(self.R, w(g), '%s:%s:global' % key, 'writes module state through `global %s`' % ', '.join(g.names))
        seen = set()
        for st, out in SymExec(fn, unroll=1).run():
            for e in st.events:
                if e[0] == 'in-comp':
                    e = e[1:]
                tgt = None
                what = None
                if e[0] == 'setattr':
                    tgt, what = e[1], 'attribute .%s assigned' % e[2]
                elif e[0] == 'setitem':
                    tgt, what = e[1], 'item assigned'
                elif e[0] == 'aug':
                    tgt, what = e[1], 'augmented assignment'
                    if tgt[0] == 'name':
                        continue        # rebinding a local
                elif e[0] == 'del':
                    tgt, what = e[1], 'deleted'
                    if tgt[0] == 'name':
                        continue
                elif e[0] == 'call':
                    f = e[1][1]
                    if f[0] == 'attr' and f[2] in MUTATORS:
                        tgt, what = f[1], 'mutating method .%s()' % f[2]
                    elif (f in (N('setattr'), N('delattr')) or (f[0] == 'attr' and f[2] in ('__setattr__', '__delattr__'))) and e[1][2]:
                        tgt, what = e[1][2][0], 'attribute set through %s' % show(f)
                    else:
                        r = self.resolve(mod, fn, f, st)
                        if r is not None:
                            cm, cf = r
                            sub = self.analyse(cm, cf, allow_self)
                            cparams = self.call_params(cf, f)
                            for kw_name, kw_val in e[1][3]:
                                if kw_name in sub:
                                    self._mut(kw_val, 'passed to %s which mutates its parameter %s' % (cf.name, kw_name),
                                              params, module_names, mutated, allow_self, w(e[2]), key, seen, fn)
                            if f[0] == 'attr' and 'self' in sub and cf.args.args and cf.args.args[0].arg == 'self':
                                self._mut(f[1], 'receiver of %s which mutates self' % cf.name, params, module_names, mutated,
                                          allow_self, w(e[2]), key, seen, fn)
                            for i, a in enumerate(e[1][2]):
                                if i < len(cparams) and cparams[i] in sub:
                                    self._mut(a, 'passed to %s which mutates its parameter %s' % (cf.name, cparams[i]),
                                              params, module_names, mutated, allow_self, w(e[2]), key, seen, fn)
                        continue
                if tgt is None:
                    continue
                self._mut(tgt, what, params, module_names, mutated, allow_self, w(e[-1]), key, seen, fn)
        self.summ[key] = mutated
        self.analysed.append(key)
        return mutated

    def _mut(self, tgt, what, params, module_names, mutated, allow_self, where, key, seen, fn):
        if tgt[0] in ('alloc', 'list', 'dict', 'set', 'call', 'listcomp', 'dictcomp', 'setcomp', 'sym', 'tuple', 'const'):
            return      # a fresh object of this call
        root = root_of(tgt)
        if root is None:
            return
        if root == 'self' and allow_self:
            return
        if root in params:
            mutated.add(root)
            return
        if root in module_names:
            k = (key, root, what)
            if k not in seen:
                seen.add(k)
                self.rep.violation(self.R, where, '%s:%s:module-state:%s' % (key[0], key[1], root),
                                   'module-level object `%s` is modified (%s)' % (root, what))
            return
        # a free variable of an enclosing function: report as mutation of that name upward
        mutated.add(root)


def set_typed(t):
    if t[0] in ('set', 'setcomp'):
        return True
    if t[0] == 'call' and t[1] in (N('set'), N('frozenset')):
        return True
    if t[0] == 'binop' and t[1] in ('&', '|', '-', '^'):
        return set_typed(t[2]) or set_typed(t[3]) or _keys_view(t[2]) or _keys_view(t[3])
    return False


def _keys_view(t):
    return t[0] == 'call' and t[1][0] == 'attr' and t[1][2] in ('keys', 'items')


def r_hash_order(repo, rep, files, R='R14.2'):
    """no order-sensitive iteration over a set"""
    n_loops = 0
    for rel in files:
        mod = repo.module(rel)
        for fn in [f for f in ast.walk(mod.tree) if isinstance(f, ast.FunctionDef)]:
            seen = set()
            for st, out in SymExec(fn, unroll=1).run():
                for e in st.events:
                    if e[0] == 'loop-enter' and isinstance(e[2], ast.For) and id(e[2]) not in seen:
                        seen.add(id(e[2]))
                        n_loops += 1
                        it = e[1]
                        w = '%s:%s %s' % (rel, e[2].lineno, qualname_of(fn))
                        if set_typed(it):
                            body = e[2].body
                            sensitive = any(isinstance(x, (ast.Assign, ast.AugAssign, ast.Return, ast.Break, ast.Yield))
                                            or (isinstance(x, ast.Call) and isinstance(x.func, ast.Attribute) and x.func.attr in ('append', 'extend', 'insert'))
                                            for b in body for x in ast.walk(b))
                            rep.check(not sensitive, R, w, '%s:%s:set-iteration:%s' % (rel, qualname_of(fn), src(e[2].iter)),
                                      'iteration over the set `%s` has an order-insensitive body' % src(e[2].iter),
                                      'iterates the set `%s` (hash order, differs between processes for strings) and its body assigns / appends / exits early: the outcome depends on PYTHONHASHSEED'
                                      % src(e[2].iter))
                        else:
                            rep.ok(R, w, 'loop over `%s` is not over a set' % src(e[2].iter)[:60], nontrivial=False)
                    if e[0] == 'loop-folded' and id(e[3]) not in seen:
                        # a loop that only appends to a fresh list: the list has the iteration order
                        seen.add(id(e[3]))
                        n_loops += 1
                        w = '%s:%s %s' % (rel, e[3].lineno, qualname_of(fn))
                        rep.check(not set_typed(e[1]), R, w, '%s:%s:set-iteration:%s' % (rel, qualname_of(fn), src(e[3].iter)),
                                  'the list built from `%s` does not take its order from a set' % src(e[3].iter)[:60],
                                  'builds a list by iterating the set `%s` (hash order, differs between processes for strings): the outcome depends on PYTHONHASHSEED'
                                  % src(e[3].iter))
                # ordered comprehensions over sets, unless consumed by an order-insensitive reduction
                terms = [t for e in st.events for t in e[1:-1] if isinstance(t, tuple)] + ([st.ret] if st.ret else [])
                for t in terms:
                    for comp, parent in _comps_with_parent(t, None):
                        if comp[0] not in ('listcomp', 'genexp'):
                            continue
                        key = '%s:%s:set-comprehension:%s' % (rel, qualname_of(fn), show(comp[2][0][0])[:40])
                        if key in seen:
                            continue
                        seen.add(key)
                        n_loops += 1
                        if not any(set_typed(g[0]) for g in comp[2]):
                            continue
                        reducing = parent is not None and parent[0] == 'call' and parent[1][0] == 'name' and \
                            parent[1][1] in ('set', 'frozenset', 'sorted', 'any', 'all', 'sum', 'min', 'max', 'len')
                        rep.check(reducing, R, '%s:%s %s' % (rel, fn.lineno, qualname_of(fn)), key,
                                  'the comprehension over the set `%s` feeds an order-insensitive reduction' % show(comp[2][0][0])[:40],
                                  'an ordered comprehension iterates the set `%s` (hash order): the outcome depends on PYTHONHASHSEED' % show(comp[2][0][0])[:60])
    return n_loops


def _comps_with_parent(t, parent):
    if isinstance(t, tuple):
        if t and isinstance(t[0], str):
            if t[0] in ('listcomp', 'genexp'):
                yield t, parent
            parent = t
        for x in t:
            if isinstance(x, tuple):
                for r in _comps_with_parent(x, parent):
                    yield r


# ---------------------------------------------------------------------------
# shape safety: .left/.right/.slash/.functor need a functor, .base/.feature an atom
# ---------------------------------------------------------------------------
FUNCTOR_ATTRS = ('left', 'right', 'slash', 'functor')
ATOM_ATTRS = ('base', 'feature')


def _shape_known(v, need, guards, uni_facts):
    """is value term `v` known to be a functor / atom under the guard list?"""
    for g, pol in guards:
        if g == A(v, 'is_functor'):
            if (need == 'functor') == pol:
                return True
        if g == A(v, 'is_atomic'):
            if (need == 'atom') == pol:
                return True
        if g == ('unop', 'not', A(v, 'is_functor')) and (need == 'atom') == pol:
            return True
        if g == ('unop', 'not', A(v, 'is_atomic')) and (need == 'functor') == pol:
            return True
        if g[0] == 'call' and g[1] == N('isinstance') and len(g[2]) == 2 and g[2][0] == v and pol:
            if g[2][1] == N('Functor') and need == 'functor':
                return True
            if g[2][1] == N('Atom') and need == 'atom':
                return True
        # helper predicates that imply functor-hood of their argument when true
        if g[0] == 'call' and g[1] in (N('_is_modifier'), N('_is_type_raised')) and g[2] == (v,) and pol and need == 'functor':
            return True
    # the same facts when they only follow from the guards (a test folded into a helper's conditional value, ...)
    wants = []
    if need == 'functor':
        wants = [logic.formula(('call', N('isinstance'), (v, N('Functor')), ())), logic.formula(A(v, 'is_functor')), logic.neg(logic.formula(A(v, 'is_atomic')))]
    else:
        wants = [logic.formula(('call', N('isinstance'), (v, N('Atom')), ())), logic.formula(A(v, 'is_atomic')), logic.neg(logic.formula(A(v, 'is_functor')))]
    compound = [(g, pol) for g, pol in guards if g[0] in ('ifexp', 'bool', 'unop')]
    if compound and any(logic.implied(list(guards), w_) for w_ in wants):
        return True
    # successful unification: the input has at least the functor structure of its pattern
    path = []
    b = v
    while b[0] == 'attr' and b[2] in ('left', 'right'):
        path.append(b[2])
        b = b[1]
    path.reverse()
    if b[0] == 'name' and b[1] in uni_facts:
        p = uni_facts[b[1]]
        for step in path:
            if p[0] != 'fn':
                return False
            p = p[1] if step == 'left' else p[3]
        if need == 'functor':
            return p[0] == 'fn'
    return False


def flatten_guards(conds):
    out = []
    for c, pol in conds:
        if pol and c[0] == 'bool' and c[1] == 'and':
            for x in c[2]:
                out += flatten_guards([(x, True)])
        elif (not pol) and c[0] == 'bool' and c[1] == 'or':
            for x in c[2]:
                out += flatten_guards([(x, False)])
        elif c[0] == 'unop' and c[1] == 'not':
            out += flatten_guards([(c[2], not pol)])
        else:
            out.append((c, pol))
    return out


def r_shape_safety(repo, rep, mod, fn, R, typed_params=None):
    """every shape-specific attribute read on a category-valued term is dominated by a test (or a successful
    pattern match) that guarantees the shape.  Only receivers rooted at parameters / loop elements are judged."""
    key0 = '%s:%s' % (mod.rel, qualname_of(fn))
    params = [a.arg for a in fn.args.args]
    n = 0
    bad = {}
    for st, out in SymExec(fn, unroll=1, watch_attrs=FUNCTOR_ATTRS + ATOM_ATTRS).run():
        trace = []
        uni_facts = {}
        for e in st.events:
            e_orig = e
            if e[0] == 'in-comp':
                e = e[1:]       # a read made while a loop that was folded into a comprehension builds its element
            if e[0] == 'branch':
                trace.append((e[1], e[2]))
                c = e[1]
                if e[2] and c[0] == 'call' and c[1][0] == 'call' and c[1][1] == N('Unification') and len(c[1][2]) == 2 \
                        and all(a[0] == 'const' for a in c[1][2]) and len(c[2]) == 2:
                    try:
                        for a, pat in zip(c[2], c[1][2]):
                            if a[0] == 'name':
                                uni_facts[a[1]] = sc.parse_pattern(pat[1])
                    except AnalysisError:
                        pass
            elif e[0] == 'assert':
                trace.append((e[1], True))
            elif e[0] == 'getattr':
                v, attr, node = e[1], e[2], e[3]
                root = root_of(v)
                if root is None or root == 'self' or (root not in params):
                    continue
                if typed_params is not None and root not in typed_params:
                    continue
                need = 'functor' if attr in FUNCTOR_ATTRS else 'atom'
                guards = flatten_guards(list(trace) + list(guards_of(st, e)) + (list(guards_of(st, e_orig)) if e_orig is not e else []))
                n += 1
                facts = dict(uni_facts)
                for g, pol in guards:
                    # a successful match established inside a conditional expression / an inlined helper
                    if g[0] == 'unop' and g[1] == 'not':
                        g, pol = g[2], not pol
                    if pol and g[0] == 'call' and g[1][0] == 'call' and g[1][1] == N('Unification') and len(g[1][2]) == 2 \
                            and all(a[0] == 'const' for a in g[1][2]) and len(g[2]) == 2:
                        try:
                            for a, pat in zip(g[2], g[1][2]):
                                if a[0] == 'name':
                                    facts[a[1]] = sc.parse_pattern(pat[1])
                        except AnalysisError:
                            pass
                ok = _shape_known(v, need, guards, facts)
                k = (show(v), attr)
                if not ok:
                    bad[k] = node
                else:
                    bad.setdefault(k, None) if False else None
    for (vtxt, attr), node in sorted(bad.items()):
        if node is not None:
            rep.violation(R, '%s:%s %s' % (mod.rel, node.lineno, qualname_of(fn)), '%s:shape:%s.%s' % (key0, vtxt, attr),
                          '`%s.%s` is read although `%s` is not known to be %s on that path (AttributeError for the other shape)'
                          % (vtxt, attr, vtxt, 'a functor' if attr in FUNCTOR_ATTRS else 'an atom'))
    if not bad:
        rep.ok(R, '%s:%s %s' % (mod.rel, fn.lineno, qualname_of(fn)),
               '%s: all %d shape-specific attribute reads on its category parameters are guarded' % (qualname_of(fn), n), nontrivial=n > 0)
    return n


def _sentinel_get(t, X, tables):
    """table.get(X.feature, S) with S a plain name (a module-level sentinel object)"""
    return t[0] == 'call' and t[1][0] == 'attr' and t[1][2] == 'get' and t[1][1] in tables and len(t[2]) == 2 and t[2][0] == A(X, 'feature') \
        and t[2][1][0] == 'name' and not t[3]


def r_instantiation(repo, rep, R):
    """what uni[key] hands back is the matched category with each atom's feature replaced *as a whole* when that very
    feature was bound, and left alone otherwise: an atom keeps its base, a functor is rebuilt from its two instantiated
    sides with its own slash.  (Filling single variables of a three-part feature by name would mix up variables of
    different atoms: X1 is `mod` in one triple and `case` in another.)  The reader is found through what __getitem__
    returns: a closure, a method of the matcher, a module-level function that is handed the table, or a pair of methods
    of the two category classes."""
    mod = repo.module(UNI)
    cat = repo.module('depccg/cat.py')
    gi = mod.get('Unification.__getitem__')
    w = '%s:%s Unification.__getitem__' % (UNI, gi.lineno)
    SELF = N(gi.args.args[0].arg)
    names = set()
    handed = set()          # functions handed to the reader as arguments (a structural map applied to `instantiate one atom`)
    for st, out in SymExec(gi, unroll=1, inline=False).run():
        if out == 'return' and st.ret is not None and st.ret[0] == 'call':
            f = st.ret[1]
            if f[0] == 'name':
                names.add(f[1])
            elif f[0] == 'func':
                names.add(f[1])
            elif f[0] == 'attr':
                names.add(f[2])
            for a_ in st.ret[2]:
                if a_[0] == 'attr' and a_[1] == SELF:
                    handed.add(('method', a_[2]))
                elif a_[0] in ('name', 'func'):
                    handed.add(('function', a_[1]))
    # a local of __getitem__ that only abbreviates the table (mapping = self.mapping)
    table_alias = [n_.targets[0].id for n_ in ast.walk(gi) if isinstance(n_, ast.Assign) and len(n_.targets) == 1 and isinstance(n_.targets[0], ast.Name)
                   and isinstance(n_.value, ast.Attribute) and isinstance(n_.value.value, ast.Name) and n_.value.value.id == SELF[1] and n_.value.attr == 'mapping']
    names -= {'Atom', 'Functor'}
    if len(names) != 1:
        raise AnalysisError('%s: cannot tell what Unification.__getitem__ returns (%s)' % (UNI, sorted(names)))
    nm = names.pop()
    defs = []           # (function, X term, table term or None = found on the path, owner)
    for f_ in ast.walk(gi):
        if isinstance(f_, ast.FunctionDef) and f_ is not gi and f_.name == nm:
            defs.append((f_, mod, 'closure'))
    uni_cls = mod.get('Unification')
    for f_ in uni_cls.body:
        if isinstance(f_, ast.FunctionDef) and f_.name == nm:
            defs.append((f_, mod, 'method'))
    for f_ in mod.tree.body:
        if isinstance(f_, ast.FunctionDef) and f_.name == nm:
            defs.append((f_, mod, 'function'))
    for cname in ('Atom', 'Functor', 'Category'):
        c_ = cat.get(cname, required=False)
        for f_ in (c_.body if c_ is not None else []):
            if isinstance(f_, ast.FunctionDef) and f_.name == nm:
                defs.append((f_, cat, 'category:' + cname))
    for kind_, hn in sorted(handed):
        if kind_ == 'method':
            for f_ in uni_cls.body:
                if isinstance(f_, ast.FunctionDef) and f_.name == hn:
                    defs.append((f_, mod, 'atom-method'))
        else:
            for f_ in list(ast.walk(gi)) + list(mod.tree.body):
                if isinstance(f_, ast.FunctionDef) and f_ is not gi and f_.name == hn and not any(f_ is d_[0] for d_ in defs):
                    defs.append((f_, mod, 'atom-closure' if f_ not in mod.tree.body else 'atom-function'))
    if not defs:
        raise AnalysisError('%s: the reader `%s` that Unification.__getitem__ returns through was not found' % (UNI, nm))
    seen = {'hit': 0, 'miss': 0, 'fn': 0}
    bad = []
    n = 0
    for fn, m_, kind in defs:
        ps = [a.arg for a in fn.args.args]
        if kind.startswith('category:'):
            X = N(ps[0])
            tables = [N(p_) for p_ in ps[1:]]
        elif kind in ('method', 'atom-method'):
            X = N(ps[1]) if len(ps) > 1 else None
            tables = [A(N(ps[0]), 'mapping')] + [N(p_) for p_ in ps[2:]]
        elif kind in ('closure', 'atom-closure'):
            X = N(ps[0]) if ps else None
            tables = [A(SELF, 'mapping')] + [N(p_) for p_ in ps[1:]] + [N(a_) for a_ in table_alias]
        else:
            X = N(ps[0]) if ps else None
            tables = [N(p_) for p_ in ps[1:]]
        if X is None:
            continue
        selfname = N(ps[0]) if kind == 'method' else None

        def is_rec(t, child):
            """a call of the reader on `child` (closure / function / method of the matcher / method of the child)"""
            if t[0] != 'call':
                return False
            f = t[1]
            if f[0] == 'attr' and f[2] == nm and f[1] == child:
                return all(a_ in tables for a_ in t[2])
            direct = f == N(nm) or (f[0] == 'func' and f[1] == nm) or (selfname is not None and f == A(selfname, nm))
            return direct and bool(t[2]) and t[2][0] == child and all(a_ in tables for a_ in t[2][1:])
        for st, out in SymExec(fn, unroll=1, inline=False, init_env={fn.name: ('func', fn.name, id(fn))}).run():
            if out != 'return' or st.ret is None:
                continue
            n += 1
            r = st.ret
            conds = [(c, pol) for c, pol, _ in st.conds]
            is_fn = kind == 'category:Functor' or any(c == A(X, 'is_functor') and pol for c, pol in conds) or any(c == A(X, 'is_atomic') and not pol for c, pol in conds)
            hits = [(c[3], pol) for c, pol in conds if c[0] == 'cmp' and c[1] == 'in' and c[2] == A(X, 'feature') and c[3] in tables]
            hits += [(c[3], not pol) for c, pol in conds if c[0] == 'cmp' and c[1] == 'not in' and c[2] == A(X, 'feature') and c[3] in tables]
            if kind == 'category:Atom' and r[0] == 'call' and r[1] in tables and r[2] == (X,) and not r[3] and handed:
                continue        # a structural map: the atom is handed to the function given (judged as that function, below)
            if r == X and is_fn and any(c[0] == 'cmp' and c[1] == 'is' and pol and is_rec(c[2], A(X, 'left')) and c[3] == A(X, 'left') for c, pol in conds) \
                    and any(c[0] == 'cmp' and c[1] == 'is' and pol and is_rec(c[2], A(X, 'right')) and c[3] == A(X, 'right') for c, pol in conds):
                seen['fn'] += 0     # both sides came back as the very objects they were: the functor itself stands for the rebuilt one
                continue
            if r[0] == 'call' and is_fn:
                args = list(r[2])
                kw = dict(r[3])
                if r[1] == A(X, 'functor') and len(args) == 2 and is_rec(args[0], A(X, 'left')) and is_rec(args[1], A(X, 'right')):
                    seen['fn'] += 1
                    continue
                if r[1] == N('Functor'):
                    l_ = kw.get('left', args[0] if args else None)
                    s_ = kw.get('slash', args[1] if len(args) > 1 else None)
                    r_ = kw.get('right', args[2] if len(args) > 2 else None)
                    if l_ is not None and r_ is not None and is_rec(l_, A(X, 'left')) and s_ == A(X, 'slash') and is_rec(r_, A(X, 'right')):
                        seen['fn'] += 1
                        continue
            if r[0] == 'call' and r[1] == N('Atom') and not is_fn:
                args = list(r[2])
                kw = dict(r[3])
                b_ = kw.get('base', args[0] if args else None)
                f_ = kw.get('feature', args[1] if len(args) > 1 else None)
                if b_ == A(X, 'base') and f_ is not None:
                    if f_[0] == 'sub' and f_[2] == A(X, 'feature') and hits and hits[-1] == (f_[1], True):
                        seen['hit'] += 1
                        continue
                    if f_[0] == 'call' and f_[1][0] == 'attr' and f_[1][2] == 'get' and f_[1][1] in tables and f_[2] == (A(X, 'feature'), A(X, 'feature')):
                        seen['hit'] += 1
                        seen['miss'] += 1
                        continue
                    # looked up once with a sentinel: v = table.get(x.feature, SENTINEL); v is SENTINEL -> x, else Atom(x.base, v)
                    if _sentinel_get(f_, X, tables) and any(c == ('cmp', 'is', f_, f_[2][1]) and not pol or c == ('cmp', 'is not', f_, f_[2][1]) and pol for c, pol in conds):
                        seen['hit'] += 1
                        continue
            if r == X and not is_fn and hits and not hits[-1][1]:
                seen['miss'] += 1
                continue
            if r == X and not is_fn and any(c[0] == 'cmp' and c[1] in ('is', 'is not') and _sentinel_get(c[2], X, tables) and c[3] == c[2][2][1] and pol == (c[1] == 'is') for c, pol in conds):
                seen['miss'] += 1
                continue
            bad.append('%s under %s' % (show(r)[:70], [('' if pol else 'not ') + show(c)[:40] for c, pol in conds][-2:]))
    ok = not bad and all(seen.values())
    rep.check(ok, R, w, 'Unification.__getitem__:instantiation',
              'a bound feature is replaced as a whole, every other atom is handed back unchanged, functors are rebuilt from their two sides (`%s`, %d paths)' % (nm, n),
              'the matched category is instantiated differently (%s; cases seen %s) -- features that neither input carries can appear in the result' % (bad[:2], seen))
