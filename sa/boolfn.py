"""Boolean functions read off their paths and compared with a specification formula.

`spec(fn, formula)` runs the walker on `fn` (helpers inlined, compound tests split
along short-circuit evaluation, conditional expressions split, search loops
folded into all()/any()), reads the returned truth value as a function of the
elementary tests, and compares it row by row with `formula` -- so the verdict
does not depend on whether the function is written as one expression, a chain
of guard clauses, nested ifs or with De Morgan applied.
"""
from . import logic
from .pysym import SymExec, path_values, show, alternatives


def T(term):
    """formula of a term read as a truth value"""
    return logic.formula(term)


def AND(*fs):
    return ('and', tuple(fs))


def OR(*fs):
    return ('or', tuple(fs))


def NOT(f):
    return logic.neg(f)


def ITE(c, a, b):
    return OR(AND(c, a), AND(NOT(c), b))


def paths_of(fn, **kw):
    paths = SymExec(fn, **kw).run()
    vals = []
    for st, out in paths:
        conds = [(c, p) for c, p, _ in st.conds]
        if out == 'raise':
            vals.append((conds, 'raise'))
        elif out == 'return' and st.ret is not None:
            for g, v in alternatives(st.ret):
                vals.append((conds + list(g), v))
        else:
            vals.append((conds, ('const', None)))
    return paths, vals


def matches(fn, formula, constraint=None, **kw):
    """-> (ok, text describing the first mismatches)"""
    paths, vals = paths_of(fn, **kw)
    try:
        ok, bad, atoms = logic.equivalent(vals, formula, constraint)
    except ValueError as e:
        return False, 'too many elementary tests to tabulate (%s)' % e
    if ok:
        return True, 'truth table over %d elementary tests' % len(atoms)
    txt = []
    for sigma, results, want in bad[:2]:
        txt.append('answers %s instead of %s when %s' % (sorted(map(str, results)), want, logic.show_sigma(sigma, show) or '(always)'))
    return False, '; '.join(txt)
