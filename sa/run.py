"""CLI: python3 -m sa.run <property-id> [--tier quick|thorough]

exit 0  property held on everything analysed (known findings are printed)
exit 1  VIOLATION property=<id> replay=<path>
exit 2  ANALYSIS-ERROR (an anchor vanished / unrecognised construct / tool failure)
"""
import argparse
import importlib
import os
import sys

from .core import run_check

PROPS = ['C%02d' % i for i in range(1, 21)]


def main(argv=None):
    ap = argparse.ArgumentParser()
    ap.add_argument('prop')
    ap.add_argument('--tier', default=os.environ.get('VERIF_TIER', 'quick'), choices=['quick', 'thorough'])
    a = ap.parse_args(argv)
    if a.prop not in PROPS:
        print('unknown property %s' % a.prop)
        return 2
    try:
        mod = importlib.import_module('sa.checks.%s' % a.prop.lower())
    except ImportError as e:
        print('ANALYSIS-ERROR property=%s: no check module: %s' % (a.prop, e))
        return 2
    tier = a.tier
    rc = run_check(a.prop, tier, lambda repo, rep: mod.check(repo, rep, tier),
                   mod.EXPLANATION, getattr(mod, 'TRUSTED', None))
    if rc == 0 and tier == 'thorough':
        from . import selftest
        rc = selftest.run(a.prop, mod)
    return rc


if __name__ == '__main__':
    sys.exit(main())
