"""Rules over the combinator functions of depccg/grammar/{en,ja}.py (C03, C04, parts of C14/C19)."""
import ast

from .core import AnalysisError, src
from . import logic
from .pysym import SymExec, show, subterms
from .rules_pyx import N, C, A
from . import symcat as sc
from .pygrammar import combinator_functions, has_combinator_signature, registry

EN = 'depccg/grammar/en.py'
JA = 'depccg/grammar/ja.py'

# label -> schema.  dir: which input is the principal functor ('>' = x with a/b, '<' = y with a\b);
# n: number of arguments of the secondary functor that are carried over (0 = application);
# inner: the slash directly above the cancelled category in the secondary functor;
# restrict: backward crossed composition must refuse a bare N / NP as cancelled category.
SCHEMAS = {
    'en': {   # keyed by op_string
        'fa': dict(dir='>', n=0, inner=None, symbol='>', name='forward application'),
        'ba': dict(dir='<', n=0, inner=None, symbol='<', name='backward application'),
        'fc': dict(dir='>', n=1, inner='/', symbol='>B', name='forward (harmonic) composition'),
        'bx': dict(dir='<', n=1, inner='/', symbol='<B', restrict=True, name='backward crossed composition'),
        'gfc': dict(dir='>', n=2, inner='/', symbol='>B', name='generalised forward composition'),
        'gbx': dict(dir='<', n=2, inner='/', symbol='<B', restrict=True, name='generalised backward crossed composition'),
    },
    'ja': {   # keyed by op_symbol
        '>': dict(dir='>', n=0, inner=None, string='fa', name='forward application'),
        '<': dict(dir='<', n=0, inner=None, string='ba', name='backward application'),
        '>B': dict(dir='>', n=1, inner='/', string='fc', name='forward composition'),
        '<B1': dict(dir='<', n=1, inner='\\', string='bx', name='backward composition, degree 1'),
        '<B2': dict(dir='<', n=2, inner='\\', string='bx', name='backward composition, degree 2'),
        '<B3': dict(dir='<', n=3, inner='\\', string='bx', name='backward composition, degree 3'),
        '<B4': dict(dir='<', n=4, inner='\\', string='bx', name='backward composition, degree 4'),
        '>Bx1': dict(dir='>', n=1, inner='\\', string='fx', name='forward crossed composition, degree 1'),
        '>Bx2': dict(dir='>', n=2, inner='\\', string='fx', name='forward crossed composition, degree 2'),
        '>Bx3': dict(dir='>', n=3, inner='\\', string='fx', name='forward crossed composition, degree 3'),
    },
}
# non-schema labels: label -> allowed symbols
NONSCHEMA = {
    'en': {'conj': {'<Φ>'}, 'lp': {'<lp>', '<*>'}, 'rp': {'<rp>'}},
    'ja': {'SSEQ': {'other'}},
}
HEAD = {'en': True, 'ja': False}


def flat_and(t):
    if t[0] == 'bool' and t[1] == 'and':
        out = []
        for x in t[2]:
            out += flat_and(x)
        return out
    return [t]


_POSITIVE = {'not in': 'in', '!=': '==', 'is not': 'is'}


def true_atoms(conds):
    """elementary tests of the path in positive spelling: (`x not in T`, False) reads (`x in T`, True), `not c` flips,
    true conjunctions are flattened (the walker already records compound tests member by member)."""
    out = []

    def add(c, pol):
        if c[0] == 'unop' and c[1] == 'not':
            return add(c[2], not pol)
        if c[0] == 'bool' and c[1] == 'and' and pol:
            for x in c[2]:
                add(x, True)
            return
        if c[0] == 'bool' and c[1] == 'or' and not pol:
            for x in c[2]:
                add(x, False)
            return
        if c[0] == 'cmp' and c[1] in _POSITIVE:
            out.append((('cmp', _POSITIVE[c[1]], c[2], c[3]), not pol))
            return
        out.append((c, pol))
    for c, pol in conds:
        add(c, pol)
    return out


def pinned(conds, param):
    """string constants the parameter is pinned to on this path, or None"""
    for a, pol in true_atoms(conds):
        if not pol:
            continue
        if a[0] == 'cmp' and a[1] == '==' and a[2] == N(param) and a[3][0] == 'const' and isinstance(a[3][1], str):
            return [a[3][1]]
        if a[0] == 'cmp' and a[1] == 'in' and a[2] == N(param) and a[3][0] in ('tuple', 'list', 'set') and \
                all(x[0] == 'const' and isinstance(x[1], str) for x in a[3][1]):
            return [x[1] for x in a[3][1]]
    return None


def const_of(t):
    return t[1] if t[0] == 'const' else None


def check_is_modifier(mod, rep, R):
    from . import boolfn as bf
    fn = mod.get('_is_modifier')
    p = fn.args.args[0].arg
    shape = (('truthy', A(N(p), 'is_functor')), ('truthy', A(N(p), 'is_atomic')))
    cons = lambda sigma: not (shape[0] in sigma and shape[1] in sigma) or sigma[shape[0]] != sigma[shape[1]]
    is_fun = bf.T(A(N(p), 'is_functor'))
    ok, detail = bf.matches(fn, bf.AND(is_fun, bf.T(('cmp', '==', A(N(p), 'left'), A(N(p), 'right')))), cons)
    if not ok:
        ok, detail = bf.matches(fn, bf.AND(bf.NOT(bf.T(A(N(p), 'is_atomic'))), bf.T(('cmp', '==', A(N(p), 'left'), A(N(p), 'right')))), cons)
    rep.check(ok, R, '%s:%s _is_modifier' % (mod.rel, fn.lineno), mod.rel + ':_is_modifier',
              '_is_modifier(z) is z.is_functor and z.left == z.right (%s)' % detail, '_is_modifier: %s' % detail)


def check_is_type_raised(mod, rep, R):
    """_is_type_raised(z): z is a functor whose argument is a functor with the same result as z -- T/(T\\X), T\\(T/X), and the
    same-direction shapes T/(T/X), T\\(T\\X) as well (the guard of the conjunction rule keeps all of them out)"""
    from . import boolfn as bf
    fn = mod.get('_is_type_raised', required=False)
    if fn is None:
        return
    p = fn.args.args[0].arg
    X, XR = N(p), A(N(p), 'right')
    pairs = [(('truthy', A(X, 'is_functor')), ('truthy', A(X, 'is_atomic'))), (('truthy', A(XR, 'is_functor')), ('truthy', A(XR, 'is_atomic')))]

    def cons(sigma):
        for f_, a_ in pairs:
            if f_ in sigma and a_ in sigma and sigma[f_] == sigma[a_]:
                return False
        # the argument of an atom does not exist: no test on it is looked at
        return True
    same = bf.T(('cmp', '==', A(XR, 'left'), A(X, 'left')))
    same2 = bf.T(('cmp', '==', A(X, 'left'), A(XR, 'left')))
    ok, detail = False, ''
    for outer in (bf.NOT(bf.T(A(X, 'is_atomic'))), bf.T(A(X, 'is_functor'))):
        for inner in (bf.T(A(XR, 'is_functor')), bf.NOT(bf.T(A(XR, 'is_atomic')))):
            for eq in (same, same2):
                if not ok:
                    ok, detail = bf.matches(fn, bf.AND(outer, inner, eq), cons)
    rep.check(ok, R, '%s:%s _is_type_raised' % (mod.rel, fn.lineno), mod.rel + ':_is_type_raised',
              '_is_type_raised(z) is: z is a functor, its argument is a functor, and that argument\'s result is z\'s result (%s)' % detail,
              '_is_type_raised: %s -- the conjunction rule then coordinates a type-raised category (or refuses one that is not)' % detail)


def _const_items(mod, node, env, depth):
    """values a literal iterable yields: strings of a display / text, integers of range(<constants>)"""
    if isinstance(node, ast.Constant) and isinstance(node.value, str):
        return list(node.value)
    if isinstance(node, ast.Call) and isinstance(node.func, ast.Name) and node.func.id == 'range' and not node.keywords \
            and 1 <= len(node.args) <= 3 and all(isinstance(a, ast.Constant) and isinstance(a.value, int) for a in node.args):
        return list(range(*[a.value for a in node.args]))
    if isinstance(node, (ast.Tuple, ast.List, ast.Set)) and all(isinstance(e, ast.Constant) for e in node.elts):
        return [e.value for e in node.elts]
    return const_strings(mod, node, depth + 1, env)


def _const_text(mod, node, env):
    """the text of a constant / f-string over loop variables / concatenation, or None"""
    if isinstance(node, ast.Constant) and isinstance(node.value, str):
        return node.value
    if isinstance(node, ast.Name) and node.id in env:
        return str(env[node.id])
    if isinstance(node, ast.Name):
        binds = [s_ for s_ in mod.tree.body if isinstance(s_, ast.Assign) and any(isinstance(t, ast.Name) and t.id == node.id for t in s_.targets)]
        if len(binds) == 1:
            return _const_text(mod, binds[0].value, env)
        return None
    if isinstance(node, ast.JoinedStr):
        out = ''
        for v in node.values:
            if isinstance(v, ast.Constant):
                out += str(v.value)
            elif isinstance(v, ast.FormattedValue) and v.format_spec is None and v.conversion == -1:
                part = _const_text(mod, v.value, env)
                if part is None:
                    return None
                out += part
            else:
                return None
        return out
    if isinstance(node, ast.BinOp) and isinstance(node.op, ast.Add):
        a, b = _const_text(mod, node.left, env), _const_text(mod, node.right, env)
        return None if a is None or b is None else a + b
    if isinstance(node, ast.Call) and isinstance(node.func, ast.Name) and node.func.id == 'str' and len(node.args) == 1:
        return _const_text(mod, node.args[0], env)
    return None


def const_dict_keys(mod, node, depth=0):
    """the keys of a module-level dictionary expression: a display whose keys are constant texts, with `**{k: v for ..}`
    comprehensions over literal tables / range(<constants>) and `**NAME` of another such dictionary spelt out; a name
    bound once to such an expression; or None"""
    if depth > 6:
        return None
    if isinstance(node, ast.Name):
        binds = [s_ for s_ in mod.tree.body if isinstance(s_, (ast.Assign, ast.AnnAssign))
                 and any(isinstance(t, ast.Name) and t.id == node.id for t in (s_.targets if isinstance(s_, ast.Assign) else [s_.target]))]
        if len(binds) == 1 and binds[0].value is not None:
            return const_dict_keys(mod, binds[0].value, depth + 1)
        return None
    if isinstance(node, ast.DictComp):
        return const_strings(mod, ast.ListComp(elt=node.key, generators=node.generators), depth + 1)
    if isinstance(node, ast.Call) and isinstance(node.func, ast.Name) and node.func.id == 'dict' and not node.args and all(k.arg for k in node.keywords):
        return [k.arg for k in node.keywords]
    if not isinstance(node, ast.Dict):
        return None
    out = []
    for k, v in zip(node.keys, node.values):
        if k is None:
            sub = const_dict_keys(mod, v, depth + 1)
            if sub is None:
                return None
            out += sub
        else:
            t = _const_text(mod, k, {})
            if t is None:
                return None
            out.append(t)
    return out


def const_strings(mod, node, depth=0, env=None):
    """the strings a module-level constant expression denotes as a collection (literal displays -- also with starred
    comprehensions over literal tables / range(<constants>) and f-string elements --, set()/frozenset()/tuple()/list()
    of such, unions with | and +, names bound once at module level or imported from another module of the
    repository), or None."""
    env = env or {}
    if depth > 8:
        return None
    if isinstance(node, (ast.Tuple, ast.List, ast.Set)):
        out = []
        for e in node.elts:
            if isinstance(e, ast.Starred):
                sub = const_strings(mod, e.value, depth + 1, env)
                if sub is None:
                    return None
                out += sub
                continue
            t = _const_text(mod, e, env)
            if t is None:
                return None
            out.append(t)
        return out
    if isinstance(node, (ast.ListComp, ast.SetComp, ast.GeneratorExp)):
        envs = [dict(env)]
        for g in node.generators:
            if g.ifs or not isinstance(g.target, ast.Name):
                return None
            items = _const_items(mod, g.iter, env, depth)
            if items is None:
                return None
            envs = [dict(e, **{g.target.id: v}) for e in envs for v in items]
        out = []
        for e in envs:
            t = _const_text(mod, node.elt, e)
            if t is None:
                return None
            out.append(t)
        return out
    if isinstance(node, ast.Call) and isinstance(node.func, ast.Name) and node.func.id in ('set', 'frozenset', 'tuple', 'list', 'sorted') \
            and len(node.args) == 1 and not node.keywords:
        return const_strings(mod, node.args[0], depth + 1, env)
    if isinstance(node, ast.BinOp) and isinstance(node.op, (ast.BitOr, ast.Add)):
        a, b = const_strings(mod, node.left, depth + 1, env), const_strings(mod, node.right, depth + 1, env)
        return None if a is None or b is None else a + b
    if isinstance(node, ast.Name):
        binds = [s_ for s_ in mod.tree.body if isinstance(s_, (ast.Assign, ast.AnnAssign))
                 and any(isinstance(t, ast.Name) and t.id == node.id for t in (s_.targets if isinstance(s_, ast.Assign) else [s_.target]))]
        if len(binds) == 1 and binds[0].value is not None:
            return const_strings(mod, binds[0].value, depth + 1, env)
        if not binds:
            for s_ in mod.tree.body:
                if isinstance(s_, ast.ImportFrom) and s_.module and s_.level == 0:
                    for al in s_.names:
                        if (al.asname or al.name) == node.id:
                            repo = getattr(mod, 'repo', None)
                            rel = s_.module.replace('.', '/') + '.py'
                            if repo is not None and repo.exists(rel):
                                return const_strings(repo.module(rel), ast.Name(id=al.name, ctx=ast.Load()), depth + 1)
        return None
    return None


PUNCT_NAMES = {'LRB', 'RRB', 'LQU', 'RQU'}


def check_is_punct(mod, rep, R):
    """_is_punct(z): z is atomic and its name either does not start with a letter or is one of the four bracket / quote
    names.  The combinators are judged with `_is_punct` as a primitive, so what it means is fixed here."""
    from . import boolfn as bf
    import string
    fn = mod.get('_is_punct')
    p = fn.args.args[0].arg
    w = '%s:%s _is_punct' % (mod.rel, fn.lineno)
    base = A(N(p), 'base')
    paths, vals = bf.paths_of(fn)
    members = set()
    for conds, v in vals:
        ts = [c for c, _ in conds] + ([v] if isinstance(v, tuple) else [])
        for t in ts:
            for x in subterms(t):
                if x[0] == 'cmp' and x[1] in ('in', 'not in') and x[2] == base:
                    members.add(x[3])
                if x[0] == 'cmp' and x[1] in ('==', '!=') and base in (x[2], x[3]):
                    members.add(('tuple', (x[3] if x[2] == base else x[2],)))
    names = []
    unknown = []
    for t in members:
        if t[0] in ('tuple', 'list', 'set') and all(e[0] == 'const' and isinstance(e[1], str) for e in t[1]):
            names += [e[1] for e in t[1]]
        elif t[0] == 'name':
            got = const_strings(mod, ast.Name(id=t[1], ctx=ast.Load()))
            if got is None:
                unknown.append(show(t))
            else:
                names += got
        else:
            unknown.append(show(t))
    if unknown:
        raise AnalysisError('%s: _is_punct tests the category name against %s, whose members cannot be read off the source' % (mod.rel, unknown))
    lettered = {n_ for n_ in names if n_ and n_[0] in string.ascii_letters}
    rep.check(lettered == PUNCT_NAMES, R, w, mod.rel + ':_is_punct:names',
              'the lettered names _is_punct accepts are exactly the bracket and quote categories %s' % sorted(PUNCT_NAMES),
              '_is_punct accepts the lettered names %s; punctuation spelled with letters is %s (a conjunction or word category treated as '
              'punctuation is absorbed with the label of punctuation absorption)' % (sorted(lettered), sorted(PUNCT_NAMES)))
    # the decision function, with "name is one of the accepted names" as one elementary test per spelling found
    shape = (('truthy', A(N(p), 'is_functor')), ('truthy', A(N(p), 'is_atomic')))
    cons = lambda sigma: not (shape[0] in sigma and shape[1] in sigma) or sigma[shape[0]] != sigma[shape[1]]
    letter = bf.T(('cmp', 'in', ('sub', base, C(0)), N('ascii_letters')))
    named = bf.OR(*[bf.T(('cmp', 'in', base, t)) if not (t[0] == 'tuple' and len(t[1]) == 1) else bf.T(('cmp', '==', base, t[1][0])) for t in sorted(members, key=repr)]) \
        if members else ('const', False)
    ok = False
    detail = ''
    for atomic in (bf.NOT(bf.T(A(N(p), 'is_functor'))), bf.T(A(N(p), 'is_atomic'))):
        ok, detail = bf.matches(fn, bf.AND(atomic, bf.OR(bf.NOT(letter), named)), cons)
        if ok:
            break
    rep.check(ok, R, w, mod.rel + ':_is_punct',
              '_is_punct(z) is: z atomic and (z.base[0] not a letter or z.base one of the listed names) (%s)' % detail, '_is_punct: %s' % detail)


def check_combinator(lang, mod, name, fn, rep, R):
    """-> labels produced.  R: dict of rule ids."""
    params = [a.arg for a in fn.args.args]
    X, Y = params
    outs = sc.outcomes(fn)
    w = lambda o: '%s:%s %s' % (mod.rel, getattr(o.node, 'lineno', fn.lineno), name)
    labels = set()
    key0 = '%s:%s' % (mod.rel, name)
    n_results = 0
    seen = set()
    restrict_seen = False
    uni_used = None
    modifier_paths = {True: 0, False: 0}
    for o in outs:
        if o.result == 'raise':
            rep.violation(R['complete'], w(o), key0 + ':raises', 'combinator has a path that raises')
            continue
        u = sc.unification_of(o.conds, params)
        if u is not None:
            uni_used = u
        if o.result is None:
            if u is not None and u[3] is False:
                continue        # unification failure: licensed None
            if u is not None and u[3] is True:
                # only the N/NP restriction may refuse after a successful match
                spec_restrict = _restriction_on_path(o.conds, u)
                if spec_restrict:
                    restrict_seen = spec_restrict
                    continue
                rep.violation(R['complete'], w(o), key0 + ':refuses',
                              'refuses although the premises matched: conditions %s' % [show(c)[:60] for c, _ in o.conds])
            continue
        n_results += 1
        res = o.result
        ops, opy = const_of(res['op_string']), const_of(res['op_symbol'])
        if ops is None or opy is None:
            rep.violation(R['labels'], w(o), key0 + ':label-constant', 'label/symbol are not string constants: %s / %s'
                          % (show(res['op_string']), show(res['op_symbol'])))
            continue
        label = ops if lang == 'en' else opy
        labels.add((ops, opy))
        head = const_of(res['head_is_left'])
        sig = (label, show(res['cat']), tuple(show(c) for c, _ in o.conds))
        if sig in seen:
            continue
        seen.add(sig)
        rep.check(head is HEAD[lang], R['labels'], w(o), key0 + ':head',
                  '%s: the head is the %s child (head_is_left=%s)' % (name, 'left' if HEAD[lang] else 'right', head),
                  '%s: head_is_left is %s' % (name, show(res['head_is_left'])))
        spec = SCHEMAS[lang].get(label)
        if u is None or spec is None:
            check_nonschema(lang, mod, name, o, label, ops, opy, spec, params, rep, R, w(o), key0)
            continue
        uni, px, py, _ = u
        other_label = spec.get('symbol') if lang == 'en' else spec.get('string')
        rep.check((opy if lang == 'en' else ops) == other_label, R['labels'], w(o), key0 + ':label-pair',
                  '%s: label pair (%s, %s) is the pair of %s' % (name, ops, opy, spec['name']),
                  '%s: label pair is (%s, %s), the schema %s is spelled (%s)' % (name, ops, opy, spec['name'], other_label))
        try:
            PX, PY = sc.parse_pattern(px), sc.parse_pattern(py)
        except AnalysisError as e:
            rep.violation(R['schema'], w(o), key0 + ':pattern', str(e))
            continue
        principal_in, secondary_in = (X, Y) if spec['dir'] == '>' else (Y, X)
        P, S = (PX, PY) if spec['dir'] == '>' else (PY, PX)
        want_slash = '/' if spec['dir'] == '>' else '\\'
        okP = (P[0] == 'fn' and P[1][0] == 'var' and P[3][0] == 'var' and P[1] != P[3] and P[2] == want_slash)
        rep.check(okP, R['schema'], w(o), key0 + ':principal-pattern',
                  '%s (%s): the principal functor is %s with pattern %s' % (name, label, principal_in, sc.show_pat(P)),
                  '%s is labelled %s (%s) but matches its %s input against %s; the schema needs result%sargument'
                  % (name, label, spec['name'], 'first' if principal_in == X else 'second', sc.show_pat(P), want_slash))
        if not okP:
            continue
        a, b = P[1][1], P[3][1]
        n = sc.depth_along_left(S, b)
        okS = n == spec['n']
        if okS:
            # carried arguments are distinct fresh variables; inner slash literal as the schema says; outer wildcards
            q, level, vars_seen = S, n, {a, b}
            while q[0] == 'fn':
                arg = q[3]
                if arg[0] != 'var' or arg[1] in vars_seen:
                    okS = False
                else:
                    vars_seen.add(arg[1])
                want = spec['inner'] if level == 1 else '|'
                if q[2] != want:
                    okS = False
                q = q[1]
                level -= 1
        rep.check(okS, R['schema'], w(o), key0 + ':secondary-pattern',
                  '%s (%s): the secondary functor %s has pattern %s (degree %d%s)' % (name, label, secondary_in, sc.show_pat(S), spec['n'],
                                                                                   ', inner slash %s' % spec['inner'] if spec['inner'] else ''),
                  '%s (%s = %s): secondary pattern %s does not have the shape of degree %d with inner slash %s over %s'
                  % (name, label, spec['name'], sc.show_pat(S), spec['n'], spec['inner'], b))
        if not okS:
            continue
        expected = sc.expected_composition(S, secondary_in, a, b)
        got = sc.absval(res['cat'], uni, params)
        mods = [(c, pol) for c, pol in o.conds if c[0] == 'call' and c[1] == N('_is_modifier')]
        if len(mods) != 1 or mods[0][0][2] != (N(principal_in),):
            rep.violation(R['modifier'], w(o), key0 + ':modifier-test',
                          '%s: the result is not decided by _is_modifier(%s) (modifier tests on this path: %s)'
                          % (name, principal_in, [show(c) for c, _ in mods]))
            continue
        if mods[0][1]:
            modifier_paths[True] += 1
            rep.check(got == ('in', secondary_in), R['modifier'], w(o), key0 + ':modifier-result',
                      '%s: when %s is a modifier (X|X) the other category %s is returned unchanged' % (name, principal_in, secondary_in),
                      '%s: modifier shortcut returns %s instead of the other input %s' % (name, sc.show_pat(got), secondary_in))
        else:
            modifier_paths[False] += 1
            ok = sc.trees_equal_paths(got, expected, secondary_in)
            rep.check(ok, R['schema'], w(o), key0 + ':result',
                      '%s (%s): %s  %s  =>  %s' % (name, label, sc.show_pat(PX), sc.show_pat(PY), sc.show_pat(got)),
                      '%s (%s = %s): builds %s from (%s, %s); the schema gives %s'
                      % (name, label, spec['name'], sc.show_pat(got), sc.show_pat(PX), sc.show_pat(PY), sc.show_pat(expected)))
        if spec.get('restrict'):
            ok = restrict_seen == b or _restriction_declared(outs, params, b)
            rep.check(ok, R['restrict'], w(o), key0 + ':N-NP-restriction',
                      '%s: refuses to compose over a bare N or NP (the cancelled category %s)' % (name, b),
                      '%s is backward crossed composition but has no refusal when the cancelled category %s is N or NP' % (name, b))
            # ... and on every path that does build a result (the modifier shortcut included) N and NP have been ruled out
            ruled_out = _restriction_on_path(o.conds, u, polarity=False)
            rep.check(ruled_out == b, R['restrict'], w(o), key0 + ':N-NP-restriction:' + ('modifier' if mods[0][1] else 'general'),
                      '%s: this result is built only after the cancelled category %s was found not to be N or NP' % (name, b),
                      '%s: a result (%s path) is built without having ruled out N / NP as the cancelled category %s'
                      % (name, 'modifier shortcut' if mods[0][1] else 'general', b))
    if uni_used is not None and SCHEMAS[lang].get(next(iter(labels))[0 if lang == 'en' else 1] if labels else None):
        rep.check(modifier_paths[True] >= 1 and modifier_paths[False] >= 1, R['modifier'],
                  '%s:%s %s' % (mod.rel, fn.lineno, name), key0 + ':modifier-both',
                  '%s has both the modifier shortcut and the general result' % name,
                  '%s lacks the modifier shortcut or the general result (%s)' % (name, modifier_paths))
    if n_results == 0:
        rep.violation(R['complete'], '%s:%s %s' % (mod.rel, fn.lineno, name), key0 + ':no-result', '%s never produces a result' % name)
    if lang == 'en' and uni_used is None and n_results:
        check_nonschema_decision(mod, name, fn, outs, params, rep, R, key0)
    return labels


def _expand_membership(t):
    """`v in (a, b)` over a display of constants -> `v == a or v == b` (so that a membership test and the comparisons it
    abbreviates are one decision)"""
    if not isinstance(t, tuple):
        return t
    if t and t[0] == 'cmp' and t[1] in ('in', 'not in') and t[3][0] in ('tuple', 'list', 'set') and t[3][1] \
            and all(x[0] == 'const' for x in t[3][1]):
        alts = tuple(('cmp', '==', _expand_membership(t[2]), x) for x in t[3][1])
        d = alts[0] if len(alts) == 1 else ('bool', 'or', alts)
        return d if t[1] == 'in' else ('unop', 'not', d)
    return tuple(_expand_membership(x) for x in t)


def _en_decision_spec(label, symbol, got, X, Y):
    """the premises of the English rules that are not unification schemas, as the reference grammar (CCGbank conventions)
    states them: when exactly the rule yields its result.  -> (formula, text) or None"""
    P = lambda v: ('atom', ('truthy', ('call', N('_is_punct'), (N(v),), ())))
    TR = lambda v: ('atom', ('truthy', ('call', N('_is_type_raised'), (N(v),), ())))
    eq = lambda v, c: logic.formula(('cmp', '==', N(v), C(c)))
    oneof = lambda v, cs: ('or', tuple(eq(v, c) for c in cs))
    xor = lambda v, c: ('atom', ('truthy', ('binop', '^', N(v), C(c))))
    y_over_y = got[0] == 'fn' and got[1] == ('in', Y) and got[3] == ('in', Y)
    if label == 'conj' and y_over_y:
        return ('and', (logic.neg(P(Y)), logic.neg(TR(Y)), oneof(X, (',', ';', 'conj')), logic.neg(xor(Y, 'NP\\NP')))), \
            'left is , ; or conj, right is neither punctuation nor type-raised nor NP\\NP-like'
    if label == 'conj' and got == ('in', Y):
        return ('and', (eq(X, 'conj'), eq(Y, 'NP\\NP'))), 'conj NP\\NP'
    if label == 'lp' and symbol == '<lp>' and got == ('in', Y):
        return P(X), 'the left input is punctuation'
    if label == 'rp' and symbol == '<rp>' and got == ('in', X):
        return P(Y), 'the right input is punctuation'
    if label == 'lp' and symbol == '<lp>' and y_over_y:
        return oneof(X, ('LQU', 'LRB')), 'the left input is an opening quote / bracket'
    if label == 'lp' and symbol == '<*>' and got == ('litcat', '(S\\NP)\\(S\\NP)'):
        return ('and', (eq(X, ','), oneof(Y, ('S[ng]\\NP', 'S[pss]\\NP')))), 'comma + S[ng]\\NP or S[pss]\\NP'
    if label == 'lp' and symbol == '<*>' and got == ('litcat', '(S\\NP)/(S\\NP)'):
        return ('and', (eq(X, ','), eq(Y, 'S[dcl]/S[dcl]'))), 'comma + S[dcl]/S[dcl]'
    return None


def check_nonschema_decision(mod, name, fn, outs, params, rep, R, key0):
    """a non-schema rule yields its result exactly when its premises hold: judged as a decision function over the
    elementary tests of the rule, not by the spelling of its condition."""
    X, Y = params
    kinds = {}
    for o in outs:
        if o.result not in (None, 'raise'):
            ops, opy = const_of(o.result['op_string']), const_of(o.result['op_symbol'])
            kinds[(ops, opy, sc.absval(o.result['cat'], None, params))] = o
    if len(kinds) != 1:
        return
    (label, symbol, got), o0 = next(iter(kinds.items()))
    spec = _en_decision_spec(label, symbol, got, X, Y)
    if spec is None:
        return
    f, text = spec
    w = '%s:%s %s' % (mod.rel, fn.lineno, name)
    path_vals = []
    for o in outs:
        if o.result == 'raise':
            continue
        conds = [(_expand_membership(c), pol) for c, pol in o.conds]
        path_vals.append((conds, ('const', o.result is not None)))
    # `category ^ "text"` is False whenever both __xor__ begin by sending a non-category operand away: a premise spelt
    # that way is vacuous, so a rule with or without the (dead) test decides the same
    constraint = None
    repo_ = getattr(mod, 'repo', None)
    if repo_ is not None:
        try:
            cm_ = repo_.module('depccg/cat.py')
            dead = True
            for cname in ('Atom', 'Functor'):
                fx = cm_.get(cname + '.__xor__', required=False)
                body_ = [x for x in (fx.body if fx is not None else []) if not (isinstance(x, ast.Expr) and isinstance(x.value, ast.Constant))]
                first = body_[0] if body_ else None
                o_ = fx.args.args[1].arg if fx is not None and len(fx.args.args) > 1 else None
                dead = dead and isinstance(first, ast.If) and src(first.test).replace(' ', '') == 'notisinstance(%s,%s)' % (o_, cname) and \
                    len(first.body) == 1 and isinstance(first.body[0], ast.Return) and isinstance(first.body[0].value, ast.Constant) and first.body[0].value.value is False
            if dead:
                xor_atoms = [a_ for a_ in logic.atoms_of(f) if a_[0] == 'truthy' and a_[1][0] == 'binop' and a_[1][1] == '^' and a_[1][3][0] == 'const' and isinstance(a_[1][3][1], str)]
                if xor_atoms:
                    constraint = lambda sigma, xs=tuple(xor_atoms): not any(sigma.get(x_, False) for x_ in xs)
        except AnalysisError:
            constraint = None
    try:
        ok, bad, atoms = logic.equivalent(path_vals, f, constraint)
    except ValueError as e:
        raise AnalysisError('%s: decision of %s has %s' % (mod.rel, name, e))
    detail = ''
    if bad:
        s2, results, want = bad[0]
        detail = 'e.g. when %s the rule %s, the schema %s' % (
            logic.show_sigma(s2, show), 'yields its result' if True in results else 'yields nothing', 'applies' if want else 'does not apply')
    rep.check(ok, R['nonschema'], w, key0 + ':decision',
              '%s (%s %s) yields its result exactly when %s (%d elementary tests)' % (name, label, symbol, text, len(atoms)),
              '%s (%s %s) does not yield its result exactly when %s: %s' % (name, label, symbol, text, detail))


def _restriction_on_path(conds, u, polarity=True):
    """name of the meta variable tested against exactly {'N','NP'} (with the given polarity) on this path, else None.
    With polarity False the exclusion may also be spread over several tests (b != 'N' and b != 'NP')."""
    uni = u[0]

    def scan(t, vars_, consts):
        if not isinstance(t, tuple) or not t:
            return
        if t == uni:
            return
        if t[0] == 'sub' and t[1] == uni and t[2][0] == 'const':
            vars_.add(t[2][1])
            return
        if t[0] == 'const':
            if isinstance(t[1], str):
                consts.add(t[1])
            return
        for x in t[1:]:
            if isinstance(x, tuple):
                if x and isinstance(x[0], str):
                    scan(x, vars_, consts)
                else:
                    for y in x:
                        scan(y, vars_, consts)

    spread = {}
    for a, pol in true_atoms(conds):
        if pol != polarity:
            continue
        if a[0] == 'cmp' and a[1] in ('in', 'not in') and a[3][0] in ('set', 'dict', 'setcomp') and not (a[2][0] == 'call' and a[2][1] == ('name', 'str')):
            # a category looked up in a *set* of texts: sets find their members by hash, and a category does not hash like its text
            # (== falls back to the text, the generated hash does not) -- the test never succeeds and restricts nothing
            continue
        vars_, consts = set(), set()
        scan(a, vars_, consts)
        if consts == {'N', 'NP'} and len(vars_) == 1:
            return next(iter(vars_))
        if not polarity and len(vars_) == 1 and consts and consts <= {'N', 'NP'}:
            v = next(iter(vars_))
            spread.setdefault(v, set()).update(consts)
            if spread[v] == {'N', 'NP'}:
                return v
    return None


def _restriction_declared(outs, params, b):
    for o in outs:
        if o.result is None:
            u = sc.unification_of(o.conds, params)
            if u is not None and u[3] and _restriction_on_path(o.conds, u) == b:
                return True
    return False


def check_nonschema(lang, mod, name, o, label, ops, opy, spec, params, rep, R, w, key0):
    """conjunction / punctuation / type-changing / sentence sequencing, and literal-pinned special cases."""
    X, Y = params
    res = o.result
    got = sc.absval(res['cat'], None, params)
    px, py = pinned(o.conds, X), pinned(o.conds, Y)
    if spec is not None:
        # a schema label used without unification: only the literal-pinned exception shape is allowed
        ok = px is not None and py is not None and got[0] == 'in'
        rep.check(ok, R['nonschema'], w, key0 + ':pinned-exception',
                  '%s: special case pinned to literal inputs %s %s returns an input unchanged' % (name, px, py),
                  '%s: produces label %s without matching the schema patterns (inputs pinned: %s, %s; result %s)'
                  % (name, label, px, py, sc.show_pat(got)))
        return
    allowed = NONSCHEMA[lang].get(label)
    if allowed is None:
        rep.violation(R['labels'], w, key0 + ':unknown-label', '%s produces the label (%s, %s) which names no schema of the %s grammar'
                      % (name, ops, opy, lang))
        return
    other = opy if lang == 'en' else ops
    rep.check(other in allowed, R['labels'], w, key0 + ':label-pair', '%s: label pair (%s, %s)' % (name, ops, opy),
              '%s: label pair (%s, %s) is not in the vocabulary %s' % (name, ops, opy, sorted(allowed)))
    if got[0] == 'in':
        ok, why = True, 'returns the input %s unchanged' % got[1]
    elif got[0] == 'fn' and got[1][0] == 'in' and got[3] == got[1] and got[2] == ('lit', '\\'):
        ok, why = True, 'returns %s\\%s built from the input' % (got[1][1], got[1][1])
    elif got[0] == 'litcat':
        ok = '[' not in got[1] and px is not None and py is not None
        why = 'returns the feature-free literal %s for inputs pinned to %s %s' % (got[1], px, py)
        if ok:
            try:
                sc.parse_pattern(got[1])
            except AnalysisError:
                ok = False
    else:
        ok, why = False, 'returns %s' % sc.show_pat(got)
    rep.check(ok, R['nonschema'], w, key0 + ':result:' + label + ':' + sc.show_pat(got),
              '%s (%s): %s -- features in the result come only from the inputs' % (name, label, why),
              '%s (%s): %s, which is neither an input, Y\\Y of an input, nor a feature-free literal under literal-pinned inputs' % (name, label, why))
    # guards specific to the labels
    atoms = true_atoms(o.conds)
    if lang == 'en' and label == 'conj':
        ok = pinned(o.conds, X) is not None and set(pinned(o.conds, X)) <= {',', ';', 'conj'}
        rep.check(ok, R['nonschema'], w, key0 + ':conj-guard', '%s: conjunction requires the left input to be a conjunction/comma/semicolon' % name,
                  '%s: conjunction does not pin the left input to , ; conj' % name)
    if lang == 'en' and label in ('lp', 'rp') and got[0] == 'in':
        punct_side = X if got[1] == Y else Y
        ok = (('call', N('_is_punct'), (N(punct_side),), ()), True) in atoms
        rep.check(ok, R['nonschema'], w, key0 + ':punct-guard', '%s: the absorbed input %s is punctuation' % (name, punct_side),
                  '%s: absorbs %s without testing that it is punctuation' % (name, punct_side))
    if lang == 'en' and label == 'lp' and got[0] == 'fn':
        ok = pinned(o.conds, X) is not None and set(pinned(o.conds, X)) <= {'LQU', 'LRB'}
        rep.check(ok, R['nonschema'], w, key0 + ':bracket-guard', '%s: Y\\Y is produced only for an opening quote/bracket on the left' % name,
                  '%s: produces Y\\Y without pinning the left input to LQU/LRB' % name)
    if lang == 'ja' and label == 'SSEQ':
        # the list by its name, or (when the walker resolved the module constant) by its entries
        tables = {a[3] for a, pol_ in atoms if pol_ and a[0] == 'cmp' and a[1] == 'in' and a[2] in (N(X), N(Y))}
        def is_roots(t_):
            # the list by name / by its entries, or a set made of exactly that list (frozenset(_possible_root_categories),
            # possibly bound to a module-level name of its own)
            if t_ == N('_possible_root_categories') or (
                    t_[0] in ('list', 'tuple') and t_[1] and all(e_[0] == 'call' and e_[1] == A(N('Category'), 'parse') for e_ in t_[1])):
                return True
            if t_[0] == 'call' and t_[1] in (N('frozenset'), N('set'), N('tuple'), N('list')) and len(t_[2]) == 1 and not t_[3]:
                return is_roots(t_[2][0])
            if t_[0] == 'name':
                try:
                    v_ = mod.assign(t_[1], required=False)
                except Exception:
                    v_ = None
                if isinstance(v_, ast.Call) and isinstance(v_.func, ast.Name) and v_.func.id in ('frozenset', 'set', 'tuple', 'list') and len(v_.args) == 1 \
                        and isinstance(v_.args[0], ast.Name) and v_.args[0].id == '_possible_root_categories' and not v_.keywords:
                    return True
            return False
        ok = len(tables) == 1 and is_roots(next(iter(tables))) and \
            {a[2] for a, pol_ in atoms if pol_ and a[0] == 'cmp' and a[1] == 'in' and a[3] in tables} >= {N(X), N(Y)} and got == ('in', Y)
        rep.check(ok, R['nonschema'], w, key0 + ':sseq-guard', '%s: sentence sequencing joins two root categories and returns the right one' % name,
                  '%s: SSEQ is not guarded by membership of both inputs in the root-category list, or does not return the right input' % name)


def is_registry(t, reg=None):
    """does the term denote the module's `combinators` registry (by name, or as the list display it is bound to)?"""
    if t == N('combinators'):
        return True
    if t[0] in ('list', 'tuple') and t[1] and all(x[0] == 'name' for x in t[1]):
        return reg is None or [x[1] for x in t[1]] == list(reg)
    return False


def check_dispatch(lang, mod, rep, R):
    """registry complete; apply_binary_rules folds over it without filter."""
    reg = registry(mod)
    cands = [f.name for f in mod.functions() if has_combinator_signature(f)]
    missing = [c for c in cands if c not in reg]
    rep.check(not missing, R, '%s:1 <module>' % mod.rel, mod.rel + ':registry',
              'every function with the Combinator signature is registered in `combinators` (%d)' % len(reg),
              'combinators %s are defined but not registered' % missing)
    dup = [c for c in reg if reg.count(c) > 1]
    rep.check(not dup, R, '%s:1 <module>' % mod.rel, mod.rel + ':registry-unique', 'no combinator is registered twice', 'registered twice: %s' % sorted(set(dup)))
    fn = mod.get('apply_binary_rules')
    w = '%s:%s apply_binary_rules' % (mod.rel, fn.lineno)
    paths = SymExec(fn, unroll=1).run()
    ok_fold = False
    detail = 'no path returns a list built from `combinators`'
    bad = []
    for st, out in paths:
        if out != 'return' or st.ret is None:
            continue
        r = st.ret
        if r[0] in ('alloc',) or r == ('list', ()):
            continue                    # the closed gate (judged by C14)
        if not (r[0] == 'listcomp' and len(r[2]) == 1):
            bad.append('returns %s' % show(r)[:100])
            continue
        it, filt = r[2][0]
        elt = r[1]
        if not is_registry(it, reg):
            bad.append('iterates %s' % show(it)[:80])
            continue
        is_call = elt[0] == 'call' and elt[1][0] == 'elem' and elt[1][1] == it
        if is_call:
            # what the combinators are applied to: the two inputs themselves (ja) / the inputs with only `nb` erased (en)
            px, py = [a.arg for a in fn.args.args][:2]
            if lang == 'en':
                want_args = tuple(('call', A(N(v), 'clear_features'), (C('nb'),), ()) for v in (px, py))
            else:
                want_args = (N(px), N(py))
            if elt[2] != want_args or elt[3]:
                bad.append('applies the combinators to (%s) instead of (%s)' % (', '.join(show(a)[:50] for a in elt[2]), ', '.join(show(a) for a in want_args)))
        keep = [logic.formula(c) for c in filt]
        want = logic.neg(('atom', ('isnone', elt)))
        if is_call and keep == [want]:
            ok_fold = True
        else:
            bad.append('keeps %s when %s' % (show(elt)[:60], [show(c)[:80] for c in filt]))
    if bad:
        detail = '; '.join(sorted(set(bad)))
    rep.check(ok_fold and not bad, R, w, mod.rel + ':apply_binary_rules:fold',
              'apply_binary_rules tries every registered combinator and keeps every non-None result, in registry order',
              'apply_binary_rules is not a filter-free fold over `combinators` (%s)' % detail)
    return reg


def _parents(n):
    from .core import parents
    return parents(n)
