"""Helper objects read as what they hold.

A small class whose instances are created at one place of a function, used
only through their attributes and methods, and never subclassed is a way of
*grouping* locals and closures: `t = Table(cats)` ... `t.ids[c]` ...
`t.add(c)` does what `ids = {...}` ... `ids[c]` ... `def add(c): ...` does.
The rules talk about the latter form, so this pass rewrites the former into
it on the syntax tree, before any rule looks:

    v = K(a, b)          ->   v__x = <init expr>  (one per `self.x = ...` of K.__init__, parameters replaced by a, b)
                              def v__m(p): ...    (one per method, `self.x` -> v__x, `self.m2` -> v__m2)
    v.x / v.m            ->   v__x / v__m
    v (the object itself, e.g. handed to C code as user data)
                         ->   {'x': v__x, ...}    (a record of its fields)

and, in the functions that receive such a record, `o.x` reads as `o['x']`.
Fields that merely hold a parameter of the creating function are replaced by
that parameter.  Anything the pass does not fully understand (inheritance,
decorators, stores to fields from methods, `self` escaping, instance created
twice, ...) is left exactly as written -- the rules then either cope or report
an ANALYSIS-ERROR; the pass never guesses.
"""
import ast
import copy

FUNCS = (ast.FunctionDef, ast.AsyncFunctionDef)


def _clone(node):
    """structural copy of a syntax tree: fields and positions only (no parent links, no analysis annotations)"""
    if isinstance(node, list):
        return [_clone(x) for x in node]
    if not isinstance(node, ast.AST):
        return node
    new = type(node)()
    for f in node._fields:
        if hasattr(node, f):
            setattr(new, f, _clone(getattr(node, f)))
    for a in ('lineno', 'col_offset', 'end_lineno', 'end_col_offset'):
        if hasattr(node, a):
            setattr(new, a, getattr(node, a))
    return new


def _is_cdecl(s):
    return isinstance(s, ast.Assign) and isinstance(s.value, ast.Call) and isinstance(s.value.func, ast.Name) \
        and s.value.func.id == '__cdecl__'


def _is_doc(s):
    return isinstance(s, ast.Expr) and isinstance(s.value, ast.Constant) and isinstance(s.value.value, str)


class _Class(object):
    """what a simple class consists of, or .ok = False"""

    def __init__(self, cls):
        self.cls = cls
        self.ok = False
        self.init = None
        self.methods = {}
        self.fields = []
        self.stored = {}          # method name -> fields it assigns
        self.static = set()       # names of @staticmethod members
        if cls.decorator_list or cls.keywords:
            return
        if any(not (isinstance(b, ast.Name) and b.id == 'object') for b in cls.bases):
            return
        for s in cls.body:
            if _is_doc(s) or isinstance(s, ast.Pass):
                continue
            if _is_cdecl(s):
                for t in s.targets:
                    if isinstance(t, ast.Name) and t.id not in self.fields:
                        self.fields.append(t.id)
                continue
            if isinstance(s, ast.FunctionDef) and len(s.decorator_list) == 1 and isinstance(s.decorator_list[0], ast.Name) \
                    and s.decorator_list[0].id == 'staticmethod' and not s.args.vararg and not s.args.kwarg \
                    and not s.name.startswith('__'):
                self.methods[s.name] = s
                self.static.add(s.name)
                continue
            if isinstance(s, ast.FunctionDef) and not s.decorator_list and s.args.args and not s.args.vararg \
                    and not s.args.kwarg and not s.args.kwonlyargs and not getattr(s.args, 'posonlyargs', None):
                if s.name == '__init__':
                    self.init = s
                elif s.name.startswith('__') and s.name.endswith('__'):
                    return
                else:
                    self.methods[s.name] = s
                continue
            return
        if self.init is None:
            return
        me = self.init.args.args[0].arg
        # __init__: straight-line stores to fields, no return, no method calls on self
        for s in self.init.body:
            if _is_doc(s) or isinstance(s, ast.Pass):
                continue
            if not isinstance(s, (ast.Assign, ast.AnnAssign, ast.Expr, ast.AugAssign, ast.If, ast.Raise, ast.Assert)):
                return
            for n in ast.walk(s):
                if isinstance(n, (ast.Return, ast.Yield, ast.YieldFrom) + FUNCS + (ast.Lambda,)):
                    return
        for n in ast.walk(self.init):
            if isinstance(n, ast.Name) and n.id == me:
                p = getattr(n, '_ofparent', None)
                if not (isinstance(p, ast.Attribute) and p.value is n):
                    return
                if p.attr in self.methods and p.attr not in self.static:
                    return
                if isinstance(p.ctx, ast.Store) and p.attr not in self.fields:
                    self.fields.append(p.attr)
        if set(self.fields) & set(self.methods):
            return
        # methods: self only as self.field (load) / self.method
        for m in self.methods.values():
            if m.name in self.static:
                continue
            me_m = m.args.args[0].arg
            for n in ast.walk(m):
                if isinstance(n, FUNCS + (ast.Lambda,)) and n is not m:
                    if any(a.arg == me_m for a in n.args.args):
                        return
                if isinstance(n, ast.Name) and n.id == me_m:
                    p = getattr(n, '_ofparent', None)
                    if not (isinstance(p, ast.Attribute) and p.value is n):
                        return
                    if p.attr not in self.fields and p.attr not in self.methods:
                        return
                    if not isinstance(p.ctx, ast.Load):
                        # a store: plain assignment / augmented assignment to a field, directly in the method
                        pp = getattr(p, '_ofparent', None)
                        if p.attr not in self.fields or not isinstance(pp, (ast.Assign, ast.AugAssign)) or isinstance(p.ctx, ast.Del):
                            return
                        q = pp
                        while q is not None and q is not m:
                            if isinstance(q, FUNCS + (ast.Lambda,)):
                                return
                            q = getattr(q, '_ofparent', None)
                        self.stored.setdefault(m.name, set()).add(p.attr)
        self.ok = True


def _link(tree):
    for n in ast.walk(tree):
        for c in ast.iter_child_nodes(n):
            c._ofparent = n


def _own_statements(fn):
    """(list, index, stmt) for every statement of fn's own body, at any depth, not entering nested defs/classes"""
    out = []

    def rec(body):
        for i, s in enumerate(body):
            out.append((body, i, s))
            if isinstance(s, FUNCS + (ast.ClassDef,)):
                continue
            for f in ('body', 'orelse', 'finalbody'):
                b = getattr(s, f, None)
                if isinstance(b, list):
                    rec(b)
            for h in getattr(s, 'handlers', []) or []:
                rec(h.body)
    rec(fn.body)
    return out


def _stores_in(fn, name):
    """statements / constructs of fn (nested functions included) that bind `name`"""
    out = []
    for n in ast.walk(fn):
        if isinstance(n, ast.Name) and n.id == name and isinstance(n.ctx, (ast.Store, ast.Del)):
            out.append(n)
        if isinstance(n, ast.arg) and n.arg == name:
            out.append(n)
        if isinstance(n, (ast.Global, ast.Nonlocal)) and name in n.names:
            out.append(n)
    return out


class _Subst(ast.NodeTransformer):
    def __init__(self, names=None, attrs=None, stores=False):
        self.names = names or {}      # Name id -> replacement expression (copied)
        self.attrs = attrs or {}      # (Name id, attr) -> replacement expression
        self.stores = stores          # also rename names that are assigned (replacement must be a Name)

    def visit_Attribute(self, node):
        if isinstance(node.value, ast.Name) and (node.value.id, node.attr) in self.attrs:
            new = _clone(self.attrs[(node.value.id, node.attr)])
            if isinstance(new, ast.Name):
                new.ctx = node.ctx
            return ast.copy_location(new, node)
        self.generic_visit(node)
        return node

    def visit_Name(self, node):
        if node.id in self.names and isinstance(node.ctx, ast.Load):
            return ast.copy_location(_clone(self.names[node.id]), node)
        if self.stores and node.id in self.names and isinstance(self.names[node.id], ast.Name):
            new = _clone(self.names[node.id])
            new.ctx = node.ctx
            return ast.copy_location(new, node)
        return node


def _name(i, ctx=None):
    return ast.Name(id=i, ctx=ctx or ast.Load())


def _try_site(fn, body, idx, stmt, info, module_names):
    """rewrite `v = K(...)` at body[idx] of fn; -> (field names if the object itself escapes, else []) or None"""
    v = stmt.targets[0].id
    call = stmt.value
    if any(isinstance(a, ast.Starred) for a in call.args) or any(k.arg is None for k in call.keywords):
        return None
    # v bound exactly here (besides a bare declaration)
    for n in _stores_in(fn, v):
        if n is stmt.targets[0]:
            continue
        p = getattr(n, '_ofparent', None)
        if isinstance(n, ast.Name) and _is_cdecl(p):
            continue
        return None
    init = info.init
    params = [a.arg for a in init.args.args[1:]]
    bound = {}
    if len(call.args) > len(params):
        return None
    for p, a in zip(params, call.args):
        bound[p] = a
    for k in call.keywords:
        if k.arg not in params or k.arg in bound:
            return None
        bound[k.arg] = k.value
    dflt = init.args.defaults
    for p, d in zip(params[len(params) - len(dflt):], dflt):
        bound.setdefault(p, d)
    if set(bound) != set(params):
        return None
    # uses of v
    escapes = False
    for n in ast.walk(fn):
        if not (isinstance(n, ast.Name) and n.id == v) or n is stmt.targets[0]:
            continue
        p = getattr(n, '_ofparent', None)
        if _is_cdecl(p):
            continue
        if isinstance(p, ast.Attribute) and p.value is n:
            if p.attr in info.methods:
                if not isinstance(p.ctx, ast.Load):
                    return None
            elif p.attr in info.fields:
                if not isinstance(p.ctx, ast.Load):
                    return None
            else:
                return None
        elif isinstance(n.ctx, ast.Load):
            escapes = True
        else:
            return None
    fname = lambda x: '%s__%s' % (v, x)
    taken = set(module_names) | {n.id for n in ast.walk(fn) if isinstance(n, ast.Name)} | {a.arg for n in ast.walk(fn) if isinstance(n, ast.arguments) for a in n.args}
    if any(fname(x) in taken for x in list(info.fields) + list(info.methods) + ['arg_' + p for p in params]):
        return None
    fn_params = {a.arg for a in fn.args.args + fn.args.kwonlyargs}
    never_rebound = lambda nm: nm in fn_params and len(_stores_in(fn, nm)) == 1
    me = init.args.args[0].arg
    new = []
    seq = [0]

    def place(s):
        for n in ast.walk(s):
            if hasattr(n, 'lineno'):
                n.lineno = stmt.lineno
                n.end_lineno = stmt.lineno
        seq[0] += 1
        s._alloc_tag = '%s.%d' % (v, seq[0])
        return s
    # parameters of __init__
    pnames = {}
    init_stores = {n.id for n in ast.walk(init) if isinstance(n, ast.Name) and isinstance(n.ctx, ast.Store)}
    for p in params:
        a = bound[p]
        if isinstance(a, (ast.Name, ast.Constant)) and p not in init_stores and not (isinstance(a, ast.Name) and a.id == v):
            pnames[p] = a
        else:
            new.append(place(ast.Assign(targets=[_name(fname('arg_' + p), ast.Store())], value=_clone(a), lineno=stmt.lineno, col_offset=0)))
            pnames[p] = _name(fname('arg_' + p))
            if p in init_stores:
                return None
    # fields that merely hold a never-rebound parameter of the creating function
    single = {}
    for s in init.body:
        if isinstance(s, ast.Assign) and len(s.targets) == 1 and isinstance(s.targets[0], ast.Attribute) \
                and isinstance(s.targets[0].value, ast.Name) and s.targets[0].value.id == me:
            single.setdefault(s.targets[0].attr, []).append(s)
    n_stores = {}
    for n in ast.walk(init):
        if isinstance(n, ast.Attribute) and isinstance(n.value, ast.Name) and n.value.id == me and isinstance(n.ctx, ast.Store):
            n_stores[n.attr] = n_stores.get(n.attr, 0) + 1
    alias = {}
    for f, ss in single.items():
        if any(f in fs for fs in info.stored.values()):
            continue
        if len(ss) == 1 and n_stores.get(f) == 1 and isinstance(ss[0].value, ast.Name) and ss[0].value.id in pnames:
            a = pnames[ss[0].value.id]
            if isinstance(a, ast.Name) and never_rebound(a.id):
                alias[f] = a
    field_expr = lambda f: alias[f] if f in alias else _name(fname(f))
    attrs_self = lambda me_: dict([((me_, f), field_expr(f)) for f in info.fields] + [((me_, m), _name(fname(m))) for m in info.methods])
    # locals of __init__ get names of their own
    init_locals = sorted(init_stores - set(params))
    if any(fname('local_' + x) in taken for x in init_locals):
        return None
    pnames = dict(pnames)
    for x in init_locals:
        pnames[x] = _name(fname('local_' + x))
    # __init__ body
    at0 = attrs_self(me)
    at0.update({(info.cls.name, x): _name(fname(x)) for x in info.static})
    sub = _Subst(names=pnames, attrs=at0, stores=True)
    for s in init.body:
        if _is_doc(s) or isinstance(s, ast.Pass):
            continue
        if isinstance(s, ast.Assign) and len(s.targets) == 1 and isinstance(s.targets[0], ast.Attribute) \
                and isinstance(s.targets[0].value, ast.Name) and s.targets[0].value.id == me and s.targets[0].attr in alias:
            continue
        s2 = sub.visit(_clone(s))
        new.append(place(s2))
    # methods (static ones first: __init__ may use them)
    init_part, new = new, []
    for mname, m in sorted(info.methods.items(), key=lambda kv: kv[0] not in info.static):
        if mname not in info.static and init_part is not None:
            new, init_part = new + init_part, None
        m2 = _clone(m)
        m2.name = fname(mname)
        m2.decorator_list = []
        if mname in info.static:
            # K.m(..) inside the class reads v__m(..) as well
            subm = _Subst(attrs={(info.cls.name, x): _name(fname(x)) for x in info.methods})
        else:
            me_m = m2.args.args[0].arg
            m2.args.args = m2.args.args[1:]
            at_ = attrs_self(me_m)
            at_.update({(info.cls.name, x): _name(fname(x)) for x in info.static})
            subm = _Subst(attrs=at_)
        m2.body = [subm.visit(s) for s in m2.body]
        if info.stored.get(mname):
            decl = ast.Nonlocal(names=sorted(fname(f) for f in info.stored[mname]))
            at = 1 if m2.body and _is_doc(m2.body[0]) else 0
            m2.body.insert(at, ast.copy_location(decl, m2.body[0]))
        m2._flattened_from = (info.cls.name, mname)
        new.append(m2)
    if init_part is not None:
        new = new + init_part
    body[idx:idx + 1] = new
    # uses
    rec = ast.Dict(keys=[ast.Constant(value=f) for f in info.fields], values=[_clone(field_expr(f)) for f in info.fields])
    sub_use = _Subst(names={v: rec} if escapes else {}, attrs=attrs_self(v))
    for i, s in enumerate(list(fn.body)):
        fn.body[i] = sub_use.visit(s)
    ast.fix_missing_locations(fn)
    return list(info.fields) if escapes else []


def _records_in(fn, field_sets):
    """in a function that receives an escaped object: o.x -> o['x'] when every use of o is such a read"""
    params = {a.arg for a in fn.args.args}
    cands = set(params)
    for body, i, s in _own_statements(fn):
        if isinstance(s, ast.Assign) and len(s.targets) == 1 and isinstance(s.targets[0], ast.Name) \
                and isinstance(s.value, ast.Name) and s.value.id in params:
            cands.add(s.targets[0].id)
    done = 0
    for o in sorted(cands):
        attrs = set()
        ok = True
        for n in ast.walk(fn):
            if isinstance(n, ast.Name) and n.id == o:
                p = getattr(n, '_ofparent', None)
                if isinstance(p, ast.Attribute) and p.value is n and isinstance(p.ctx, ast.Load):
                    attrs.add(p.attr)
                elif isinstance(n.ctx, ast.Store) and isinstance(p, ast.Assign) and isinstance(p.value, ast.Name) and p.value.id in params:
                    pass
                elif isinstance(n.ctx, ast.Load) and o in params and isinstance(p, (ast.Assign, ast.Call)):
                    pass        # handed on / renamed
                else:
                    ok = False
        if not ok or not attrs or not any(attrs <= set(fs) for fs in field_sets):
            continue

        class R(ast.NodeTransformer):
            def visit_Attribute(self, node):
                if isinstance(node.value, ast.Name) and node.value.id == o:
                    return ast.copy_location(ast.Subscript(value=node.value, slice=ast.Constant(value=node.attr), ctx=node.ctx), node)
                self.generic_visit(node)
                return node
        for i, s in enumerate(list(fn.body)):
            fn.body[i] = R().visit(s)
        ast.fix_missing_locations(fn)
        done += 1
    return done


_PROTOCOL = {'__getitem__': '_item_at', '__len__': '_length', '__contains__': '_holds'}


def _protocol_methods_as_calls(tree):
    """obj[k] / len(obj) / x in obj on a local made by a small class of the module that defines __getitem__ / __len__ /
    __contains__ read as calls of ordinary methods (obj._item_at(k) ..), so that the class can be read as the locals it
    groups like any other; only for variables assigned exactly once from the class's constructor"""
    classes = {c.name: c for c in tree.body if isinstance(c, ast.ClassDef) and any(isinstance(m, ast.FunctionDef) and m.name in _PROTOCOL for m in c.body)}
    if not classes:
        return
    for cname, cls in classes.items():
        owners = []
        for fn in [n for n in ast.walk(tree) if isinstance(n, FUNCS) and not isinstance(getattr(n, '_ofparent', None), ast.ClassDef)]:
            for blk, i, st in _own_statements(fn):
                if isinstance(st, ast.Assign) and len(st.targets) == 1 and isinstance(st.targets[0], ast.Name) and isinstance(st.value, ast.Call) \
                        and isinstance(st.value.func, ast.Name) and st.value.func.id == cname and len(_stores_in(fn, st.targets[0].id)) == 1:
                    owners.append((fn, st.targets[0].id))
        if not owners:
            continue
        have = {m.name for m in cls.body if isinstance(m, ast.FunctionDef)}
        if any(_PROTOCOL[d] in have for d in _PROTOCOL if d in have):
            continue
        for fn, v in owners:
            class _R(ast.NodeTransformer):
                def visit_Subscript(self_, n):
                    self_.generic_visit(n)
                    if '__getitem__' in have and isinstance(n.ctx, ast.Load) and isinstance(n.value, ast.Name) and n.value.id == v:
                        return ast.copy_location(ast.Call(func=ast.Attribute(value=n.value, attr=_PROTOCOL['__getitem__'], ctx=ast.Load()), args=[n.slice], keywords=[]), n)
                    return n

                def visit_Call(self_, n):
                    self_.generic_visit(n)
                    if '__len__' in have and isinstance(n.func, ast.Name) and n.func.id == 'len' and len(n.args) == 1 and isinstance(n.args[0], ast.Name) and n.args[0].id == v:
                        return ast.copy_location(ast.Call(func=ast.Attribute(value=n.args[0], attr=_PROTOCOL['__len__'], ctx=ast.Load()), args=[], keywords=[]), n)
                    return n

                def visit_Compare(self_, n):
                    self_.generic_visit(n)
                    if '__contains__' in have and len(n.ops) == 1 and isinstance(n.ops[0], (ast.In, ast.NotIn)) and isinstance(n.comparators[0], ast.Name) and n.comparators[0].id == v:
                        c = ast.Call(func=ast.Attribute(value=n.comparators[0], attr=_PROTOCOL['__contains__'], ctx=ast.Load()), args=[n.left], keywords=[])
                        return ast.copy_location(c if isinstance(n.ops[0], ast.In) else ast.UnaryOp(op=ast.Not(), operand=c), n)
                    return n
            _R().visit(fn)
            ast.fix_missing_locations(fn)
        for m in cls.body:
            if isinstance(m, ast.FunctionDef) and m.name in _PROTOCOL:
                m.name = _PROTOCOL[m.name]
    _link(tree)


def flatten(tree):
    """rewrite in place; -> list of (class name, function name, variable) that were flattened"""
    done = []
    _link(tree)
    _protocol_methods_as_calls(tree)
    merge_dispatch(tree)
    _link(tree)
    field_sets = []
    for _round in range(8):
        _link(tree)
        classes = {}
        for c in tree.body:
            if isinstance(c, ast.ClassDef):
                k = _Class(c)
                if k.ok:
                    classes[c.name] = k
        if not classes:
            break
        subclassed = {b.id for c in ast.walk(tree) if isinstance(c, ast.ClassDef) for b in c.bases if isinstance(b, ast.Name)}
        module_names = {n.id for n in ast.walk(tree) if isinstance(n, ast.Name)} | {
            s.name for s in tree.body if isinstance(s, FUNCS + (ast.ClassDef,))}
        progress = False
        for fn in [n for n in ast.walk(tree) if isinstance(n, FUNCS)]:
            if isinstance(getattr(fn, '_ofparent', None), ast.ClassDef):
                continue
            sites = [(b, i, s) for b, i, s in _own_statements(fn)
                     if isinstance(s, ast.Assign) and len(s.targets) == 1 and isinstance(s.targets[0], ast.Name)
                     and isinstance(s.value, ast.Call) and isinstance(s.value.func, ast.Name) and s.value.func.id in classes
                     and s.value.func.id not in subclassed]
            if not sites:
                continue
            b, i, s = sites[0]
            # the same variable created twice, or the class name rebound locally: leave alone
            if len([x for x in sites if x[2].targets[0].id == s.targets[0].id]) > 1 or _stores_in(fn, s.value.func.id):
                continue
            r = _try_site(fn, b, i, s, classes[s.value.func.id], module_names)
            if r is None:
                continue
            done.append((s.value.func.id, fn.name, s.targets[0].id))
            if r:
                field_sets.append(r)
            progress = True
            break
        if not progress:
            break
    if field_sets:
        _link(tree)
        for fn in [n for n in ast.walk(tree) if isinstance(n, FUNCS)]:
            _link(fn)
            _records_in(fn, field_sets)
    return done


def inline_bases(tree, resolve_class):
    """class C(_Base) over a private base class of the package that has no base of its own reads as the one class it
    amounts to: the base's methods and class constants that C does not redefine are copied into C, and a
    `super().__init__(args)` statement of C.__init__ is replaced by the body of the base's __init__.
    resolve_class(name) -> ClassDef (this module or imported) or None."""
    done = []
    for cls in [c for c in tree.body if isinstance(c, ast.ClassDef)]:
        if len(cls.bases) != 1 or not isinstance(cls.bases[0], ast.Name) or not cls.bases[0].id.startswith('_') or cls.keywords or cls.decorator_list:
            continue
        base = resolve_class(cls.bases[0].id)
        if base is None or base is cls or base.keywords or base.decorator_list or any(not (isinstance(b, ast.Name) and b.id == 'object') for b in base.bases):
            continue
        own_defs = {s_.name for s_ in cls.body if isinstance(s_, ast.FunctionDef)}
        own_names = {t.id for s_ in cls.body if isinstance(s_, (ast.Assign, ast.AnnAssign)) for t in (s_.targets if isinstance(s_, ast.Assign) else [s_.target])
                     if isinstance(t, ast.Name)}
        b_init = next((s_ for s_ in base.body if isinstance(s_, ast.FunctionDef) and s_.name == '__init__'), None)
        c_init = next((s_ for s_ in cls.body if isinstance(s_, ast.FunctionDef) and s_.name == '__init__'), None)
        ok = True
        if c_init is not None and b_init is not None:
            sup = [(i, s_) for i, s_ in enumerate(c_init.body) if isinstance(s_, ast.Expr) and isinstance(s_.value, ast.Call)
                   and ast.unparse(s_.value.func) in ('super().__init__', 'super(%s, %s).__init__' % (cls.name, c_init.args.args[0].arg))]
            other_super = [n for n in ast.walk(cls) if isinstance(n, ast.Call) and isinstance(n.func, ast.Name) and n.func.id == 'super']
            if len(sup) != 1 or len(other_super) != 1:
                ok = False
            else:
                i, st = sup[0]
                bp = [a.arg for a in b_init.args.args]
                call = st.value
                if call.keywords or len(call.args) != len(bp) - 1 or not all(isinstance(a, (ast.Name, ast.Constant)) for a in call.args) \
                        or b_init.args.vararg or b_init.args.kwarg or b_init.args.defaults:
                    ok = False
                else:
                    ren = {bp[0]: ast.Name(id=c_init.args.args[0].arg, ctx=ast.Load())}
                    ren.update({p_: a for p_, a in zip(bp[1:], call.args)})

                    class _Sub(ast.NodeTransformer):
                        def visit_Name(self_, n):
                            if n.id in ren and isinstance(n.ctx, ast.Load):
                                return ast.copy_location(_clone(ren[n.id]), n)
                            if n.id == bp[0]:
                                return ast.copy_location(ast.Name(id=c_init.args.args[0].arg, ctx=n.ctx), n)
                            return n
                    body = [_Sub().visit(_clone(x)) for x in b_init.body if not _is_doc(x)]
                    for x in body:
                        for n_ in ast.walk(x):
                            if hasattr(n_, 'lineno'):
                                n_.lineno = n_.end_lineno = st.lineno
                        ast.fix_missing_locations(x)
                    c_init.body[i:i + 1] = body or [ast.copy_location(ast.Pass(), st)]
        elif any(isinstance(n, ast.Call) and isinstance(n.func, ast.Name) and n.func.id == 'super' for n in ast.walk(cls)):
            ok = False
        if not ok:
            continue
        add_front, add_back = [], []
        for s_ in base.body:
            if isinstance(s_, ast.FunctionDef) and s_.name not in own_defs and not (s_.name == '__init__' and c_init is not None):
                add_back.append(_clone(s_))
            elif isinstance(s_, (ast.Assign, ast.AnnAssign)):
                tg = [t.id for t in (s_.targets if isinstance(s_, ast.Assign) else [s_.target]) if isinstance(t, ast.Name)]
                if tg and not (set(tg) & own_names):
                    add_front.append(_clone(s_))
        pos = 1 if cls.body and _is_doc(cls.body[0]) else 0
        cls.body[pos:pos] = add_front
        cls.body.extend(add_back)
        cls.bases = []
        done.append((cls.name, base.name))
    if done:
        ast.fix_missing_locations(tree)
        _link(tree)
    return done


PURE_VALUE_PARSERS = ('Category.parse',)     # text -> frozen value, no state: memoising them changes nothing observable


def unalias_memoised(tree):
    """NAME = lru_cache(..)(Category.parse) / functools.cache(Category.parse) at module level: NAME(text) reads as
    Category.parse(text).  Only for the parsers listed above (their values are frozen dataclasses that depend on the text
    alone, which C13 R13.1 judges); a memo around anything else stays visible as what it is."""
    done = []
    for st in list(tree.body):
        if not (isinstance(st, ast.Assign) and len(st.targets) == 1 and isinstance(st.targets[0], ast.Name) and isinstance(st.value, ast.Call)):
            continue
        v = st.value
        f = ast.unparse(v.func)
        target = None
        if f in ('lru_cache', 'functools.lru_cache', 'cache', 'functools.cache') and len(v.args) == 1 and not v.keywords:
            target = v.args[0]
        elif isinstance(v.func, ast.Call) and ast.unparse(v.func.func) in ('lru_cache', 'functools.lru_cache') and len(v.args) == 1 and not v.keywords:
            target = v.args[0]
        if target is None or ast.unparse(target) not in PURE_VALUE_PARSERS:
            continue
        name = st.targets[0].id
        if any(isinstance(n, ast.Name) and n.id == name and isinstance(n.ctx, ast.Store) and n is not st.targets[0] for n in ast.walk(tree)):
            continue

        class _Sub(ast.NodeTransformer):
            def visit_Name(self_, n):
                if n.id == name and isinstance(n.ctx, ast.Load):
                    return ast.copy_location(_clone(target), n)
                return n
        for other in tree.body:
            if other is not st:
                _Sub().visit(other)
        tree.body.remove(st)
        done.append(name)
    if done:
        ast.fix_missing_locations(tree)
        _link(tree)
    return done


def expand_element_attributes(tree):
    """lxml: attributes handed to the element factory are attributes set right after creation, in keyword order --
        x = etree.SubElement(p, 'tag', a=1, b=2)   reads   x = etree.SubElement(p, 'tag'); x.set('a', 1); x.set('b', 2)
    and  x.attrib.update(d)  reads  for k, v in d.items(): x.set(k, v).  Only for plain-name targets at statement level."""
    done = 0
    FACT = ('etree.Element', 'etree.SubElement', 'Element', 'SubElement', 'ET.Element', 'ET.SubElement')

    def src_(n):
        try:
            return ast.unparse(n)
        except Exception:
            return ''
    for fn in [n for n in ast.walk(tree) if isinstance(n, FUNCS)]:
        for blk, i, st in _own_statements(fn):
            # the attribute dictionary given positionally (after the tag) or as attrib={..}: a display with constant keys
            if isinstance(st, ast.Assign) and len(st.targets) == 1 and isinstance(st.targets[0], ast.Name) and isinstance(st.value, ast.Call) \
                    and src_(st.value.func) in FACT:
                call_ = st.value
                n_tag = 2 if src_(call_.func).endswith('SubElement') else 1
                d_ = None
                if len(call_.args) == n_tag + 1 and isinstance(call_.args[n_tag], ast.Dict):
                    d_ = call_.args[n_tag]
                    where_ = 'pos'
                else:
                    kws_ = [k for k in call_.keywords if k.arg == 'attrib' and isinstance(k.value, ast.Dict)]
                    if len(kws_) == 1:
                        d_, where_ = kws_[0].value, kws_[0]
                if d_ is not None and d_.keys and all(isinstance(k, ast.Constant) and isinstance(k.value, str) and k.value.isidentifier() for k in d_.keys):
                    new_kw = [ast.keyword(arg=k.value, value=v) for k, v in zip(d_.keys, d_.values)]
                    if where_ == 'pos':
                        call_.args = call_.args[:n_tag]
                    else:
                        call_.keywords = [k for k in call_.keywords if k is not where_]
                    call_.keywords = new_kw + call_.keywords        # dictionary entries come before extra keywords, as lxml applies them
            if isinstance(st, ast.Assign) and len(st.targets) == 1 and isinstance(st.targets[0], ast.Name) and isinstance(st.value, ast.Call) \
                    and src_(st.value.func) in FACT and st.value.keywords and all(k.arg is not None and k.arg not in ('attrib', 'nsmap') for k in st.value.keywords):
                name = st.targets[0].id
                sets = []
                for k in st.value.keywords:
                    c = ast.Expr(value=ast.Call(func=ast.Attribute(value=ast.Name(id=name, ctx=ast.Load()), attr='set', ctx=ast.Load()),
                                                args=[ast.Constant(value=k.arg), k.value], keywords=[]))
                    ast.copy_location(c, st)
                    ast.fix_missing_locations(c)
                    c.lineno = c.end_lineno = getattr(k.value, 'lineno', st.lineno)
                    sets.append(c)
                st.value.keywords = []
                pos = blk.index(st)
                blk[pos + 1:pos + 1] = sets
                done += 1
            elif isinstance(st, ast.Expr) and isinstance(st.value, ast.Call) and isinstance(st.value.func, ast.Attribute) and st.value.func.attr == 'update' \
                    and isinstance(st.value.func.value, ast.Attribute) and st.value.func.value.attr == 'attrib' and isinstance(st.value.func.value.value, ast.Name) \
                    and len(st.value.args) == 1 and not st.value.keywords and isinstance(st.value.args[0], ast.Name):
                x, d = st.value.func.value.value.id, st.value.args[0].id
                loop = ast.parse('for k, v in %s.items():\n    %s.set(k, v)' % (d, x)).body[0]
                for n_ in ast.walk(loop):
                    if hasattr(n_, 'lineno'):
                        n_.lineno = n_.end_lineno = st.lineno
                blk[blk.index(st)] = loop
                done += 1
    if done:
        _link(tree)
    return done


def inline_generators(tree, resolve):
    """`for <targets> in gen(<names>): BODY` over a generator of the package whose body is one loop nest with a single
    `yield <tuple or record of its loop variables>` in the innermost loop reads as that loop nest with BODY in place of
    the yield, the generator's loop variables renamed to the targets that receive them.  resolve(name) -> FunctionDef of
    the generator (module-level here or imported) or None.  Only flat loops without break / else, with plain-name
    targets and arguments."""
    done = []

    def nest_of(g):
        body = [x for x in g.body if not _is_doc(x)]
        if len(body) != 1 or not isinstance(body[0], ast.For) or g.decorator_list or g.args.vararg or g.args.kwarg:
            return None
        chain = []
        cur = body[0]
        while True:
            if cur.orelse:
                return None
            chain.append(cur)
            if len(cur.body) == 1 and isinstance(cur.body[0], (ast.For, ast.If)):
                cur = cur.body[0]       # ... a filter (`if cond:` without else) is a level of the nest like a loop
                continue
            break
        inner = chain[-1]
        if len(inner.body) != 1 or not isinstance(inner.body[0], ast.Expr) or not isinstance(inner.body[0].value, ast.Yield):
            return None
        if sum(1 for n in ast.walk(g) if isinstance(n, (ast.Yield, ast.YieldFrom, ast.Return))) != 1:
            return None
        y = inner.body[0].value.value
        if isinstance(y, ast.Tuple):
            elts = y.elts
        elif isinstance(y, ast.Call) and isinstance(y.func, ast.Name) and y.func.id[:1].isupper() and not y.keywords:
            elts = y.args           # a record built positionally from the loop variables
        elif isinstance(y, ast.Name):
            return chain, y.id      # one value per round: `for x in gen(..)`
        else:
            return None
        if any(isinstance(e, ast.Starred) for e in elts):
            return None
        # a yielded loop variable is renamed to the target receiving it; any other expression is assigned to the target
        return chain, [e.id if isinstance(e, ast.Name) else e for e in elts]

    for fn in [n for n in ast.walk(tree) if isinstance(n, FUNCS)]:
        for blk, i, st in _own_statements(fn):
            if not isinstance(st, ast.For) or st.orelse or not isinstance(st.iter, ast.Call) or not isinstance(st.iter.func, ast.Name):
                continue
            # for i, x in enumerate(gen(..), k): a counter next to the loop over gen(..)
            if st.iter.func.id == 'enumerate' and 1 <= len(st.iter.args) <= 2 and not st.iter.keywords and isinstance(st.iter.args[0], ast.Call) \
                    and isinstance(st.iter.args[0].func, ast.Name) and isinstance(st.target, ast.Tuple) and len(st.target.elts) == 2 \
                    and isinstance(st.target.elts[0], ast.Name) and not any(isinstance(n, ast.Break) for n in ast.walk(st)):
                g0 = resolve(st.iter.args[0].func.id)
                cnt = st.target.elts[0].id + '__n'
                if g0 is not None and isinstance(g0, ast.FunctionDef) and g0 is not fn and nest_of(g0) is not None \
                        and not any(isinstance(n, ast.Name) and n.id == cnt for n in ast.walk(fn)) \
                        and (len(st.iter.args) == 1 or isinstance(st.iter.args[1], ast.Constant)):
                    start = st.iter.args[1] if len(st.iter.args) == 2 else ast.Constant(value=0)
                    init_ = ast.copy_location(ast.Assign(targets=[ast.Name(id=cnt, ctx=ast.Store())], value=start), st)
                    take = ast.copy_location(ast.Assign(targets=[ast.Name(id=st.target.elts[0].id, ctx=ast.Store())], value=ast.Name(id=cnt, ctx=ast.Load())), st)
                    step = ast.copy_location(ast.AugAssign(target=ast.Name(id=cnt, ctx=ast.Store()), op=ast.Add(), value=ast.Constant(value=1)), st)
                    st.target = st.target.elts[1]
                    st.iter = st.iter.args[0]
                    st.body[0:0] = [take, step]
                    blk.insert(blk.index(st), init_)
                    ast.fix_missing_locations(init_)
                    ast.fix_missing_locations(st)
            if st.iter.keywords or not all(isinstance(a, ast.Name) for a in st.iter.args):
                continue
            g = resolve(st.iter.func.id)
            if g is None or not isinstance(g, ast.FunctionDef) or g is fn:
                continue
            r = nest_of(g)
            if r is None:
                continue
            chain, ynames = r
            params = [a.arg for a in g.args.args]
            if len(params) != len(st.iter.args):
                continue
            tg = st.target.elts if isinstance(st.target, ast.Tuple) else None
            if isinstance(ynames, str):
                # a single value per round
                if not isinstance(st.target, ast.Name):
                    continue
                ynames, tg = [ynames], [st.target]
            if tg is None or len(tg) != len(ynames) or not all(isinstance(t, ast.Name) for t in tg):
                continue
            if any(isinstance(n, ast.Break) for n in ast.walk(st)):
                continue
            stored = {n.id for n in ast.walk(g) if isinstance(n, ast.Name) and isinstance(n.ctx, ast.Store)}
            if stored & set(params):
                continue
            yexprs = [(y_, t) for y_, t in zip(ynames, tg) if not isinstance(y_, str) or y_ not in stored]
            ypairs = [(y_, t) for y_, t in zip(ynames, tg) if isinstance(y_, str) and y_ in stored]
            ynames = [y_ for y_, _ in ypairs]
            if len(set(ynames)) != len(ynames):
                continue
            ren = {}
            k = 0
            for yn, t in ypairs:
                if t.id == '_':
                    k += 1
                    ren[yn] = '_%d' % k
                else:
                    ren[yn] = t.id
            caller_names = {n.id for n in ast.walk(fn) if isinstance(n, ast.Name)} | {a.arg for a in fn.args.args}
            if yexprs and any(t.id in ren.values() and t.id != '_' for _, t in yexprs):
                continue
            for nm in stored - set(ynames):
                ren[nm] = nm + '__it' if nm in caller_names or nm in ren.values() else nm
            for p_, a in zip(params, st.iter.args):
                ren[p_] = a.id

            class _Ren(ast.NodeTransformer):
                def visit_Name(self_, n):
                    if n.id in ren:
                        return ast.copy_location(ast.Name(id=ren[n.id], ctx=n.ctx), n)
                    return n
            outer = _Ren().visit(_clone(chain[0]))
            cur = outer
            while len(cur.body) == 1 and isinstance(cur.body[0], (ast.For, ast.If)):
                cur = cur.body[0]
            pre = []
            for y_, t in yexprs:
                if t.id == '_':
                    continue
                v_ = _Ren().visit(_clone(y_ if not isinstance(y_, str) else ast.Name(id=y_, ctx=ast.Load())))
                pre.append(ast.copy_location(ast.Assign(targets=[ast.Name(id=t.id, ctx=ast.Store())], value=v_), st))
            if len(pre) > 1:
                # the yielded tuple is built before any target is bound
                pre = [ast.copy_location(ast.Assign(targets=[ast.Tuple(elts=[a_.targets[0] for a_ in pre], ctx=ast.Store())],
                                                    value=ast.Tuple(elts=[a_.value for a_ in pre], ctx=ast.Load())), st)]
            cur.body = pre + st.body
            for n in ast.walk(outer):
                if isinstance(n, ast.For) and not hasattr(n, 'lineno'):
                    n.lineno = st.lineno
            ast.copy_location(outer, st)
            ast.fix_missing_locations(outer)
            blk[blk.index(st)] = outer
            done.append((g.name, fn.name))
    if done:
        _link(tree)
    return done


def inline_skeletons(tree):
    """A module-level "skeleton" -- a function whose body is nested definitions and one final `return <expr>`, and which
    calls some of its parameters (the parts that vary are handed in as functions) -- is read, at a call site of the form
    `return skeleton(args)` / `x = skeleton(args)` in another module-level function, as its body written out there with
    the arguments in place of the parameters.  Only when every argument is a name, a constant or a lambda (nothing to
    evaluate twice), the skeleton does not assign its parameters, and it is not recursive itself."""
    done = []
    defs = {f.name: f for f in tree.body if isinstance(f, ast.FunctionDef)}

    def skeleton(g):
        if g.decorator_list or g.args.vararg or g.args.kwarg or g.args.kwonlyargs or getattr(g.args, 'posonlyargs', None):
            return None
        body = [x for x in g.body if not _is_doc(x)]
        if len(body) < 2 or not isinstance(body[-1], ast.Return) or body[-1].value is None \
                or not all(isinstance(x, ast.FunctionDef) for x in body[:-1]):
            return None
        params = [a.arg for a in g.args.args]
        called = {n.func.id for n in ast.walk(g) if isinstance(n, ast.Call) and isinstance(n.func, ast.Name)}
        if not (called & set(params)) or g.name in called:
            return None
        for n in ast.walk(g):
            if isinstance(n, ast.Name) and n.id in params and not isinstance(n.ctx, ast.Load):
                return None
            if isinstance(n, (ast.Global, ast.Nonlocal)):
                return None
            if isinstance(n, (ast.FunctionDef, ast.Lambda)) and n is not g and any(a.arg in params for a in n.args.args):
                return None         # a nested parameter shadows one of the skeleton's
        return body

    for caller in list(defs.values()):
        for i, st in enumerate(list(caller.body)):
            call = st.value if isinstance(st, (ast.Return, ast.Assign)) and isinstance(st.value, ast.Call) else None
            if call is None or not isinstance(call.func, ast.Name) or call.func.id not in defs or defs[call.func.id] is caller:
                continue
            if isinstance(st, ast.Assign) and not (len(st.targets) == 1 and isinstance(st.targets[0], ast.Name)):
                continue
            g = defs[call.func.id]
            body = skeleton(g)
            if body is None:
                continue
            params = [a.arg for a in g.args.args]
            if any(isinstance(a, ast.Starred) for a in call.args) or any(k.arg is None for k in call.keywords) or len(call.args) > len(params):
                continue
            bound = dict(zip(params, call.args))
            ok = True
            for k in call.keywords:
                if k.arg not in params or k.arg in bound:
                    ok = False
                bound[k.arg] = k.value
            dflt = dict(zip(params[len(params) - len(g.args.defaults):], g.args.defaults))
            for p_ in params:
                if p_ not in bound:
                    if p_ in dflt:
                        bound[p_] = dflt[p_]
                    else:
                        ok = False
            if not ok or not all(isinstance(v, (ast.Name, ast.Constant, ast.Lambda)) for v in bound.values()):
                continue
            fn_params = {n.func.id for n in ast.walk(g) if isinstance(n, ast.Call) and isinstance(n.func, ast.Name) and n.func.id in params}
            if not all(isinstance(bound[p_], ast.Lambda) or (isinstance(bound[p_], ast.Name) and bound[p_].id in defs) for p_ in fn_params):
                continue
            own = {n.id for n in ast.walk(caller) if isinstance(n, ast.Name)} | {a.arg for a in caller.args.args}
            nested_names = [x.name for x in body[:-1]]
            if any(nm in own for nm in nested_names):
                continue

            class _Sub(ast.NodeTransformer):
                def visit_Name(self_, n):
                    if n.id in bound and isinstance(n.ctx, ast.Load):
                        return ast.copy_location(_clone(bound[n.id]), n)
                    return n
            new_body = []
            for x in body:
                c = _clone(x)
                c = _Sub().visit(c)
                ast.fix_missing_locations(c)
                new_body.append(c)
            ret = new_body[-1]
            if isinstance(st, ast.Return):
                last = ast.copy_location(ast.Return(value=ret.value), st)
            else:
                last = ast.copy_location(ast.Assign(targets=st.targets, value=ret.value), st)
            ast.fix_missing_locations(last)
            pos = caller.body.index(st)
            caller.body[pos:pos + 1] = new_body[:-1] + [last]
            done.append((g.name, caller.name))
    if done:
        _link(tree)
    return done


def merge_registry(tree):
    """A module-level list filled by an identity decorator --

        REG = []
        def register(f): REG.append(f); return f
        @register
        def rule_a(..): ..

    -- reads as the list display it builds at import time: the decorators are removed and `REG = [rule_a, ..]` (in
    definition order) is placed after the last registered function.  Only when every use of the decorator is a bare
    `@register` on a module-level function and the list is not otherwise assigned at module level."""
    done = []
    for d in list(tree.body):
        if not isinstance(d, ast.FunctionDef) or d.decorator_list or len(d.args.args) != 1 or d.args.vararg or d.args.kwarg:
            continue
        body = [x for x in d.body if not _is_doc(x)]
        p = d.args.args[0].arg
        if len(body) != 2 or not isinstance(body[1], ast.Return) or not isinstance(body[1].value, ast.Name) or body[1].value.id != p:
            continue
        c = body[0]
        if not (isinstance(c, ast.Expr) and isinstance(c.value, ast.Call) and isinstance(c.value.func, ast.Attribute) and c.value.func.attr == 'append'
                and isinstance(c.value.func.value, ast.Name) and len(c.value.args) == 1 and isinstance(c.value.args[0], ast.Name)
                and c.value.args[0].id == p and not c.value.keywords):
            continue
        reg = c.value.func.value.id
        inits = [x for x in tree.body if isinstance(x, (ast.Assign, ast.AnnAssign))
                 and any(isinstance(t, ast.Name) and t.id == reg for t in (x.targets if isinstance(x, ast.Assign) else [x.target]))]
        if len(inits) != 1 or inits[0].value is None:
            continue
        v = inits[0].value
        if not ((isinstance(v, ast.List) and not v.elts) or (isinstance(v, ast.Call) and isinstance(v.func, ast.Name) and v.func.id == 'list' and not v.args)):
            continue
        uses = [n for n in ast.walk(tree) if isinstance(n, ast.Name) and n.id == d.name]
        decorated = [f for f in tree.body if isinstance(f, ast.FunctionDef) and any(isinstance(x, ast.Name) and x.id == d.name for x in f.decorator_list)]
        n_dec = sum(1 for f in decorated for x in f.decorator_list if isinstance(x, ast.Name) and x.id == d.name)
        if not decorated or len(uses) != n_dec or any(len(f.decorator_list) != 1 for f in decorated):
            continue
        if tree.body.index(inits[0]) > tree.body.index(decorated[0]):
            continue
        # other module-level changes of the list between its creation and the last registration: leave alone
        last = tree.body.index(decorated[-1])
        other = [x for x in tree.body[:last + 1] if x is not inits[0] and x is not d and not isinstance(x, (ast.FunctionDef, ast.ClassDef))
                 and any(isinstance(n, ast.Name) and n.id == reg for n in ast.walk(x))]
        if other:
            continue
        for f in decorated:
            f.decorator_list = []
        new = ast.Assign(targets=[ast.Name(id=reg, ctx=ast.Store())],
                         value=ast.List(elts=[ast.Name(id=f.name, ctx=ast.Load()) for f in decorated], ctx=ast.Load()))
        ast.copy_location(new, decorated[-1])
        new.lineno = new.end_lineno = getattr(decorated[-1], 'end_lineno', decorated[-1].lineno)
        ast.fix_missing_locations(new)
        tree.body.insert(last + 1, new)
        tree.body.remove(inits[0])
        tree.body.remove(d)
        done.append((reg, d.name, len(decorated)))
    return done


def merge_dispatch(tree):
    """`@singledispatch def f(x, ..)` with `@f.register(T) def g(x, ..)` implementations reads as one function that
    tests isinstance(x, T) in turn (subclasses before their bases) and falls back to the generic body.  Only when all
    registrations are at module level with explicit, named classes; otherwise the module is left as written."""
    done = []
    generic = {}
    for s in tree.body:
        if isinstance(s, ast.FunctionDef) and len(s.decorator_list) == 1:
            d = s.decorator_list[0]
            txt = ast.unparse(d)
            if txt in ('singledispatch', 'functools.singledispatch') and s.args.args and not s.args.vararg and not s.args.kwarg:
                generic[s.name] = (s, [])
    if not generic:
        return done
    bases = {c.name: [b.id for b in c.bases if isinstance(b, ast.Name)] for c in tree.body if isinstance(c, ast.ClassDef)}

    def ancestors(c, seen=()):
        out = set()
        for b in bases.get(c, []):
            if b not in seen:
                out.add(b)
                out |= ancestors(b, seen + (c,))
        return out
    ok = {k: True for k in generic}
    for s in tree.body:
        if not isinstance(s, ast.FunctionDef):
            continue
        for d in s.decorator_list:
            f = d.func if isinstance(d, ast.Call) else d
            if isinstance(f, ast.Attribute) and f.attr == 'register' and isinstance(f.value, ast.Name) and f.value.id in generic:
                g = f.value.id
                typ = None
                if isinstance(d, ast.Call) and len(d.args) == 1 and not d.keywords and isinstance(d.args[0], (ast.Name, ast.Attribute)):
                    typ = d.args[0]
                elif not isinstance(d, ast.Call) and s.args.args and isinstance(s.args.args[0].annotation, (ast.Name, ast.Attribute)):
                    typ = s.args.args[0].annotation
                if typ is None or len(s.decorator_list) != 1 or len(s.args.args) != len(generic[g][0].args.args) \
                        or s.args.vararg or s.args.kwarg:
                    ok[g] = False
                else:
                    generic[g][1].append((typ, s))
    # any other use of .register (calls in function bodies, lambdas) makes the set of implementations unknown
    for n in ast.walk(tree):
        if isinstance(n, ast.Attribute) and n.attr in ('register', 'dispatch', 'registry') and isinstance(n.value, ast.Name) and n.value.id in generic:
            p = getattr(n, '_ofparent', None)
            pp = getattr(p, '_ofparent', None) if isinstance(p, ast.Call) else p
            if not (isinstance(pp, ast.FunctionDef) and (p in pp.decorator_list or n in pp.decorator_list)):
                ok[n.value.id] = False
    for g, (fn, impls) in generic.items():
        if not ok[g] or not impls:
            continue
        names = [ast.unparse(t) for t, _ in impls]
        if len(set(names)) != len(names):
            continue
        # subclasses first
        order = sorted(range(len(impls)), key=lambda i: -len(ancestors(names[i])))
        params = [a.arg for a in fn.args.args]
        chain = list(fn.body)
        if chain and _is_doc(chain[0]):
            doc, chain = [chain[0]], chain[1:]
        else:
            doc = []
        for i in reversed(order):
            typ, impl = impls[i]
            ren = {a.arg: _name(p) for a, p in zip(impl.args.args, params) if a.arg != p}
            stores = {n.id for n in ast.walk(impl) if isinstance(n, ast.Name) and isinstance(n.ctx, ast.Store)}
            if set(ren) & stores or any(p in stores for p in params):
                chain = None
                break
            body = [s_ for s_ in _clone(impl.body) if not _is_doc(s_)] or [ast.Pass()]
            sub = _Subst(names=ren)
            body = [sub.visit(s_) for s_ in body]
            test = ast.Call(func=_name('isinstance'), args=[_name(params[0]), _clone(typ)], keywords=[])
            chain = [ast.copy_location(ast.If(test=test, body=body, orelse=chain), impl)]
        if chain is None:
            continue
        fn.body = doc + chain
        fn.decorator_list = []
        for _, impl in impls:
            impl.decorator_list = []
        ast.fix_missing_locations(fn)
        done.append((g, names))
    return done


def plain_local_assignments(tree):
    """`x: T = v` inside a function or at module level is `x = v` (the annotation has no run-time effect there; class
    bodies are left alone -- annotated names are the fields of NamedTuples / dataclasses): the walker's
    treatment of fresh containers, folded loops and record fields then applies to annotated code as well"""
    class _T(ast.NodeTransformer):
        def __init__(self):
            self.depth = 1          # module level counts: `TABLE: List[str] = [...]` is `TABLE = [...]`

        def visit_FunctionDef(self, node):
            self.depth += 1
            self.generic_visit(node)
            self.depth -= 1
            return node
        visit_AsyncFunctionDef = visit_FunctionDef

        def visit_ClassDef(self, node):
            d, self.depth = self.depth, 0
            self.generic_visit(node)
            self.depth = d
            return node

        def visit_AnnAssign(self, node):
            if self.depth and node.value is not None and isinstance(node.target, (ast.Name, ast.Attribute, ast.Subscript)):
                new = ast.Assign(targets=[node.target], value=node.value)
                return ast.copy_location(new, node)
            return node
    _T().visit(tree)
    ast.fix_missing_locations(tree)
    return tree


def _returns_to(stmts, target, rest=()):
    """statement list in which `return v` reads `target = v` (or just evaluates v when the value is dropped) and what
    follows a conditional return moves into the branches that fall through.  None when a return sits where this
    rewriting does not apply (inside a loop, try or with)."""
    out = []
    stmts = list(stmts) + list(rest)
    for i, s in enumerate(stmts):
        if isinstance(s, ast.Return):
            v = s.value or ast.Constant(value=None)
            if target is None:
                if not isinstance(v, (ast.Constant, ast.Name)):
                    out.append(ast.copy_location(ast.Expr(value=v), s))
            else:
                out.append(ast.copy_location(ast.Assign(targets=[_name(target, ast.Store())], value=v), s))
            return out or [ast.copy_location(ast.Pass(), s)]
        has_ret = any(isinstance(n, ast.Return) for n in ast.walk(s)) and not isinstance(s, FUNCS + (ast.ClassDef,))
        if not has_ret:
            out.append(s)
            continue
        if not isinstance(s, ast.If):
            return None
        tail = stmts[i + 1:]
        a = _returns_to(s.body, target, [_clone(x) for x in tail])
        b = _returns_to(s.orelse, target, tail)
        if a is None or b is None:
            return None
        new = ast.copy_location(ast.If(test=s.test, body=a, orelse=b), s)
        out.append(new)
        return out
    if target is not None:
        # falling off the end returns None
        out.append(ast.Assign(targets=[_name(target, ast.Store())], value=ast.Constant(value=None), lineno=getattr(stmts[-1], 'lineno', 0) if stmts else 0, col_offset=0))
    return out or [ast.Pass(lineno=0, col_offset=0)]


def inline_worker(tree, entry, anchor):
    """`entry` hands its per-item work to a private module-level function that makes the `anchor` call: read the
    worker's body at the call site (parameters stand for the arguments, its other locals keep their names unless the
    entry uses them too, a return is an assignment to the variable receiving the result).  Only a worker called from
    one statement `x = worker(..)` / `worker(..)` with plain positional arguments is read this way."""
    fns = {s.name: s for s in tree.body if isinstance(s, FUNCS)}
    ent = fns.get(entry)
    if ent is None:
        return False

    def calls_anchor(fn):
        if callable(anchor):
            return any(isinstance(n, ast.Call) and anchor(n) for n in ast.walk(fn))
        return any(isinstance(n, ast.Call) and isinstance(n.func, ast.Name) and n.func.id == anchor for n in ast.walk(fn))
    changed = False
    for _ in range(3):
        if calls_anchor(ent):
            break
        # `recv.append(worker(..))` / `f(worker(..))` as a statement of its own: the worker's value gets a name first
        for body, i, s in list(_own_statements(ent)):
            if isinstance(s, ast.Expr) and isinstance(s.value, ast.Call) and not getattr(s, '_hoisted_worker', False):
                outer = s.value
                inner = [a_ for a_ in outer.args if isinstance(a_, ast.Call) and isinstance(a_.func, ast.Name) and a_.func.id in fns and a_.func.id != entry and calls_anchor(fns[a_.func.id])]
                before = outer.args[:outer.args.index(inner[0])] if inner else []
                if len(inner) == 1 and all(isinstance(b_, (ast.Name, ast.Constant)) for b_ in before) and isinstance(outer.func, (ast.Name, ast.Attribute)) \
                        and (isinstance(outer.func, ast.Name) or isinstance(outer.func.value, ast.Name)):
                    tmp = '%s__value' % inner[0].func.id.strip('_')
                    pre_ = ast.copy_location(ast.Assign(targets=[_name(tmp, ast.Store())], value=inner[0]), s)
                    outer.args[outer.args.index(inner[0])] = ast.copy_location(_name(tmp), inner[0])
                    s._hoisted_worker = True
                    body.insert(i, pre_)
                    ast.fix_missing_locations(pre_)
                    break
        sites = []
        for body, i, s in _own_statements(ent):
            c = s.value if isinstance(s, (ast.Assign, ast.Expr)) else None
            if isinstance(c, ast.Call) and isinstance(c.func, ast.Name) and c.func.id in fns and c.func.id != entry and calls_anchor(fns[c.func.id]):
                sites.append((body, i, s, c))
        if len(sites) != 1:
            break
        body, i, s, c = sites[0]
        h = fns[c.func.id]
        n_uses = sum(1 for n in ast.walk(tree) if isinstance(n, ast.Name) and n.id == h.name)
        a = h.args
        if n_uses != 1 or h.decorator_list or a.vararg or a.kwarg or a.kwonlyargs or a.posonlyargs or c.keywords \
                or len(c.args) != len(a.args) or any(isinstance(x, ast.Starred) for x in c.args):
            break
        if any(isinstance(n, (ast.Yield, ast.YieldFrom, ast.Global, ast.Nonlocal, ast.Lambda)) or (isinstance(n, FUNCS) and n is not h) for n in ast.walk(h)):
            break
        if isinstance(s, ast.Assign) and not (len(s.targets) == 1 and isinstance(s.targets[0], ast.Name)):
            break
        target = s.targets[0].id if isinstance(s, ast.Assign) else None
        ent_names = {n.id for n in ast.walk(ent) if isinstance(n, ast.Name)} | {x.arg for x in ent.args.args}
        params = [x.arg for x in a.args]
        stored = {n.id for n in ast.walk(h) if isinstance(n, ast.Name) and isinstance(n.ctx, (ast.Store, ast.Del))}
        names = {}
        pre = []
        for p, arg in zip(params, c.args):
            simple = isinstance(arg, (ast.Name, ast.Constant)) or (isinstance(arg, ast.Attribute) and isinstance(arg.value, ast.Name))
            if simple and p not in stored:
                names[p] = arg
            else:
                new = p if p not in ent_names else '%s__%s' % (h.name.strip('_'), p)
                names[p] = _name(new)
                pre.append(ast.copy_location(ast.Assign(targets=[_name(new, ast.Store())], value=arg), s))
        for v in sorted(stored - set(params)):
            if v in ent_names:
                names[v] = _name('%s__%s' % (h.name.strip('_'), v))
        hb = [_clone(x) for x in h.body if not _is_doc(x)]
        sub = _Subst(names=names, stores=True)
        hb = [sub.visit(x) for x in hb]
        new = _returns_to(hb, target)
        if new is None:
            break
        body[i:i + 1] = pre + new
        for n in ast.walk(ent):
            if not hasattr(n, 'lineno') and isinstance(n, (ast.stmt, ast.expr)):
                n.lineno = n.end_lineno = s.lineno
                n.col_offset = n.end_col_offset = 0
        tree.body.remove(h)
        del fns[h.name]
        ast.fix_missing_locations(ent)
        changed = True
    return changed


def nest_workers(tree):
    """closures that were moved out to module level get the state they used to share handed in as arguments
    (`_reduce(item, stack, tokens)` called with the host's own `stack` and `tokens`, and passing them on unchanged when
    it recurses).  Such private workers are read as closures of their one host again: an argument position through
    which every call hands the same once-bound local of the host is dropped and the parameter reads that local.
    Nothing else is touched: a worker that is used from two functions, whose state parameter is rebound, or that is
    passed around as a value stays where it is."""
    top = {s.name: s for s in tree.body if isinstance(s, FUNCS)}
    if not top:
        return False
    where = {}          # worker name -> set of top-level function names (other than itself) referring to it
    bad = set()
    for s in tree.body:
        for n in ast.walk(s):
            if isinstance(n, ast.Name) and n.id in top and n.id.startswith('_') and not (isinstance(s, FUNCS) and s.name == n.id):
                if isinstance(s, FUNCS):
                    where.setdefault(n.id, set()).add(s.name)
                else:
                    bad.add(n.id)
            if isinstance(n, ast.Attribute) and n.attr in top:
                bad.add(n.attr)
    for n in ast.walk(tree):
        if isinstance(n, ast.Constant) and isinstance(n.value, str) and n.value in top:
            bad.add(n.value)      # __all__, getattr by name, ...
    changed = False
    for fname in sorted(top):
        if fname not in top:
            continue
        f = top[fname]
        cands = {w for w in where if w not in bad and w != fname and w in top}
        group = {w for w in cands if where[w] <= {fname} | cands and fname in where[w]}
        grew = True
        while grew:
            grew = False
            for w in sorted(cands - group):
                if where[w] & group and where[w] <= group | {fname}:
                    group.add(w)
                    grew = True
        shrunk = True
        while shrunk:
            shrunk = False
            for w in sorted(group):
                if not where[w] <= group | {fname}:
                    group.discard(w)
                    shrunk = True
        if not group:
            continue
        # once-bound locals of the host, bound by a statement of its own top level
        stores = {}
        for n in ast.walk(f):
            if isinstance(n, ast.Name) and isinstance(n.ctx, (ast.Store, ast.Del)):
                stores[n.id] = stores.get(n.id, 0) + 1
        fparams = {a.arg for a in f.args.args + f.args.kwonlyargs + f.args.posonlyargs} | ({f.args.vararg.arg} if f.args.vararg else set()) | ({f.args.kwarg.arg} if f.args.kwarg else set())
        bound_at = {}
        for i, s in enumerate(f.body):
            tg = s.targets[0] if isinstance(s, ast.Assign) and len(s.targets) == 1 else s.target if isinstance(s, ast.AnnAssign) and s.value is not None else None
            if isinstance(tg, ast.Name) and stores.get(tg.id) == 1 and tg.id not in fparams:
                bound_at[tg.id] = i
        ok = True
        calls = {w: [] for w in group}        # (caller name, call node)
        for caller in [fname] + sorted(group):
            fn = top[caller]
            called_funcs = set()
            for n in ast.walk(fn):
                if isinstance(n, ast.Call) and isinstance(n.func, ast.Name) and n.func.id in group:
                    calls[n.func.id].append((caller, n))
                    called_funcs.add(id(n.func))
            for n in ast.walk(fn):
                if isinstance(n, ast.Name) and n.id in group and id(n) not in called_funcs:
                    ok = False                # handed around as a value
        for w in group:
            g = top[w]
            a = g.args
            if g.decorator_list or a.vararg or a.kwarg or a.posonlyargs or a.kwonlyargs or isinstance(g, ast.AsyncFunctionDef):
                ok = False
            if any(isinstance(n, (ast.Global, ast.Nonlocal)) for n in ast.walk(g)):
                ok = False
        if not ok:
            continue

        def arg_at(w, call, i):
            g = top[w]
            p = g.args.args[i].arg
            if any(isinstance(x, ast.Starred) for x in call.args) or any(k.arg is None for k in call.keywords):
                return False
            if i < len(call.args):
                return call.args[i]
            for k in call.keywords:
                if k.arg == p:
                    return k.value
            return None
        threaded = {}
        for w in group:
            for i, p in enumerate(top[w].args.args):
                threaded[(w, i)] = '?'
        settled = False
        rounds = 0
        while not settled and rounds < 10:
            settled = True
            rounds += 1
            for (w, i), cur in list(threaded.items()):
                if cur is None:
                    continue
                val = cur
                for caller, c in calls[w]:
                    x = arg_at(w, c, i)
                    v = None
                    if isinstance(x, ast.Name):
                        if caller == fname:
                            v = x.id if x.id in bound_at else None
                        else:
                            ps = [q.arg for q in top[caller].args.args]
                            v = threaded.get((caller, ps.index(x.id))) if x.id in ps else None
                    if v is None:
                        val = None
                        break
                    if v == '?':
                        continue
                    if val == '?':
                        val = v
                    elif val != v:
                        val = None
                        break
                if val != cur:
                    threaded[(w, i)] = val
                    settled = False
        plan = {}
        for w in group:
            g = top[w]
            drop = {i: v for i, p in enumerate(g.args.args) for v in [threaded.get((w, i))] if v not in (None, '?')}
            if not drop or not calls[w]:
                ok = False
                break
            own_stores = {n.id for n in ast.walk(g) if isinstance(n, ast.Name) and isinstance(n.ctx, (ast.Store, ast.Del))}
            names_in_g = {n.id for n in ast.walk(g) if isinstance(n, ast.Name)} | {q.arg for q in g.args.args}
            for i, v in drop.items():
                p = g.args.args[i].arg
                if p in own_stores or (v != p and v in names_in_g):
                    ok = False
            # locals of the host that the worker would newly capture by accident: a worker-local name is still local
            plan[w] = drop
        if not ok:
            continue
        first_use = min(i for i, s in enumerate(f.body) if any(isinstance(n, ast.Name) and n.id in group for n in ast.walk(s)))
        need = max(bound_at[v] for w in group for v in plan[w].values()) + 1
        if need > first_use:
            continue
        if any(w in stores or w in fparams for w in group):
            continue
        for w in sorted(group):
            g = top[w]
            drop = plan[w]
            ren = {g.args.args[i].arg: _name(v) for i, v in drop.items() if g.args.args[i].arg != v}
            if ren:
                sub = _Subst(names=ren)
                g.body = [sub.visit(x) for x in g.body]
            n_def = len(g.args.defaults)
            n_args = len(g.args.args)
            keep_idx = [i for i in range(n_args) if i not in drop]
            defaults = {i: g.args.defaults[i - (n_args - n_def)] for i in range(n_args - n_def, n_args)}
            names_ = [q.arg for q in g.args.args]
            for caller, c in calls[w]:
                new_args, new_kw = [], []
                for i in range(n_args):
                    x = arg_at(w, c, i)
                    if i in drop or x is None:
                        continue
                    if i < len(c.args):
                        new_args.append(x)
                    else:
                        new_kw.append(ast.keyword(arg=names_[i], value=x))
                c.args, c.keywords = new_args, new_kw
            g.args.args = [g.args.args[i] for i in keep_idx]
            g.args.defaults = [defaults[i] for i in keep_idx if i in defaults]
            if any(i in defaults for i in keep_idx) and not all(i in defaults for i in keep_idx[[j for j, i in enumerate(keep_idx) if i in defaults][0]:]):
                g.args.defaults = []
        moved = [top[w] for w in sorted(group, key=lambda w_: top[w_].lineno)]
        for g in moved:
            tree.body.remove(g)
            del top[g.name]
        f.body[first_use:first_use] = moved
        changed = True
    if changed:
        ast.fix_missing_locations(tree)
    return changed


def unmap_loops(tree):
    """`for x in map(f, xs): BODY` reads `for x__m in xs: x = f(x__m); BODY` (map is lazy: same order of evaluation), also
    under enumerate(); a module-level `g = attrgetter('a')` applied this way reads as the attribute itself."""
    getters = {}
    for s in tree.body:
        if isinstance(s, ast.Assign) and len(s.targets) == 1 and isinstance(s.targets[0], ast.Name) and isinstance(s.value, ast.Call) \
                and ((isinstance(s.value.func, ast.Name) and s.value.func.id == 'attrgetter')
                     or (isinstance(s.value.func, ast.Attribute) and s.value.func.attr == 'attrgetter' and isinstance(s.value.func.value, ast.Name) and s.value.func.value.id == 'operator')) \
                and len(s.value.args) == 1 and not s.value.keywords and isinstance(s.value.args[0], ast.Constant) \
                and isinstance(s.value.args[0].value, str) and s.value.args[0].value.isidentifier():
            getters[s.targets[0].id] = s.value.args[0].value
    for nm in list(getters):
        if sum(1 for n in ast.walk(tree) if isinstance(n, ast.Name) and n.id == nm and isinstance(n.ctx, (ast.Store, ast.Del))) != 1:
            del getters[nm]
    changed = False

    def is_map(c):
        return isinstance(c, ast.Call) and isinstance(c.func, ast.Name) and c.func.id == 'map' and len(c.args) == 2 and not c.keywords \
            and not any(isinstance(a, ast.Starred) for a in c.args) and isinstance(c.args[0], (ast.Name, ast.Lambda, ast.Attribute))

    def apply(f, x):
        if isinstance(f, ast.Name) and f.id in getters:
            return ast.Attribute(value=x, attr=getters[f.id], ctx=ast.Load())
        if isinstance(f, ast.Lambda) and len(f.args.args) == 1 and not f.args.defaults and not f.args.vararg and not f.args.kwarg and not f.args.kwonlyargs:
            return _Subst(names={f.args.args[0].arg: x}).visit(_clone(f.body))
        return ast.Call(func=_clone(f), args=[x], keywords=[])
    for fn in [n for n in ast.walk(tree) if isinstance(n, FUNCS)]:
        names = {n.id for n in ast.walk(fn) if isinstance(n, ast.Name)}
        for blk, i, st in _own_statements(fn):
            if not isinstance(st, ast.For) or st.orelse:
                continue
            it = st.iter
            tgt = None
            if is_map(it) and isinstance(st.target, ast.Name):
                tgt, m = st.target, it
            elif isinstance(it, ast.Call) and isinstance(it.func, ast.Name) and it.func.id == 'enumerate' and len(it.args) == 1 and not it.keywords \
                    and is_map(it.args[0]) and isinstance(st.target, ast.Tuple) and len(st.target.elts) == 2 and isinstance(st.target.elts[1], ast.Name):
                tgt, m = st.target.elts[1], it.args[0]
            if tgt is None:
                continue
            raw = tgt.id + '__m'
            if raw in names:
                continue
            bind = ast.Assign(targets=[ast.Name(id=tgt.id, ctx=ast.Store())], value=apply(m.args[0], ast.Name(id=raw, ctx=ast.Load())))
            ast.copy_location(bind, st)
            if m is it:
                st.iter = m.args[1]
            else:
                it.args[0] = m.args[1]
            tgt.id = raw
            st.body.insert(0, bind)
            ast.fix_missing_locations(st)
            changed = True
    if changed:
        _link(tree)
    return changed


def unmemoise_locals(tree):
    """a local table that only remembers what an expression of its key gave --

        memo = {}
        for ..:
            key = ..
            if key not in memo:
                memo[key] = E(key)          # E reads the key and values that do not change in the loop
            .. memo[key] ..

    -- reads as E(key) wherever it is looked up: the table is an optimisation, every entry equals E of its key.  Only
    when these are all the uses of the table (never returned, passed on, iterated or deleted from)."""
    changed = False
    for fn in [n for n in ast.walk(tree) if isinstance(n, FUNCS)]:
        own = _own_statements(fn)
        inits = [(blk, i, s) for blk, i, s in own
                 if (isinstance(s, ast.Assign) and len(s.targets) == 1 and isinstance(s.targets[0], ast.Name) or isinstance(s, ast.AnnAssign) and isinstance(s.target, ast.Name) and s.value is not None)
                 and ((isinstance(s.value, ast.Dict) and not s.value.keys) or (isinstance(s.value, ast.Call) and isinstance(s.value.func, ast.Name) and s.value.func.id == 'dict' and not s.value.args and not s.value.keywords))]
        for blk, i, init in inits:
            m = (init.targets[0] if isinstance(init, ast.Assign) else init.target).id
            uses = [n for n in ast.walk(fn) if isinstance(n, ast.Name) and n.id == m]
            if sum(1 for n in uses if isinstance(n.ctx, (ast.Store, ast.Del))) != 1:
                continue
            fills = [(b_, j_, s_) for b_, j_, s_ in own if isinstance(s_, ast.If) and not s_.orelse and len(s_.body) == 1
                     and isinstance(s_.test, ast.Compare) and len(s_.test.ops) == 1 and isinstance(s_.test.ops[0], ast.NotIn)
                     and isinstance(s_.test.comparators[0], ast.Name) and s_.test.comparators[0].id == m and isinstance(s_.test.left, ast.Name)
                     and isinstance(s_.body[0], ast.Assign) and len(s_.body[0].targets) == 1 and isinstance(s_.body[0].targets[0], ast.Subscript)
                     and isinstance(s_.body[0].targets[0].value, ast.Name) and s_.body[0].targets[0].value.id == m
                     and isinstance(s_.body[0].targets[0].slice, ast.Name) and s_.body[0].targets[0].slice.id == s_.test.left.id]
            if len(fills) != 1:
                continue
            fb, fj, fill = fills[0]
            key = fill.test.left.id
            e = fill.body[0].value
            if any(isinstance(n, ast.Name) and n.id == m for n in ast.walk(e)):
                continue
            # the enclosing loop: names E reads, other than the key, are not bound inside it
            loop = getattr(fill, '_ofparent', None)
            while loop is not None and not isinstance(loop, (ast.For, ast.While)) and loop is not fn:
                loop = getattr(loop, '_ofparent', None)
            if not isinstance(loop, (ast.For, ast.While)) or fb is not loop.body:
                continue
            bound_in_loop = {n.id for n in ast.walk(loop) if isinstance(n, ast.Name) and isinstance(n.ctx, (ast.Store, ast.Del))}
            reads = {n.id for n in ast.walk(e) if isinstance(n, ast.Name) and isinstance(n.ctx, ast.Load)}
            if (reads - {key}) & bound_in_loop or key not in reads:
                continue
            # the key is bound once per iteration, before the fill, and not again
            key_stores = [n for n in ast.walk(loop) if isinstance(n, ast.Name) and n.id == key and isinstance(n.ctx, (ast.Store, ast.Del))]
            if len(key_stores) != 1:
                continue
            accounted = {id(fill.test.comparators[0]), id(fill.body[0].targets[0].value), id(init.targets[0] if isinstance(init, ast.Assign) else init.target)}
            lookups = []
            for b_, j_, s_ in own:
                if b_ is fb and j_ > fj:
                    for n in ast.walk(s_):
                        if isinstance(n, ast.Subscript) and isinstance(n.ctx, ast.Load) and isinstance(n.value, ast.Name) and n.value.id == m \
                                and isinstance(n.slice, ast.Name) and n.slice.id == key:
                            lookups.append(n)
                            accounted.add(id(n.value))
            if not lookups or any(id(u) not in accounted for u in uses):
                continue

            class _Look(ast.NodeTransformer):
                def visit_Subscript(self_, n):
                    if any(n is l_ for l_ in lookups):
                        return ast.copy_location(_clone(e), n)
                    self_.generic_visit(n)
                    return n
            for k_, s_ in enumerate(list(fb)):
                if k_ > fj:
                    fb[k_] = _Look().visit(s_)
            fb.remove(fill)
            blk.remove(init)
            if not blk:
                blk.append(ast.copy_location(ast.Pass(), init))
            changed = True
            own = _own_statements(fn)
    if changed:
        _link(tree)
    return changed


def accumulator_to_value(tree):
    """a writer that collects the fragments of a whole tree in one list and joins it once --

        frags = []
        def rec(node):
            if node.is_leaf: frags.append(LEAF)
            else:
                frags.append(HEAD)
                for child in node.children: rec(child)
                frags.append(TAIL)
        rec(tree)
        .. SEP.join(frags) ..

    -- reads as the recursive function returning the text of a subtree: LEAF, or f'{HEAD}{SEP}{SEP.join(rec(child) for
    child in node.children)}{SEP}{TAIL}'.  The two agree whenever a node that loops over its children has at least one
    (an inner node of a depccg Tree has one or two); the fragments, their order and the separator are what is read."""
    changed = False
    for fn in [n for n in ast.walk(tree) if isinstance(n, FUNCS)]:
        recs = [s for s in fn.body if isinstance(s, ast.FunctionDef)]
        for rec in recs:
            if len(rec.args.args) != 1 or rec.args.vararg or rec.args.kwarg or rec.args.kwonlyargs or rec.decorator_list:
                continue
            if any(isinstance(n, ast.Return) and n.value is not None for n in ast.walk(rec)) or any(isinstance(n, (ast.Yield, ast.YieldFrom)) for n in ast.walk(rec)):
                continue
            # the list: appended to in rec, created empty in fn
            apps = [n for n in ast.walk(rec) if isinstance(n, ast.Call) and isinstance(n.func, ast.Attribute) and n.func.attr == 'append'
                    and isinstance(n.func.value, ast.Name) and len(n.args) == 1 and not n.keywords]
            names = {n.func.value.id for n in apps}
            if len(names) != 1:
                continue
            L = names.pop()
            init = [s for s in fn.body if ((isinstance(s, ast.Assign) and len(s.targets) == 1 and isinstance(s.targets[0], ast.Name) and s.targets[0].id == L)
                                           or (isinstance(s, ast.AnnAssign) and isinstance(s.target, ast.Name) and s.target.id == L and s.value is not None))
                    and isinstance(s.value, ast.List) and not s.value.elts]
            if len(init) != 1:
                continue
            # uses in fn outside rec: the initialisation, one `rec(x)` statement, SEP.join(L)
            start = [s for s in fn.body if isinstance(s, ast.Expr) and isinstance(s.value, ast.Call) and isinstance(s.value.func, ast.Name)
                     and s.value.func.id == rec.name and len(s.value.args) == 1 and not s.value.keywords]
            if len(start) != 1:
                continue
            joins = []
            other = False
            in_rec = {id(n) for n in ast.walk(rec)}
            for n in ast.walk(fn):
                if id(n) in in_rec:
                    continue
                if isinstance(n, ast.Call) and isinstance(n.func, ast.Attribute) and n.func.attr == 'join' and isinstance(n.func.value, ast.Constant) \
                        and isinstance(n.func.value.value, str) and len(n.args) == 1 and isinstance(n.args[0], ast.Name) and n.args[0].id == L and not n.keywords:
                    joins.append(n)
            accounted = {id(j.args[0]) for j in joins} | {id(init[0].targets[0] if isinstance(init[0], ast.Assign) else init[0].target)}
            for n in ast.walk(fn):
                if isinstance(n, ast.Name) and n.id == L and id(n) not in in_rec and id(n) not in accounted:
                    other = True
                if isinstance(n, ast.Name) and n.id == rec.name and id(n) not in in_rec and n is not start[0].value.func:
                    other = True
            seps = {j.func.value.value for j in joins}
            if other or len(joins) != 1 or len(seps) != 1:
                continue
            i_init, i_start = fn.body.index(init[0]), fn.body.index(start[0])
            i_join = [k for k, s in enumerate(fn.body) if any(n is joins[0] for n in ast.walk(s))]
            if not i_join or not (i_init < i_start < i_join[0]) or fn.body.index(rec) > i_start:
                continue
            sep = seps.pop()
            ok = [True]

            def text_of(items, at):
                vals = []
                for k, it in enumerate(items):
                    if k:
                        vals.append(ast.Constant(value=sep))
                    if it[0] == 'frag':
                        x = it[1]
                        if isinstance(x, ast.JoinedStr):
                            vals.extend(_clone(v) for v in x.values)
                        elif isinstance(x, ast.Constant) and isinstance(x.value, str):
                            vals.append(_clone(x))
                        else:
                            vals.append(ast.FormattedValue(value=_clone(x), conversion=-1, format_spec=None))
                    else:
                        gen = ast.GeneratorExp(elt=ast.Call(func=ast.Name(id=rec.name, ctx=ast.Load()), args=[_clone(it[3])], keywords=[]),
                                               generators=[ast.comprehension(target=_clone(it[1]), iter=_clone(it[2]), ifs=[], is_async=0)])
                        vals.append(ast.FormattedValue(value=ast.Call(func=ast.Attribute(value=ast.Constant(value=sep), attr='join', ctx=ast.Load()), args=[gen], keywords=[]),
                                                       conversion=-1, format_spec=None))
                merged = []
                for v in vals:
                    if merged and isinstance(v, ast.Constant) and isinstance(merged[-1], ast.Constant):
                        merged[-1] = ast.Constant(value=merged[-1].value + v.value)
                    else:
                        merged.append(v)
                if not items:
                    ok[0] = False
                return ast.copy_location(ast.Return(value=ast.JoinedStr(values=merged)), at)

            def touches(s):
                return any(isinstance(n, ast.Name) and n.id in (L, rec.name) for n in ast.walk(s))

            def conv(stmts, acc, at):
                out = []
                for k, s in enumerate(stmts):
                    if isinstance(s, ast.Expr) and any(s.value is a for a in apps):
                        acc = acc + [('frag', s.value.args[0])]
                        continue
                    if isinstance(s, ast.For) and not s.orelse and len(s.body) == 1 and isinstance(s.body[0], ast.Expr) and isinstance(s.body[0].value, ast.Call) \
                            and isinstance(s.body[0].value.func, ast.Name) and s.body[0].value.func.id == rec.name and len(s.body[0].value.args) == 1 \
                            and not s.body[0].value.keywords and not touches(s.iter) and not touches(s.body[0].value.args[0]):
                        acc = acc + [('kids', s.target, s.iter, s.body[0].value.args[0])]
                        continue
                    if isinstance(s, ast.Return):
                        out.append(text_of(acc, s))
                        return out
                    if not touches(s):
                        out.append(s)
                        continue
                    if isinstance(s, ast.If) and not touches(s.test):
                        rest = stmts[k + 1:]
                        a = conv(list(s.body) + [_clone(x) for x in rest], list(acc), s)
                        b = conv(list(s.orelse) + list(rest), list(acc), s)
                        out.append(ast.copy_location(ast.If(test=s.test, body=a, orelse=b), s))
                        return out
                    ok[0] = False
                    return out
                out.append(text_of(acc, at))
                return out
            new_body = conv([x for x in rec.body], [], rec.body[-1])
            if not ok[0]:
                continue
            rec.body = new_body
            rec.returns = None
            call = start[0].value

            class _J(ast.NodeTransformer):
                def visit_Call(self_, n):
                    if n is joins[0]:
                        return ast.copy_location(call, n)
                    self_.generic_visit(n)
                    return n
            for k, s in enumerate(list(fn.body)):
                if k > i_start:
                    fn.body[k] = _J().visit(s)
            fn.body.remove(start[0])
            fn.body.remove(init[0])
            ast.fix_missing_locations(fn)
            changed = True
    if changed:
        _link(tree)
    return changed


def unfuse_factories(tree, resolve_class):
    """a class method that constructs an object, calls it once and hands it back only on success --

        @classmethod
        def match(cls, a, b, x, y):
            obj = cls(a, b)
            return obj if obj(x, y) else None

    -- used as `u = C.match(A, B, X, Y)` .. `if u is not None:` reads as the two steps it fuses: `u = C(A, B)`,
    `u__ok = u(X, Y)`, with `u is not None` / `u is None` reading `u__ok` / `not u__ok`.  Only when u is otherwise
    used through subscripts and attributes (which the failing case never reaches)."""
    shapes = {}

    def shape_of(cname, mname):
        key = (cname, mname)
        if key in shapes:
            return shapes[key]
        shapes[key] = None
        cls = resolve_class(cname)
        if cls is None:
            return None
        for m in cls.body:
            if not (isinstance(m, ast.FunctionDef) and m.name == mname and len(m.decorator_list) == 1 and isinstance(m.decorator_list[0], ast.Name)
                    and m.decorator_list[0].id == 'classmethod'):
                continue
            a = m.args
            if a.vararg or a.kwarg or a.kwonlyargs or a.defaults or len(a.args) < 2:
                continue
            body = [x for x in m.body if not _is_doc(x)]
            if len(body) != 2 or not (isinstance(body[0], ast.Assign) and len(body[0].targets) == 1 and isinstance(body[0].targets[0], ast.Name)
                                      and isinstance(body[0].value, ast.Call) and isinstance(body[0].value.func, ast.Name) and body[0].value.func.id == a.args[0].arg
                                      and not body[0].value.keywords and all(isinstance(x, ast.Name) for x in body[0].value.args)):
                continue
            v = body[0].targets[0].id
            r = body[1]
            if not (isinstance(r, ast.Return) and isinstance(r.value, ast.IfExp) and isinstance(r.value.body, ast.Name) and r.value.body.id == v
                    and isinstance(r.value.orelse, ast.Constant) and r.value.orelse.value is None and isinstance(r.value.test, ast.Call)
                    and isinstance(r.value.test.func, ast.Name) and r.value.test.func.id == v and not r.value.test.keywords
                    and all(isinstance(x, ast.Name) for x in r.value.test.args)):
                continue
            ps = [x.arg for x in a.args[1:]]
            ctor = [x.id for x in body[0].value.args]
            call = [x.id for x in r.value.test.args]
            if sorted(ctor + call) != sorted(ps) or len(set(ps)) != len(ps):
                continue
            shapes[key] = (ps, ctor, call)
        return shapes[key]
    changed = False
    for fn in [n for n in ast.walk(tree) if isinstance(n, FUNCS)]:
        for blk, i, st in _own_statements(fn):
            if not (isinstance(st, ast.Assign) and len(st.targets) == 1 and isinstance(st.targets[0], ast.Name) and isinstance(st.value, ast.Call)
                    and isinstance(st.value.func, ast.Attribute) and isinstance(st.value.func.value, ast.Name) and not st.value.keywords
                    and not any(isinstance(x, ast.Starred) for x in st.value.args)):
                continue
            sh = shape_of(st.value.func.value.id, st.value.func.attr)
            if sh is None or len(sh[0]) != len(st.value.args):
                continue
            u = st.targets[0].id
            okname = u + '__ok'
            if any(isinstance(n, ast.Name) and n.id == okname for n in ast.walk(fn)):
                continue
            # other uses of u: `u is None`, `u is not None`, u[..], u.attr
            tests, bad = [], False
            for n in ast.walk(fn):
                if isinstance(n, ast.Name) and n.id == u and isinstance(n.ctx, ast.Load):
                    par = getattr(n, '_ofparent', None)
                    if isinstance(par, ast.Compare) and par.left is n and len(par.ops) == 1 and isinstance(par.ops[0], (ast.Is, ast.IsNot)) \
                            and isinstance(par.comparators[0], ast.Constant) and par.comparators[0].value is None:
                        tests.append(par)
                    elif isinstance(par, (ast.Subscript, ast.Attribute)) and par.value is n:
                        pass
                    else:
                        bad = True
            if bad or not tests:
                continue
            by = dict(zip(sh[0], st.value.args))
            cname = st.value.func.value
            new_ctor = ast.copy_location(ast.Assign(targets=[ast.Name(id=u, ctx=ast.Store())],
                                                    value=ast.Call(func=cname, args=[by[p_] for p_ in sh[1]], keywords=[])), st)
            new_call = ast.copy_location(ast.Assign(targets=[ast.Name(id=okname, ctx=ast.Store())],
                                                    value=ast.Call(func=ast.Name(id=u, ctx=ast.Load()), args=[by[p_] for p_ in sh[2]], keywords=[])), st)
            j = blk.index(st)
            blk[j:j + 1] = [new_ctor, new_call]

            class _T(ast.NodeTransformer):
                def visit_Compare(self_, n):
                    if any(n is t for t in tests):
                        nm = ast.Name(id=okname, ctx=ast.Load())
                        return ast.copy_location(nm if isinstance(n.ops[0], ast.IsNot) else ast.UnaryOp(op=ast.Not(), operand=nm), n)
                    self_.generic_visit(n)
                    return n
            _T().visit(fn)
            ast.fix_missing_locations(fn)
            changed = True
    if changed:
        _link(tree)
    return changed


def restore_private_predicates(tree, missing, resolve_def, resolve_class):
    """a one-argument private predicate of the reference tree (`_is_modifier(z)`) that is gone from the module under its
    name may live on (a) as a function imported from another module of the package under the name without the underscore,
    or (b) as a property of the two category classes read as `z.is_modifier`.  Either way the module is read as if it
    still defined `_name` and called it: the rules speak about the predicate by that name.
    missing: names to look for; resolve_def(name) -> FunctionDef imported under that name or None; resolve_class(name)."""
    done = []
    for ref in missing:
        if not ref.startswith('_') or ref.startswith('__'):
            continue
        pub = ref[1:]
        if any(isinstance(s, FUNCS) and s.name == ref for s in tree.body):
            continue
        new_def = None
        calls = [n for n in ast.walk(tree) if isinstance(n, ast.Call) and isinstance(n.func, ast.Name) and n.func.id == pub]
        attrs = [n for n in ast.walk(tree) if isinstance(n, ast.Attribute) and n.attr == pub and isinstance(n.ctx, ast.Load)]
        if calls and not any(isinstance(s, FUNCS) and s.name == pub for s in tree.body):
            d = resolve_def(pub)
            if isinstance(d, ast.FunctionDef) and len(d.args.args) == 1 and not d.decorator_list:
                new_def = _clone(d)
                new_def.name = ref
                for c in calls:
                    c.func.id = ref
        elif attrs and not calls:
            atom, fun = resolve_class('Atom'), resolve_class('Functor')

            def prop(cls):
                for s in (cls.body if cls is not None else []):
                    if isinstance(s, ast.FunctionDef) and s.name == pub and any(isinstance(d_, ast.Name) and d_.id == 'property' for d_ in s.decorator_list):
                        body = [x for x in s.body if not _is_doc(x)]
                        if len(body) == 1 and isinstance(body[0], ast.Return) and body[0].value is not None and len(s.args.args) == 1:
                            return s.args.args[0].arg, body[0].value
                return None
            pa, pf = prop(atom), prop(fun)
            if pa is not None and pf is not None and isinstance(pa[1], ast.Constant) and pa[1].value is False:
                z = 'z'
                fbody = _Subst(names={pf[0]: ast.Name(id=z, ctx=ast.Load())}).visit(_clone(pf[1]))
                test = ast.BoolOp(op=ast.And(), values=[ast.Attribute(value=ast.Name(id=z, ctx=ast.Load()), attr='is_functor', ctx=ast.Load()), fbody])
                new_def = ast.FunctionDef(name=ref, args=ast.arguments(posonlyargs=[], args=[ast.arg(arg=z)], kwonlyargs=[], kw_defaults=[], defaults=[]),
                                          body=[ast.Return(value=test)], decorator_list=[])
                if hasattr(new_def, 'type_params') or True:
                    new_def.type_params = []

                class _A(ast.NodeTransformer):
                    def visit_Attribute(self_, n):
                        self_.generic_visit(n)
                        if n.attr == pub and isinstance(n.ctx, ast.Load):
                            return ast.copy_location(ast.Call(func=ast.Name(id=ref, ctx=ast.Load()), args=[n.value], keywords=[]), n)
                        return n
                _A().visit(tree)
        if new_def is not None:
            first_fn = next((i for i, s in enumerate(tree.body) if isinstance(s, FUNCS + (ast.ClassDef,))), len(tree.body))
            ln = tree.body[first_fn].lineno if first_fn < len(tree.body) else 1
            for n in ast.walk(new_def):
                if isinstance(n, (ast.stmt, ast.expr)):
                    n.lineno = n.end_lineno = ln
                    n.col_offset = n.end_col_offset = 0
            tree.body.insert(first_fn, new_def)
            ast.fix_missing_locations(tree)
            done.append(ref)
    if done:
        _link(tree)
    return done


def dataclass_constructors(tree):
    """a @dataclass that does more than hold its fields -- fields with init=False / default_factory, a __post_init__ --
    and has no __init__ of its own is read with the constructor the decorator generates written out: parameters for the
    init fields, every field assigned in declaration order (argument, default or a call of its factory), then the body of
    __post_init__.  Plain records (all fields initialised from arguments, no __post_init__) are left to the walker's own
    reading of record constructors."""
    done = []
    for cls in [c for c in ast.walk(tree) if isinstance(c, ast.ClassDef)]:
        decos = [d.func if isinstance(d, ast.Call) else d for d in cls.decorator_list]
        if not any((isinstance(d, ast.Name) and d.id == 'dataclass') or (isinstance(d, ast.Attribute) and d.attr == 'dataclass') for d in decos):
            continue
        if any(isinstance(s, FUNCS) and s.name == '__init__' for s in cls.body):
            continue
        if cls.bases and not all(isinstance(b, ast.Name) and b.id == 'object' for b in cls.bases):
            continue
        post = next((s for s in cls.body if isinstance(s, ast.FunctionDef) and s.name == '__post_init__'), None)
        fields = []
        special = post is not None
        ok = True
        for s in cls.body:
            if not (isinstance(s, ast.AnnAssign) and isinstance(s.target, ast.Name)):
                continue
            if isinstance(s.annotation, ast.Subscript) and isinstance(s.annotation.value, ast.Name) and s.annotation.value.id == 'ClassVar':
                continue
            init, default, factory = True, None, None
            v = s.value
            if isinstance(v, ast.Call) and ((isinstance(v.func, ast.Name) and v.func.id == 'field') or (isinstance(v.func, ast.Attribute) and v.func.attr == 'field')):
                if v.args:
                    ok = False
                for kw in v.keywords:
                    if kw.arg == 'init' and isinstance(kw.value, ast.Constant):
                        init = bool(kw.value.value)
                    elif kw.arg == 'default':
                        default = kw.value
                    elif kw.arg == 'default_factory':
                        factory = kw.value
                    elif kw.arg in ('repr', 'compare', 'hash', 'metadata', 'kw_only'):
                        if kw.arg == 'kw_only':
                            ok = False
                    else:
                        ok = False
                special = special or not init or factory is not None
            elif v is not None:
                default = v
            fields.append((s.target.id, init, default, factory))
        if not ok or not special or not fields:
            continue
        selfname = post.args.args[0].arg if post is not None and post.args.args else 'self'
        if post is not None and (len(post.args.args) != 1 or post.args.vararg or post.args.kwarg):
            continue
        params, defaults, body = [ast.arg(arg=selfname)], [], []
        seen_default = False
        bad_order = False
        for name, init, default, factory in fields:
            if init:
                params.append(ast.arg(arg=name))
                if default is not None or factory is not None:
                    seen_default = True
                    defaults.append(_clone(default) if default is not None else ast.Call(func=_clone(factory), args=[], keywords=[]))
                elif seen_default:
                    bad_order = True
                body.append(ast.Assign(targets=[ast.Attribute(value=ast.Name(id=selfname, ctx=ast.Load()), attr=name, ctx=ast.Store())], value=ast.Name(id=name, ctx=ast.Load())))
            elif factory is not None:
                body.append(ast.Assign(targets=[ast.Attribute(value=ast.Name(id=selfname, ctx=ast.Load()), attr=name, ctx=ast.Store())],
                                       value=ast.Call(func=_clone(factory), args=[], keywords=[])))
            elif default is not None:
                body.append(ast.Assign(targets=[ast.Attribute(value=ast.Name(id=selfname, ctx=ast.Load()), attr=name, ctx=ast.Store())], value=_clone(default)))
        if bad_order:
            continue
        if post is not None:
            body.extend(_clone(x) for x in post.body if not _is_doc(x))
        init_def = ast.FunctionDef(name='__init__', args=ast.arguments(posonlyargs=[], args=params, kwonlyargs=[], kw_defaults=[], defaults=defaults),
                                   body=body or [ast.Pass()], decorator_list=[])
        init_def.type_params = []
        ln = cls.lineno
        for n in ast.walk(init_def):
            if isinstance(n, (ast.stmt, ast.expr)) and not hasattr(n, 'lineno'):
                n.lineno = n.end_lineno = ln
                n.col_offset = n.end_col_offset = 0
        init_def.lineno = init_def.end_lineno = ln
        init_def.col_offset = init_def.end_col_offset = 0
        pos = 1 if cls.body and _is_doc(cls.body[0]) else 0
        cls.body.insert(pos, init_def)
        ast.fix_missing_locations(cls)
        done.append(cls.name)
    if done:
        _link(tree)
    return done


def classmethod_constructors(tree):
    """inside a @classmethod of a class that nothing in the module derives from, `cls(..)` builds an instance of that class:
    read it as `K(..)` (the readers and rules speak about `Tree(..)`, `Token(..)` by name)"""
    done = 0
    derived = {b.id for c in ast.walk(tree) if isinstance(c, ast.ClassDef) for b in c.bases if isinstance(b, ast.Name)}
    for cls in [c for c in ast.walk(tree) if isinstance(c, ast.ClassDef)]:
        if cls.name in derived:
            continue
        for fn in [f for f in cls.body if isinstance(f, ast.FunctionDef)]:
            if not any(isinstance(d, ast.Name) and d.id == 'classmethod' for d in fn.decorator_list) or not fn.args.args:
                continue
            me = fn.args.args[0].arg
            if any(isinstance(n, ast.Name) and n.id == me and isinstance(n.ctx, (ast.Store, ast.Del)) for n in ast.walk(fn)):
                continue
            for n in ast.walk(fn):
                if isinstance(n, ast.Name) and n.id == me and isinstance(n.ctx, ast.Load):
                    n.id = cls.name         # cls(..), cls.make_binary(..): the class itself
                    done += 1
    if done:
        _link(tree)
    return done


def unwrap_memo_functions(tree):
    """a helper that only remembers what Category.parse gave for a text --

        parsed = {}
        def parse(text):
            [if not isinstance(text, str): return Category.parse(text)]
            if text not in parsed:
                parsed[text] = Category.parse(text)
            return parsed[text]

    -- is Category.parse: its calls read as calls of the parser, the helper and its table go away.  Only for the parsers
    listed in PURE_VALUE_PARSERS (frozen values that depend on the text alone) and only when the table has no other use."""
    done = []
    scopes = [tree] + [n for n in ast.walk(tree) if isinstance(n, FUNCS)]
    for scope in scopes:
        body = scope.body
        for f in [s for s in body if isinstance(s, ast.FunctionDef)]:
            if len(f.args.args) != 1 or f.args.vararg or f.args.kwarg or f.args.kwonlyargs or f.decorator_list:
                continue
            p = f.args.args[0].arg
            stmts = [x for x in f.body if not _is_doc(x)]
            G = M = None
            ok = bool(stmts)

            def is_parse(c):
                return isinstance(c, ast.Call) and ast.unparse(c.func) in PURE_VALUE_PARSERS and len(c.args) == 1 and not c.keywords \
                    and isinstance(c.args[0], ast.Name) and c.args[0].id == p
            for x in stmts:
                if isinstance(x, ast.Return) and is_parse(x.value):
                    G = ast.unparse(x.value.func)
                elif isinstance(x, ast.Return) and isinstance(x.value, ast.Subscript) and isinstance(x.value.value, ast.Name) \
                        and isinstance(x.value.slice, ast.Name) and x.value.slice.id == p:
                    M = x.value.value.id if M in (None, x.value.value.id) else False
                elif isinstance(x, ast.If) and not x.orelse and len(x.body) == 1 and isinstance(x.body[0], ast.Return) and is_parse(x.body[0].value):
                    G = ast.unparse(x.body[0].value.func)       # a guard that sends some arguments straight to the parser
                elif isinstance(x, ast.If) and not x.orelse and len(x.body) == 1 and isinstance(x.test, ast.Compare) and len(x.test.ops) == 1 \
                        and isinstance(x.test.ops[0], ast.NotIn) and isinstance(x.test.left, ast.Name) and x.test.left.id == p \
                        and isinstance(x.test.comparators[0], ast.Name) and isinstance(x.body[0], ast.Assign) and len(x.body[0].targets) == 1 \
                        and isinstance(x.body[0].targets[0], ast.Subscript) and isinstance(x.body[0].targets[0].value, ast.Name) \
                        and x.body[0].targets[0].value.id == x.test.comparators[0].id and isinstance(x.body[0].targets[0].slice, ast.Name) \
                        and x.body[0].targets[0].slice.id == p and is_parse(x.body[0].value):
                    G = ast.unparse(x.body[0].value.func)
                    M = x.test.comparators[0].id if M in (None, x.test.comparators[0].id) else False
                else:
                    ok = False
            if not ok or not G or not M:
                continue
            inits = [s for s in body if (isinstance(s, ast.Assign) and len(s.targets) == 1 and isinstance(s.targets[0], ast.Name) and s.targets[0].id == M
                                         or isinstance(s, ast.AnnAssign) and isinstance(s.target, ast.Name) and s.target.id == M and s.value is not None)
                     and isinstance(s.value, ast.Dict) and not s.value.keys]
            in_f = {id(n) for n in ast.walk(f)}
            other_m = [n for n in ast.walk(scope) if isinstance(n, ast.Name) and n.id == M and id(n) not in in_f and not any(n is (i_.targets[0] if isinstance(i_, ast.Assign) else i_.target) for i_ in inits)]
            uses_f = [n for n in ast.walk(scope) if isinstance(n, ast.Name) and n.id == f.name and id(n) not in in_f]
            calls_f = [n for n in ast.walk(scope) if isinstance(n, ast.Call) and isinstance(n.func, ast.Name) and n.func.id == f.name and id(n) not in in_f]
            if len(inits) != 1 or other_m or len(uses_f) != len(calls_f) or not calls_f:
                continue
            target = ast.parse(G, mode='eval').body
            for c in calls_f:
                c.func = ast.copy_location(_clone(target), c.func)
            body.remove(f)
            body.remove(inits[0])
            done.append(f.name)
    if done:
        ast.fix_missing_locations(tree)
        _link(tree)
    return done


# ---------------------------------------------------------------------------------------------------------------------
# categories named once at module level
# ---------------------------------------------------------------------------------------------------------------------
def _canonical_cat_text(text):
    """is `text` the spelling str() gives the category it parses to? (then `c == text`, which compares str(c), and
    `c == Category.parse(text)`, which compares the structures, are the same test)"""
    from . import datafiles
    try:
        return datafiles.show_cat(datafiles.parse_cat(text)) == text
    except Exception:
        return False


def inline_category_constants(tree):
    """NAME = Category.parse("S[dcl]") at module level, bound once and never rebound: a use of NAME in a function reads as
    the text it stands for wherever a category is compared (`x == NAME`, `x in (A, B)`: Category.__eq__ against a text
    compares the canonical spelling, against a category the structure -- the same test for a canonical text), and as
    Category.parse("S[dcl]") anywhere else (operand of ^, a returned value).  Tuples of such values
    (`(Category.parse(a), Category.parse(b))`, `tuple(Category.parse(c) for c in ("a", "b"))`) likewise."""
    def parsed_text(v):
        if isinstance(v, ast.Call) and ast.unparse(v.func) in PURE_VALUE_PARSERS and len(v.args) == 1 and not v.keywords \
                and isinstance(v.args[0], ast.Constant) and isinstance(v.args[0].value, str) and _canonical_cat_text(v.args[0].value):
            return v.args[0].value
        return None

    def parsed_texts(v):
        if isinstance(v, ast.Tuple) and v.elts and all(parsed_text(e) is not None for e in v.elts):      # (a list is a table the rules know by name)
            return [parsed_text(e) for e in v.elts]
        if isinstance(v, ast.Call) and ast.unparse(v.func) in ('tuple', 'frozenset') and len(v.args) == 1 and isinstance(v.args[0], (ast.GeneratorExp, ast.ListComp)):
            g = v.args[0]
            if len(g.generators) == 1 and not g.generators[0].ifs and isinstance(g.generators[0].target, ast.Name) \
                    and isinstance(g.generators[0].iter, (ast.Tuple, ast.List)) and all(isinstance(e, ast.Constant) and isinstance(e.value, str) for e in g.generators[0].iter.elts) \
                    and isinstance(g.elt, ast.Call) and ast.unparse(g.elt.func) in PURE_VALUE_PARSERS and len(g.elt.args) == 1 \
                    and isinstance(g.elt.args[0], ast.Name) and g.elt.args[0].id == g.generators[0].target.id:
                texts = [e.value for e in g.generators[0].iter.elts]
                if all(_canonical_cat_text(t) for t in texts):
                    return texts
        return None
    single, multi = {}, {}
    stmts = {}
    for st in tree.body:
        if isinstance(st, ast.Assign) and len(st.targets) == 1 and isinstance(st.targets[0], ast.Name):
            t = parsed_text(st.value)
            ts = parsed_texts(st.value) if t is None else None
            if t is not None:
                single[st.targets[0].id] = t
                stmts[st.targets[0].id] = st
            elif ts is not None:
                multi[st.targets[0].id] = ts
                stmts[st.targets[0].id] = st
    if not single and not multi:
        return []
    # bound once in the whole module (no rebinding, no global declaration, no parameter / local of the same name)
    stores = {}
    for n in ast.walk(tree):
        if isinstance(n, ast.Name) and isinstance(n.ctx, (ast.Store, ast.Del)):
            stores[n.id] = stores.get(n.id, 0) + 1
        if isinstance(n, ast.arg):
            stores[n.arg] = stores.get(n.arg, 0) + 1
        if isinstance(n, (ast.Global, ast.Nonlocal)):
            for nm in n.names:
                stores[nm] = stores.get(nm, 0) + 2
    for nm in list(single) + list(multi):
        if stores.get(nm, 0) != 1:
            single.pop(nm, None)
            multi.pop(nm, None)

    def as_parse(text):
        return ast.Call(func=ast.Attribute(value=ast.Name(id='Category', ctx=ast.Load()), attr='parse', ctx=ast.Load()), args=[ast.Constant(value=text)], keywords=[])

    class _T(ast.NodeTransformer):
        def __init__(self):
            self.compared = 0

        def visit_Compare(self, node):
            eq_only = all(isinstance(o, (ast.Eq, ast.NotEq, ast.In, ast.NotIn)) for o in node.ops)
            if eq_only:
                self.compared += 1
            self.generic_visit(node)
            if eq_only:
                self.compared -= 1
            return node

        def visit_Name(self, node):
            if not isinstance(node.ctx, ast.Load):
                return node
            if node.id in single:
                new = ast.Constant(value=single[node.id]) if self.compared else as_parse(single[node.id])
                return ast.copy_location(new, node)
            if node.id in multi:
                elts = [ast.Constant(value=t) if self.compared else as_parse(t) for t in multi[node.id]]
                return ast.copy_location(ast.Tuple(elts=elts, ctx=ast.Load()), node)
            return node

        def visit_Call(self, node):
            # inside a call that sits in a comparison the value is an argument, not a comparand: str(x) == .., f(NAME) == ..
            saved, self.compared = self.compared, 0
            self.generic_visit(node)
            self.compared = saved
            return node
    done = []
    tr = _T()
    for st in tree.body:
        if isinstance(st, (ast.FunctionDef, ast.ClassDef)):
            tr.visit(st)
    for nm in list(single) + list(multi):
        # the binding stays (other modules may import it); it is no longer read here
        done.append(nm)
    ast.fix_missing_locations(tree)
    return done


# ---------------------------------------------------------------------------------------------------------------------
# a structural map over categories written once as a function
# ---------------------------------------------------------------------------------------------------------------------
def _structural_map_shape(fn):
    """is fn `def M(c, f): if isinstance(c, Functor) [or c.is_functor]: return Functor(M(c.left, f), c.slash, M(c.right, f))
    [or c.functor(M(c.left, f), M(c.right, f))]; return f(c)`?  -> (c, f) parameter names or None"""
    if not isinstance(fn, ast.FunctionDef) or fn.decorator_list or len(fn.args.args) != 2 or fn.args.vararg or fn.args.kwarg or fn.args.kwonlyargs:
        return None
    c, f = fn.args.args[0].arg, fn.args.args[1].arg
    body = [s for s in fn.body if not _is_doc(s)]
    if len(body) == 1 and isinstance(body[0], ast.If) and len(body[0].orelse) == 1:
        body = [ast.If(test=body[0].test, body=body[0].body, orelse=[]), body[0].orelse[0]]
    if len(body) != 2 or not isinstance(body[0], ast.If) or body[0].orelse or len(body[0].body) != 1 or not isinstance(body[0].body[0], ast.Return) or not isinstance(body[1], ast.Return):
        return None
    test = ast.unparse(body[0].test).replace(' ', '')
    if test not in ('isinstance(%s,Functor)' % c, '%s.is_functor' % c):
        return None
    rec = lambda side: '%s(%s.%s,%s)' % (fn.name, c, side, f)
    built = ast.unparse(body[0].body[0].value).replace(' ', '').replace('\n', '')
    if built not in ('Functor(%s,%s.slash,%s)' % (rec('left'), c, rec('right')), '%s.functor(%s,%s)' % (c, rec('left'), rec('right'))):
        return None
    if ast.unparse(body[1].value).replace(' ', '') != '%s(%s)' % (f, c):
        return None
    return c, f


def unmap_structural(tree, resolve_def):
    """`map_atoms(cat, fn)` -- rebuild a category with every atom replaced by fn(atom) -- reads as the recursion it
    abbreviates.  (i) In a method m of class Functor whose body is `return M(self, lambda a: a.m(<m's own arguments>))`
    the map is m itself on both sides (M(y, ..) is y.m(..) for an atom by the lambda and for a functor by this very
    method): `return self.functor(self.left.m(..), self.right.m(..))`.  (ii) Elsewhere `M(E, F)` with F a lambda or a
    closure defined next to the call becomes a local recursive reader
        def rec(x): if x.is_functor: return x.functor(rec(x.left), rec(x.right)) else: <body of F for x>
    called as rec(E)."""
    cands = {}
    names = {n.func.id for n in ast.walk(tree) if isinstance(n, ast.Call) and isinstance(n.func, ast.Name) and len(n.args) == 2 and not n.keywords}
    for nm in sorted(names):
        d = resolve_def(nm)
        if d is not None and _structural_map_shape(d):
            cands[nm] = d
    if not cands:
        return []
    done = []
    for cls in [c for c in ast.walk(tree) if isinstance(c, ast.ClassDef)]:
        for m in [f for f in cls.body if isinstance(f, ast.FunctionDef)]:
            body = [s for s in m.body if not _is_doc(s)]
            if cls.name != 'Functor' or len(body) != 1 or not isinstance(body[0], ast.Return) or not isinstance(body[0].value, ast.Call):
                continue
            call = body[0].value
            if not (isinstance(call.func, ast.Name) and call.func.id in cands and len(call.args) == 2 and isinstance(call.args[0], ast.Name)
                    and call.args[0].id == m.args.args[0].arg and isinstance(call.args[1], ast.Lambda)):
                continue
            lam = call.args[1]
            if len(lam.args.args) != 1 or not isinstance(lam.body, ast.Call) or not isinstance(lam.body.func, ast.Attribute) \
                    or not isinstance(lam.body.func.value, ast.Name) or lam.body.func.value.id != lam.args.args[0].arg or lam.body.func.attr != m.name:
                continue
            own = [a.arg for a in m.args.args[1:]]
            fwd = ','.join(own + (['*' + m.args.vararg.arg] if m.args.vararg else []))
            got = ','.join(ast.unparse(a).replace(' ', '') for a in lam.body.args)
            if got != fwd or lam.body.keywords:
                continue
            me = m.args.args[0].arg

            def side(s_):
                c_ = _clone(lam.body)
                c_.func.value = ast.Attribute(value=_name(me), attr=s_, ctx=ast.Load())
                return c_
            new = ast.Call(func=ast.Attribute(value=_name(me), attr='functor', ctx=ast.Load()), args=[side('left'), side('right')], keywords=[])
            body[0].value = ast.copy_location(new, call)
            ast.fix_missing_locations(body[0])
            done.append('%s.%s' % (cls.name, m.name))
    for fn in [f for f in ast.walk(tree) if isinstance(f, FUNCS)]:
        for body, i, s in list(_own_statements(fn)):
            if not isinstance(s, (ast.Return, ast.Assign, ast.Expr)) or s.value is None:
                continue
            calls = [c for c in ast.walk(s.value) if isinstance(c, ast.Call) and isinstance(c.func, ast.Name) and c.func.id in cands and len(c.args) == 2 and not c.keywords]
            if len(calls) != 1:
                continue
            call = calls[0]
            F = call.args[1]
            x = '%s__x' % call.func.id.strip('_')
            rec_name = '%s__rec' % call.func.id.strip('_')
            leaf = None
            drop = None
            if isinstance(F, ast.Lambda) and len(F.args.args) == 1 and not F.args.vararg and not F.args.kwarg:
                leaf = [ast.Return(value=_Subst(names={F.args.args[0].arg: _name(x)}).visit(_clone(F.body)))]
            elif isinstance(F, ast.Name):
                local = [d for d in fn.body if isinstance(d, ast.FunctionDef) and d.name == F.id]
                uses = [n for n in ast.walk(fn) if isinstance(n, ast.Name) and n.id == F.id]
                if len(local) == 1 and len(uses) == 1 and len(local[0].args.args) == 1 and not local[0].decorator_list \
                        and not any(isinstance(n, (ast.Yield, ast.YieldFrom, ast.Nonlocal, ast.Global)) for n in ast.walk(local[0])):
                    p = local[0].args.args[0].arg
                    if not any(isinstance(n, ast.Name) and n.id == p and isinstance(n.ctx, ast.Store) for n in ast.walk(local[0])):
                        leaf = [_Subst(names={p: _name(x)}).visit(_clone(st_)) for st_ in local[0].body if not _is_doc(st_)]
                        drop = local[0]
                if leaf is None:
                    leaf = [ast.Return(value=ast.Call(func=_name(F.id), args=[_name(x)], keywords=[]))]
            if leaf is None:
                continue
            rc = lambda side_: ast.Call(func=_name(rec_name), args=[ast.Attribute(value=_name(x), attr=side_, ctx=ast.Load())], keywords=[])
            rec_def = ast.FunctionDef(
                name=rec_name,
                args=ast.arguments(posonlyargs=[], args=[ast.arg(arg=x)], kwonlyargs=[], kw_defaults=[], defaults=[]),
                body=[ast.If(test=ast.Attribute(value=_name(x), attr='is_functor', ctx=ast.Load()),
                             body=[ast.Return(value=ast.Call(func=ast.Attribute(value=_name(x), attr='functor', ctx=ast.Load()), args=[rc('left'), rc('right')], keywords=[]))],
                             orelse=leaf)],
                decorator_list=[], returns=None, type_comment=None)
            if hasattr(ast, 'TypeVar'):
                rec_def.type_params = []
            ast.copy_location(rec_def, s)
            call.func = _name(rec_name)
            call.args = [call.args[0]]
            body.insert(body.index(s), rec_def)
            if drop is not None and drop in fn.body:
                fn.body.remove(drop)
            for n in ast.walk(rec_def):
                if isinstance(n, (ast.stmt, ast.expr)) and not hasattr(n, 'lineno'):
                    n.lineno = n.end_lineno = s.lineno
                    n.col_offset = n.end_col_offset = 0
            ast.fix_missing_locations(fn)
            done.append('%s:%s' % (getattr(fn, 'name', '?'), call.func.id))
    return done


# ---------------------------------------------------------------------------------------------------------------------
# a fold over trees written once as a function
# ---------------------------------------------------------------------------------------------------------------------
def _tree_fold_shape(fn):
    """is fn `def F(t, leaf, inner): if t.is_leaf: return leaf(t); return inner(t, [F(c, leaf, inner) for c in t.children])`
    (or the if/else form)?  -> True"""
    if not isinstance(fn, ast.FunctionDef) or fn.decorator_list or len(fn.args.args) != 3 or fn.args.vararg or fn.args.kwarg or fn.args.kwonlyargs:
        return False
    t, a, b = [x.arg for x in fn.args.args]
    body = [s for s in fn.body if not _is_doc(s)]
    if len(body) == 1 and isinstance(body[0], ast.If) and len(body[0].orelse) == 1:
        body = [ast.If(test=body[0].test, body=body[0].body, orelse=[]), body[0].orelse[0]]
    if len(body) != 2 or not isinstance(body[0], ast.If) or body[0].orelse or len(body[0].body) != 1 or not isinstance(body[0].body[0], ast.Return) or not isinstance(body[1], ast.Return):
        return False
    if ast.unparse(body[0].test).replace(' ', '') != '%s.is_leaf' % t:
        return False
    if ast.unparse(body[0].body[0].value).replace(' ', '') != '%s(%s)' % (a, t):
        return False
    got = ast.unparse(body[1].value).replace(' ', '').replace('\n', '')
    import re as _re
    return bool(_re.match(r'^%s\(%s,\[%s\((\w+),%s,%s\)for\1in%s\.children\]\)$' % tuple(_re.escape(x) for x in (b, t, fn.name, a, b, t)), got))


def unfold_tree_folds(tree, resolve_def):
    """`fold_tree(tree, leaf, inner)` -- the value of a tree from the values of its subtrees -- reads as the recursive
    closure it abbreviates: at a call site F(E, L, I) with L and I functions of this module (or lambdas)
        def rec(node): if node.is_leaf: <body of L for node> else: children = [rec(child) for child in node.children]; <body of I for node, children>
    is defined next to the call, which becomes rec(E)."""
    done = []
    tops = {f.name: f for f in tree.body if isinstance(f, ast.FunctionDef)}
    for fn in [f for f in tree.body if isinstance(f, ast.FunctionDef)]:
        for body, i, s in list(_own_statements(fn)):
            if not isinstance(s, (ast.Return, ast.Assign, ast.Expr)) or getattr(s, 'value', None) is None:
                continue
            calls = [c for c in ast.walk(s.value) if isinstance(c, ast.Call) and isinstance(c.func, ast.Name) and len(c.args) == 3 and not c.keywords]
            calls = [c for c in calls if (lambda d: d is not None and d is not fn and _tree_fold_shape(d))(resolve_def(c.func.id))]
            if len(calls) != 1:
                continue
            call = calls[0]
            used = {n.id for n in ast.walk(fn) if isinstance(n, ast.Name)} | {a.arg for a in fn.args.args}
            rec_name = 'rec' if 'rec' not in used else '%s__rec' % call.func.id
            node, children = 'node' if 'node' not in used else 'fold__node', 'children' if 'children' not in used else 'fold__children'

            def part(F, params):
                if isinstance(F, ast.Lambda) and len(F.args.args) == len(params):
                    return [ast.Return(value=_Subst(names={a.arg: _name(p) for a, p in zip(F.args.args, params)}).visit(_clone(F.body)))]
                if isinstance(F, ast.Name) and F.id in tops and tops[F.id] is not fn:
                    d = tops[F.id]
                    if len(d.args.args) == len(params) and not d.decorator_list and not d.args.vararg and not d.args.kwarg \
                            and not any(isinstance(n, (ast.Yield, ast.YieldFrom, ast.Global, ast.Nonlocal)) for n in ast.walk(d)):
                        stored = {n.id for n in ast.walk(d) if isinstance(n, ast.Name) and isinstance(n.ctx, ast.Store)}
                        if not (stored & {a.arg for a in d.args.args}):
                            ren = {a.arg: _name(p) for a, p in zip(d.args.args, params)}
                            return [_Subst(names=ren).visit(_clone(st_)) for st_ in d.body if not _is_doc(st_)]
                if isinstance(F, ast.Name):
                    return [ast.Return(value=ast.Call(func=_name(F.id), args=[_name(p) for p in params], keywords=[]))]
                return None
            leaf, inner = part(call.args[1], [node]), part(call.args[2], [node, children])
            if leaf is None or inner is None:
                continue
            comp = ast.ListComp(elt=ast.Call(func=_name(rec_name), args=[_name('child')], keywords=[]),
                                generators=[ast.comprehension(target=_name('child', ast.Store()), iter=ast.Attribute(value=_name(node), attr='children', ctx=ast.Load()), ifs=[], is_async=0)])
            rec_def = ast.FunctionDef(
                name=rec_name,
                args=ast.arguments(posonlyargs=[], args=[ast.arg(arg=node)], kwonlyargs=[], kw_defaults=[], defaults=[]),
                body=[ast.If(test=ast.Attribute(value=_name(node), attr='is_leaf', ctx=ast.Load()), body=leaf,
                             orelse=[ast.Assign(targets=[_name(children, ast.Store())], value=comp)] + inner)],
                decorator_list=[], returns=None, type_comment=None)
            if hasattr(ast, 'TypeVar'):
                rec_def.type_params = []
            call.func = _name(rec_name)
            call.args = [call.args[0]]
            body.insert(body.index(s), rec_def)
            for n in ast.walk(rec_def):
                if isinstance(n, (ast.stmt, ast.expr)) and not hasattr(n, 'lineno'):
                    n.lineno = n.end_lineno = s.lineno
                    n.col_offset = n.end_col_offset = 0
            ast.fix_missing_locations(fn)
            done.append('%s:%s' % (fn.name, rec_name))
    return done


# ---------------------------------------------------------------------------------------------------------------------
# a recursive walk shared by several writers, parameterised by functions
# ---------------------------------------------------------------------------------------------------------------------
def specialise_walkers(tree, resolve_def):
    """A module-level function that walks a tree recursively and takes what differs between its users as parameters --
    `_bracketed(node, leaf, label, separator)`, calling itself with the same leaf / label / separator for every child --
    is read, at each call site `W(E, a, b, c)` inside a function, as a closure of that function:
        def rec(node): <body of W with a, b, c for the invariant parameters and rec(x) for W(x, a, b, c)>
    and the call becomes rec(E).  Only when every recursive call hands the parameters 2.. on unchanged, the walker does
    not rebind them, and the arguments at the call site are names, constants or lambdas."""
    done = []
    for fn in [f for f in tree.body if isinstance(f, ast.FunctionDef)]:
        for body, i, s in list(_own_statements(fn)):
            if not isinstance(s, (ast.Return, ast.Assign, ast.Expr)) or getattr(s, 'value', None) is None:
                continue
            cands = []
            for c in ast.walk(s.value):
                if not (isinstance(c, ast.Call) and isinstance(c.func, ast.Name) and len(c.args) >= 2 and not c.keywords and not any(isinstance(a, ast.Starred) for a in c.args)):
                    continue
                d = resolve_def(c.func.id)
                if d is None or d is fn or not isinstance(d, ast.FunctionDef) or d.decorator_list or d.args.vararg or d.args.kwarg or d.args.kwonlyargs or d.args.defaults:
                    continue
                ps = [a.arg for a in d.args.args]
                if len(ps) != len(c.args):
                    continue
                recs = [r for r in ast.walk(d) if isinstance(r, ast.Call) and isinstance(r.func, ast.Name) and r.func.id == d.name]
                if not recs or any(r.keywords or len(r.args) != len(ps) or any(not (isinstance(a, ast.Name) and a.id == p) for a, p in zip(r.args[1:], ps[1:])) for r in recs):
                    continue
                if not any(isinstance(a, (ast.Name, ast.Lambda)) and not isinstance(a, ast.Constant) for a in c.args[1:]):
                    continue
                # at least one of the invariant parameters is called in the walker (a function parameter)
                called = {r.func.id for r in ast.walk(d) if isinstance(r, ast.Call) and isinstance(r.func, ast.Name)}
                if not (called & set(ps[1:])):
                    continue
                stored = {n.id for n in ast.walk(d) if isinstance(n, ast.Name) and isinstance(n.ctx, (ast.Store, ast.Del))}
                if stored & set(ps):
                    continue
                if any(isinstance(n, (ast.Yield, ast.YieldFrom, ast.Global, ast.Nonlocal)) for n in ast.walk(d)):
                    continue
                if not all(isinstance(a, (ast.Name, ast.Constant, ast.Lambda)) for a in c.args[1:]):
                    continue
                cands.append((c, d, ps))
            if len(cands) != 1:
                continue
            call, d, ps = cands[0]
            def own_names(f_):
                out_ = set()
                todo_ = list(f_.body)
                while todo_:
                    n_ = todo_.pop()
                    if isinstance(n_, (ast.FunctionDef, ast.Lambda, ast.ClassDef)):
                        if hasattr(n_, 'name'):
                            out_.add(n_.name)
                        continue        # the names inside a nested definition are its own
                    if isinstance(n_, ast.Name):
                        out_.add(n_.id)
                    todo_.extend(ast.iter_child_nodes(n_))
                return out_
            used = own_names(fn) | {a.arg for a in fn.args.args}
            rec_name = 'rec' if 'rec' not in used else '%s__rec' % d.name.strip('_')
            # locals of the walker that collide with names of the host get a prefix
            locals_ = {n.id for n in ast.walk(d) if isinstance(n, ast.Name) and isinstance(n.ctx, ast.Store)}
            ren = {v: _name('%s__%s' % (d.name.strip('_'), v)) for v in locals_ if v in used}
            for p, a in zip(ps[1:], call.args[1:]):
                ren[p] = a
            p0 = ps[0] if ps[0] not in used else ('node' if 'node' not in used and 'node' not in locals_ else '%s__%s' % (d.name.strip('_'), ps[0]))
            ren[ps[0]] = _name(p0)
            new_body = []
            for st_ in d.body:
                if _is_doc(st_):
                    continue
                c_ = _clone(st_)
                for r in [r for r in ast.walk(c_) if isinstance(r, ast.Call) and isinstance(r.func, ast.Name) and r.func.id == d.name]:
                    r.func = _name(rec_name)
                    r.args = [r.args[0]]
                new_body.append(_Subst(names=ren, stores=True).visit(c_))
            rec_def = ast.FunctionDef(name=rec_name, args=ast.arguments(posonlyargs=[], args=[ast.arg(arg=p0)], kwonlyargs=[], kw_defaults=[], defaults=[]),
                                      body=new_body, decorator_list=[], returns=None, type_comment=None)
            if hasattr(ast, 'TypeVar'):
                rec_def.type_params = []
            call.func = _name(rec_name)
            call.args = [call.args[0]]
            body.insert(body.index(s), rec_def)
            for n in ast.walk(rec_def):
                if isinstance(n, (ast.stmt, ast.expr)) and not hasattr(n, 'lineno'):
                    n.lineno = n.end_lineno = s.lineno
                    n.col_offset = n.end_col_offset = 0
            ast.fix_missing_locations(fn)
            done.append('%s:%s' % (fn.name, d.name))
    return done


# ---------------------------------------------------------------------------------------------------------------------
# properties added to Tree
# ---------------------------------------------------------------------------------------------------------------------
KNOWN_TREE_MEMBERS = {'cat', 'children', 'op_string', 'op_symbol', 'head_is_left', 'is_leaf', 'is_unary', 'child', 'left_child', 'right_child', 'leaves', 'tokens',
                      'token', 'word', 'nltk_tree', 'make_terminal', 'make_unary', 'make_binary', 'of_nltk_tree'}


def derived_tree_properties(tree_module_text):
    """read-only properties of class Tree that the reference tree does not have and that are one expression over `self`:
    {name: (self name, expression)} -- `head_index` = `0 if self.head_is_left else 1`"""
    try:
        raw = ast.parse(tree_module_text)
    except SyntaxError:
        return {}
    out = {}
    for c in raw.body:
        if isinstance(c, ast.ClassDef) and c.name == 'Tree':
            setters = {d.attr for f in c.body if isinstance(f, ast.FunctionDef) for d in f.decorator_list if isinstance(d, ast.Attribute) and d.attr in ('setter', 'deleter')}
            for f in c.body:
                if isinstance(f, ast.FunctionDef) and f.name not in KNOWN_TREE_MEMBERS and not f.name.startswith('_') and len(f.args.args) == 1 \
                        and [ast.unparse(d) for d in f.decorator_list] == ['property'] and f.name not in setters:
                    body = [s for s in f.body if not _is_doc(s)]
                    if len(body) == 1 and isinstance(body[0], ast.Return) and body[0].value is not None \
                            and not any(isinstance(n, (ast.Call, ast.Lambda, ast.Yield, ast.Await, ast.NamedExpr)) and not (
                                isinstance(n, ast.Call) and isinstance(n.func, ast.Name) and n.func.id in ('len', 'int', 'bool', 'str')) for n in ast.walk(body[0].value)):
                        out[f.name] = (f.args.args[0].arg, body[0].value)
    return out


def expand_derived_tree_properties(tree, props):
    """x.<new property of Tree> reads as the expression the property returns, with x for self (wherever a plain name or
    attribute chain is the receiver)"""
    if not props:
        return []
    done = []

    class _T(ast.NodeTransformer):
        def visit_Attribute(self, node):
            self.generic_visit(node)
            if isinstance(node.ctx, ast.Load) and node.attr in props:
                recv = node.value
                base = recv
                while isinstance(base, ast.Attribute):
                    base = base.value
                if isinstance(base, ast.Name):
                    me, expr = props[node.attr]
                    new = _Subst(names={me: recv}).visit(_clone(expr))
                    done.append(node.attr)
                    return ast.copy_location(new, node)
            return node
    for st in tree.body:
        if isinstance(st, ast.ClassDef) and st.name == 'Tree':
            continue        # the definitions themselves
        _T().visit(st)
    ast.fix_missing_locations(tree)
    return done


# ---------------------------------------------------------------------------------------------------------------------
# a module-level list assembled from named pieces
# ---------------------------------------------------------------------------------------------------------------------
def splice_starred_displays(tree):
    """`ALL = [*A, *B, x]` / `ALL = A + B` at module level, with A and B module-level list / tuple displays that are bound
    once and never changed (no method call, item store or rebinding anywhere in the module): ALL reads as the one display
    with the pieces written out in place."""
    binds = {}
    for st in tree.body:
        if isinstance(st, (ast.Assign, ast.AnnAssign)) and getattr(st, 'value', None) is not None:
            for t in (st.targets if isinstance(st, ast.Assign) else [st.target]):
                if isinstance(t, ast.Name):
                    binds.setdefault(t.id, []).append(st)
    touched = set()
    for n in ast.walk(tree):
        if isinstance(n, ast.Call) and isinstance(n.func, ast.Attribute) and isinstance(n.func.value, ast.Name) and n.func.attr in (
                'append', 'extend', 'insert', 'remove', 'pop', 'sort', 'reverse', 'clear', '__setitem__', '__delitem__'):
            touched.add(n.func.value.id)
        if isinstance(n, ast.Subscript) and isinstance(n.ctx, (ast.Store, ast.Del)) and isinstance(n.value, ast.Name):
            touched.add(n.value.id)
        if isinstance(n, ast.AugAssign) and isinstance(n.target, ast.Name):
            touched.add(n.target.id)
        if isinstance(n, (ast.Global, ast.Nonlocal)):
            touched.update(n.names)

    def piece(name, depth=0):
        if depth > 4 or name in touched or len(binds.get(name, [])) != 1:
            return None
        return elements(binds[name][0].value, depth + 1)

    def elements(v, depth=0):
        if isinstance(v, (ast.List, ast.Tuple)):
            out = []
            for e in v.elts:
                if isinstance(e, ast.Starred):
                    if not isinstance(e.value, ast.Name):
                        return None
                    sub = piece(e.value.id, depth)
                    if sub is None:
                        return None
                    out.extend(sub)
                else:
                    out.append(e)
            return out
        if isinstance(v, ast.BinOp) and isinstance(v.op, ast.Add):
            a, b = elements(v.left, depth), elements(v.right, depth)
            return None if a is None or b is None else a + b
        if isinstance(v, ast.Name):
            return piece(v.id, depth)
        return None
    done = []
    for name, sts in binds.items():
        if len(sts) != 1 or name in touched:
            continue
        v = sts[0].value
        composite = (isinstance(v, (ast.List, ast.Tuple)) and any(isinstance(e, ast.Starred) for e in v.elts)) or (isinstance(v, ast.BinOp) and isinstance(v.op, ast.Add))
        if not composite:
            continue
        els = elements(v)
        if els is None:
            continue
        new = ast.List(elts=[_clone(e) for e in els], ctx=ast.Load()) if not isinstance(v, ast.Tuple) else ast.Tuple(elts=[_clone(e) for e in els], ctx=ast.Load())
        sts[0].value = ast.copy_location(new, v)
        for e in new.elts:
            for n in ast.walk(e):
                if hasattr(n, 'lineno'):
                    pass
        ast.fix_missing_locations(sts[0])
        done.append(name)
    return done


# ---------------------------------------------------------------------------------------------------------------------
# a recursive function that returns the list of leaves
# ---------------------------------------------------------------------------------------------------------------------
def list_walks_to_generators(tree):
    """`def leaves(t): if t.is_functor: return leaves(t.left) + leaves(t.right); return [t.feature]` -- a recursive function
    whose every return is a list display or a concatenation of its own calls and list displays, and whose every use is
    walked once in order (for .. in f(x), enumerate(f(x)), list(f(x)), tuple(f(x)), f(x) + f(y) inside itself) -- is the
    generator that yields the same items in the same order: `yield from leaves(t.left); yield from leaves(t.right)` /
    `yield t.feature`."""
    done = []
    _link(tree)
    for fn in [f for f in ast.walk(tree) if isinstance(f, ast.FunctionDef)]:
        if fn.decorator_list or any(isinstance(n, (ast.Yield, ast.YieldFrom)) for n in ast.walk(fn)):
            continue
        rets = [r for r in ast.walk(fn) if isinstance(r, ast.Return)]
        selfcall = lambda e: isinstance(e, ast.Call) and isinstance(e.func, ast.Name) and e.func.id == fn.name

        def parts(e):
            if isinstance(e, ast.BinOp) and isinstance(e.op, ast.Add):
                a, b = parts(e.left), parts(e.right)
                return None if a is None or b is None else a + b
            if selfcall(e):
                return [('rec', e)]
            if isinstance(e, ast.List) and not any(isinstance(x, ast.Starred) for x in e.elts):
                return [('item', x) for x in e.elts]
            return None
        if not rets or any(r.value is None or parts(r.value) is None for r in rets) or not any(selfcall(n) for n in ast.walk(fn)):
            continue
        # every use outside the function's own returns is a single ordered walk
        host = getattr(fn, '_ofparent', None)
        scope = host if host is not None else tree
        uses = [n for n in ast.walk(scope) if isinstance(n, ast.Name) and n.id == fn.name and isinstance(n.ctx, ast.Load)]
        ok = True
        for u in uses:
            par = getattr(u, '_ofparent', None)
            if not (isinstance(par, ast.Call) and par.func is u):
                ok = False
                break
            if any(p_ is fn for p_ in _ancestors(u)):
                continue        # inside itself: a part of a return value (checked above)
            g = getattr(par, '_ofparent', None)
            walked = (isinstance(g, (ast.For, ast.comprehension)) and g.iter is par) or \
                (isinstance(g, ast.Call) and isinstance(g.func, ast.Name) and g.func.id in ('enumerate', 'list', 'tuple', 'sorted', 'zip', 'iter', 'sum', 'max', 'min', 'any', 'all') and par in g.args) or \
                (isinstance(g, ast.Call) and isinstance(g.func, ast.Attribute) and g.func.attr in ('join', 'extend') and par in g.args)
            if not walked:
                ok = False
                break
        if not ok or not uses:
            continue

        class _R(ast.NodeTransformer):
            def visit_FunctionDef(self, node):
                if node is fn:
                    self.generic_visit(node)
                return node

            def visit_Lambda(self, node):
                return node

            def visit_Return(self, node):
                new = []
                for kind, e in parts(node.value):
                    v = ast.YieldFrom(value=e) if kind == 'rec' else ast.Yield(value=e)
                    new.append(ast.copy_location(ast.Expr(value=v), node))
                new.append(ast.copy_location(ast.Return(value=None), node))
                return new
        _R().visit(fn)
        ast.fix_missing_locations(fn)
        done.append(fn.name)
    return done


def _ancestors(n):
    p = getattr(n, '_ofparent', None)
    while p is not None:
        yield p
        p = getattr(p, '_ofparent', None)


# ---------------------------------------------------------------------------------------------------------------------
# a table of small records
# ---------------------------------------------------------------------------------------------------------------------
def split_record_tables(tree):
    """A module-level dictionary whose values are all `K(..)` with K a NamedTuple class of this module (fields with
    optional constant / named defaults), and which is only ever read as `a, b = TABLE[key]` (all fields at once) or
    `TABLE[key].field`: read as one dictionary per field -- TABLE keeps the first field, `TABLE__<field>` holds the
    others -- with the reads rewritten accordingly.  (`_formatters = {'auto': _TreeFormat(auto_of), 'conll':
    _TreeFormat(conll_of, HEADER)}` is a table of encoders plus a table of headers.)"""
    classes = {}
    for c in tree.body:
        if isinstance(c, ast.ClassDef) and any(ast.unparse(b) in ('NamedTuple', 'typing.NamedTuple') for b in c.bases):
            fields = [(s.target.id, s.value) for s in c.body if isinstance(s, ast.AnnAssign) and isinstance(s.target, ast.Name)]
            if fields and not any(isinstance(s, ast.FunctionDef) for s in c.body):
                classes[c.name] = fields
    done = []
    if not classes:
        return done
    _link(tree)
    for st in list(tree.body):
        if not (isinstance(st, (ast.Assign, ast.AnnAssign)) and isinstance(getattr(st, 'value', None), ast.Dict)):
            continue
        tgt = st.targets[0] if isinstance(st, ast.Assign) and len(st.targets) == 1 else (st.target if isinstance(st, ast.AnnAssign) else None)
        if not isinstance(tgt, ast.Name) or not st.value.values:
            continue
        vals = st.value.values
        if not all(isinstance(v, ast.Call) and isinstance(v.func, ast.Name) and v.func.id in classes and not any(isinstance(a, ast.Starred) for a in v.args) for v in vals):
            continue
        kname = vals[0].func.id
        if any(v.func.id != kname for v in vals) or any(k is None for k in st.value.keys):
            continue
        fields = classes[kname]
        cols = []
        ok = True
        for v in vals:
            row = {}
            for (fname, dflt), a in zip(fields, v.args):
                row[fname] = a
            for kw in v.keywords:
                if kw.arg is None:
                    ok = False
                else:
                    row[kw.arg] = kw.value
            for fname, dflt in fields:
                if fname not in row:
                    if dflt is None:
                        ok = False
                    else:
                        row[fname] = dflt
            cols.append(row)
        if not ok:
            continue
        # every use of the table
        uses = [n for n in ast.walk(tree) if isinstance(n, ast.Name) and n.id == tgt.id and isinstance(n.ctx, ast.Load)]
        plans = []
        for u in uses:
            sub = getattr(u, '_ofparent', None)
            if not (isinstance(sub, ast.Subscript) and sub.value is u and isinstance(sub.ctx, ast.Load)):
                ok = False
                break
            up = getattr(sub, '_ofparent', None)
            if isinstance(up, ast.Assign) and up.value is sub and len(up.targets) == 1 and isinstance(up.targets[0], ast.Tuple) \
                    and len(up.targets[0].elts) == len(fields) and all(isinstance(e, ast.Name) for e in up.targets[0].elts):
                plans.append(('unpack', up, sub))
            elif isinstance(up, ast.Attribute) and up.value is sub and up.attr in [f for f, _ in fields] and isinstance(up.ctx, ast.Load):
                plans.append(('field', up, sub))
            else:
                ok = False
                break
        if not ok or not plans:
            continue
        names = [tgt.id] + ['%s__%s' % (tgt.id, f) for f, _ in fields[1:]]
        # the tables
        new_tables = []
        for i, (fname, _d) in enumerate(fields):
            d = ast.Dict(keys=[_clone(k) for k in st.value.keys], values=[_clone(row[fname]) for row in cols])
            if i == 0:
                st.value = ast.copy_location(d, st.value)
            else:
                new_tables.append(ast.copy_location(ast.Assign(targets=[_name(names[i], ast.Store())], value=d), st))
        pos = tree.body.index(st)
        tree.body[pos + 1:pos + 1] = new_tables
        for kind, node, sub in plans:
            if kind == 'unpack':
                holder = getattr(node, '_ofparent', None)
                for attr in ('body', 'orelse', 'finalbody', 'handlers'):
                    blk = getattr(holder, attr, None)
                    if isinstance(blk, list) and node in blk:
                        j = blk.index(node)
                        repl = []
                        for i, e in enumerate(node.targets[0].elts):
                            s2 = ast.Subscript(value=_name(names[i]), slice=_clone(sub.slice), ctx=ast.Load())
                            repl.append(ast.copy_location(ast.Assign(targets=[_name(e.id, ast.Store())], value=s2), node))
                        blk[j:j + 1] = repl
                        break
            else:
                i = [f for f, _ in fields].index(node.attr)
                new = ast.Subscript(value=_name(names[i]), slice=_clone(sub.slice), ctx=ast.Load())
                par = getattr(node, '_ofparent', None)
                for fld, val in ast.iter_fields(par):
                    if val is node:
                        setattr(par, fld, ast.copy_location(new, node))
                    elif isinstance(val, list) and node in val:
                        val[val.index(node)] = ast.copy_location(new, node)
        ast.fix_missing_locations(tree)
        _link(tree)
        done.append(tgt.id)
    return done


# ---------------------------------------------------------------------------------------------------------------------
# a classifier that names the kind of a value with an enum member
# ---------------------------------------------------------------------------------------------------------------------
def inline_kind_dispatch(tree):
    """`kind = K(x)` followed by tests `kind is E.A` / `kind == E.A`, where E is an Enum of this module and K a function
    of this module of the shape
        def K(x): [if <test on x>: return E.M]*  return TABLE.get(x, E.D)        (or a final `return E.D`)
    with TABLE a module-level dictionary from one-character texts to members of E (a display, or the comprehension
    `{c: m for cs, m in ((text, E.M), ..) for c in cs}`): every test on `kind` reads as the condition under which K
    answers that member -- the earlier tests of K failing and its own test holding; for the table, membership of x in the
    text of the characters mapped to that member."""
    enums = {c.name: [t.id for s in c.body if isinstance(s, ast.Assign) for t in s.targets if isinstance(t, ast.Name)]
             for c in tree.body if isinstance(c, ast.ClassDef) and any(ast.unparse(b) in ('enum.Enum', 'Enum', 'enum.IntEnum', 'IntEnum') for b in c.bases)}
    if not enums:
        return []

    def member(e):
        if isinstance(e, ast.Attribute) and isinstance(e.value, ast.Name) and e.value.id in enums and e.attr in enums[e.value.id]:
            return (e.value.id, e.attr)
        return None
    tables = {}
    for st in tree.body:
        if isinstance(st, ast.Assign) and len(st.targets) == 1 and isinstance(st.targets[0], ast.Name):
            v = st.value
            mp = None
            if isinstance(v, ast.Dict) and v.keys and all(isinstance(k, ast.Constant) and isinstance(k.value, str) and member(x) for k, x in zip(v.keys, v.values)):
                mp = [(k.value, member(x)) for k, x in zip(v.keys, v.values)]
            elif isinstance(v, ast.DictComp) and len(v.generators) == 2 and not any(g.ifs for g in v.generators):
                g1, g2 = v.generators
                if isinstance(g1.target, ast.Tuple) and len(g1.target.elts) == 2 and all(isinstance(e, ast.Name) for e in g1.target.elts) and isinstance(g1.iter, (ast.Tuple, ast.List)) \
                        and isinstance(g2.target, ast.Name) and isinstance(g2.iter, ast.Name) and g2.iter.id == g1.target.elts[0].id \
                        and isinstance(v.key, ast.Name) and v.key.id == g2.target.id and isinstance(v.value, ast.Name) and v.value.id == g1.target.elts[1].id \
                        and all(isinstance(p, ast.Tuple) and len(p.elts) == 2 and isinstance(p.elts[0], ast.Constant) and isinstance(p.elts[0].value, str) and member(p.elts[1]) for p in g1.iter.elts):
                    mp = [(ch, member(p.elts[1])) for p in g1.iter.elts for ch in p.elts[0].value]
            if mp is not None and all(len(k) == 1 for k, _ in mp) and len({k for k, _ in mp}) == len(mp):
                tables[st.targets[0].id] = mp
    classifiers = {}
    for fn in [f for f in tree.body if isinstance(f, ast.FunctionDef)]:
        if len(fn.args.args) != 1 or fn.decorator_list:
            continue
        x = fn.args.args[0].arg
        body = [s for s in fn.body if not _is_doc(s)]
        cases = []
        ok = bool(body)
        for s in body[:-1]:
            if isinstance(s, ast.If) and not s.orelse and len(s.body) == 1 and isinstance(s.body[0], ast.Return) and s.body[0].value is not None and member(s.body[0].value):
                cases.append((s.test, member(s.body[0].value)))
            else:
                ok = False
        last = body[-1] if body else None
        default = None
        if ok and isinstance(last, ast.Return) and last.value is not None:
            lv = last.value
            if member(lv):
                default = member(lv)
            elif isinstance(lv, ast.Call) and isinstance(lv.func, ast.Attribute) and lv.func.attr == 'get' and isinstance(lv.func.value, ast.Name) and lv.func.value.id in tables \
                    and len(lv.args) == 2 and isinstance(lv.args[0], ast.Name) and lv.args[0].id == x and member(lv.args[1]):
                by_member = {}
                for ch, m in tables[lv.func.value.id]:
                    by_member.setdefault(m, []).append(ch)
                for m, chs in by_member.items():
                    cases.append((ast.Compare(left=_name(x), ops=[ast.In()], comparators=[ast.Constant(value=''.join(chs))]), m))
                default = member(lv.args[1])
            else:
                ok = False
        else:
            ok = False
        if ok and default is not None and cases:
            classifiers[fn.name] = (x, cases, default)
    if not classifiers:
        return []
    done = []
    for fn in [f for f in ast.walk(tree) if isinstance(f, ast.FunctionDef) and f.name not in classifiers]:
        binds = {}
        for a in ast.walk(fn):
            if isinstance(a, ast.Assign) and len(a.targets) == 1 and isinstance(a.targets[0], ast.Name) and isinstance(a.value, ast.Call) and isinstance(a.value.func, ast.Name) \
                    and a.value.func.id in classifiers and len(a.value.args) == 1 and not a.value.keywords and isinstance(a.value.args[0], ast.Name):
                binds.setdefault(a.targets[0].id, []).append(a)
        for v, assigns in binds.items():
            stores = [n for n in ast.walk(fn) if isinstance(n, ast.Name) and n.id == v and isinstance(n.ctx, ast.Store)]
            if len(assigns) != 1 or len(stores) != 1:
                continue
            a = assigns[0]
            x, cases, default = classifiers[a.value.func.id]
            arg = a.value.args[0].id
            if any(isinstance(n, ast.Name) and n.id == arg and isinstance(n.ctx, ast.Store) and getattr(n, 'lineno', 0) > a.lineno for n in ast.walk(fn)):
                continue
            uses = [n for n in ast.walk(fn) if isinstance(n, ast.Name) and n.id == v and isinstance(n.ctx, ast.Load)]

            def cond_for(m):
                alts = []
                for k, (t, mm) in enumerate(cases):
                    if mm != m:
                        continue
                    parts = [ast.UnaryOp(op=ast.Not(), operand=_Subst(names={x: _name(arg)}).visit(_clone(t2))) for t2, _ in cases[:k] if not (isinstance(t2, ast.Compare) and isinstance(t2.comparators[0], ast.Constant) and isinstance(t, ast.Compare) and isinstance(t.comparators[0], ast.Constant))]
                    parts.append(_Subst(names={x: _name(arg)}).visit(_clone(t)))
                    alts.append(parts[0] if len(parts) == 1 else ast.BoolOp(op=ast.And(), values=parts))
                if m == default:
                    parts = [ast.UnaryOp(op=ast.Not(), operand=_Subst(names={x: _name(arg)}).visit(_clone(t2))) for t2, _ in cases]
                    alts.append(parts[0] if len(parts) == 1 else ast.BoolOp(op=ast.And(), values=parts))
                if not alts:
                    return ast.Constant(value=False)
                return alts[0] if len(alts) == 1 else ast.BoolOp(op=ast.Or(), values=alts)
            _link(fn)
            plan = []
            good = True
            for u in uses:
                par = getattr(u, '_ofparent', None)
                if isinstance(par, ast.Compare) and par.left is u and len(par.ops) == 1 and isinstance(par.ops[0], (ast.Is, ast.Eq, ast.IsNot, ast.NotEq)) and member(par.comparators[0]):
                    c = cond_for(member(par.comparators[0]))
                    if isinstance(par.ops[0], (ast.IsNot, ast.NotEq)):
                        c = ast.UnaryOp(op=ast.Not(), operand=c)
                    plan.append((par, c))
                else:
                    good = False
            if not good or not plan:
                continue
            for par, c in plan:
                holder = getattr(par, '_ofparent', None)
                for fld, val in ast.iter_fields(holder):
                    if val is par:
                        setattr(holder, fld, ast.copy_location(c, par))
                    elif isinstance(val, list) and par in val:
                        val[val.index(par)] = ast.copy_location(c, par)
            ast.fix_missing_locations(fn)
            done.append('%s:%s' % (fn.name, v))
    return done
