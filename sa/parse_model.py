"""Role discovery and site extraction for depccg/parsing.h::parse_sentence.

Names of locals are *discovered* from types and data flow (the matrix built
from the tag-score parameter, the vector filled from the per-word queue's top,
...), so the rules in the property checks are phrased over roles, not names.
"""
from . import cxx
from .cxx import term, show, strip, linear, show_linear, subterms, simplify_cond
from .core import AnalysisError

H = cxx.HEADER


def canon(t):
    """Canonical text: +/- chains are flattened and sorted, the rest is structural."""
    if not isinstance(t, tuple) or not t:
        return repr(t)
    if not isinstance(t[0], str):
        return '(' + ', '.join(canon(x) for x in t) + ')'
    k = t[0]
    if k == 'bin' and t[1] in ('+', '-'):
        lin = {}

        def add(x, sign):
            if x[0] == 'bin' and x[1] in ('+', '-'):
                add(x[2], sign)
                add(x[3], sign if x[1] == '+' else -sign)
            elif x[0] == 'lit' and isinstance(x[1], (int, float)) and not isinstance(x[1], bool):
                lin['#'] = lin.get('#', 0) + sign * x[1]
            else:
                c = canon(x)
                lin[c] = lin.get(c, 0) + sign
        add(t, 1)
        nz = [(key, c) for key, c in sorted(lin.items()) if c != 0]
        if len(nz) == 1 and nz[0][0] != '#' and nz[0][1] == 1:
            return nz[0][0]
        if len(nz) == 1 and nz[0][0] == '#':
            return '%g' % nz[0][1]
        parts = []
        for key, c in nz:
            if key == '#':
                parts.append('%+g' % c)
            else:
                parts.append(('+' if c > 0 else '-') + (('%g*' % abs(c)) if abs(c) != 1 else '') + key)
        return '[' + ' '.join(parts) + ']' if parts else '0'
    if k == 'bin' and t[1] in ('==', '!=', '&&', '||', '*'):
        a, b = sorted([canon(t[2]), canon(t[3])])
        return '(%s %s %s)' % (a, t[1], b)
    if k == 'bin' and t[1] in ('>', '>='):
        return '(%s %s %s)' % (canon(t[3]), {'>': '<', '>=': '<='}[t[1]], canon(t[2]))
    if k == 'bin':
        return '(%s %s %s)' % (canon(t[2]), t[1], canon(t[3]))
    if k == 'var':
        return t[1]
    if k == 'lit':
        return show(t)
    if k == 'mem':
        return '%s.%s' % (canon(t[1]), t[2])
    if k == 'addr':
        return '&' + canon(t[1])
    if k == 'deref':
        return '*' + canon(t[1])
    if k == 'call':
        return '%s(%s)' % (t[1], ', '.join(canon(a) for a in t[2]))
    if k == 'mcall':
        return '%s.%s(%s)' % (canon(t[1]), t[2], ', '.join(canon(a) for a in t[3]))
    if k == 'idx':
        return '%s[%s]' % (canon(t[1]), ', '.join(canon(a) for a in t[2]))
    if k == 'un':
        return '%s(%s)' % (t[1], canon(t[2]))
    if k == 'cond':
        return '(%s ? %s : %s)' % (canon(t[1]), canon(t[2]), canon(t[3]))
    if k == 'init':
        return '{%s}' % ', '.join(canon(a) for a in t[1])
    if k == 'ctor':
        return '%s(%s)' % (t[1], ', '.join(canon(a) for a in t[2]))
    return show(t)


def flin(t):
    """Linear form of a float expression with canonical atoms."""
    out = {}

    def add(x, sign):
        if x[0] == 'bin' and x[1] in ('+', '-'):
            add(x[2], sign)
            add(x[3], sign if x[1] == '+' else -sign)
        elif x[0] == 'un' and x[1] == '-':
            add(x[2], -sign)
        elif x[0] == 'lit' and isinstance(x[1], (int, float)) and not isinstance(x[1], bool):
            if x[1] != 0:
                out['#const'] = out.get('#const', 0) + sign * x[1]
        else:
            key = canon(x)
            out[key] = out.get(key, 0) + sign
    add(t, 1)
    return {k: v for k, v in out.items() if v != 0}


def V(name):
    return ('var', name)


def M(base, field):
    return ('mem', base, field)


def IDX(obj, *args):
    return ('idx', obj, tuple(args))


def ADD(*xs):
    t = xs[0]
    for x in xs[1:]:
        t = ('bin', '+', t, x)
    return t


def SUB(a, b):
    return ('bin', '-', a, b)


def LIT(v):
    return ('lit', v)


def unaddr(t):
    return t[1] if isinstance(t, tuple) and t and t[0] == 'addr' else t


class Site(object):
    def __init__(self, node, fields, ctx):
        self.node = node
        self.f = fields          # field name -> term
        self.ctx = ctx
        self.kind = None
        self.line = node.line

    def where(self):
        return '%s:%s parse_sentence' % (H, self.line)


class Paths(object):
    """Path summaries of a small C++ function body."""

    def __init__(self, fn, env=None):
        self.fn = fn
        self.env = env or cxx.Env(fn)
        self.paths = []     # (conds [(term, bool)], effects [term], ret term|None)
        self._walk(cxx.body_of(fn).kids, [], [])

    def _walk(self, stmts, conds, effects):
        """returns True if all paths through stmts returned"""
        stmts = list(stmts)
        while stmts:
            s = stmts.pop(0)
            k = s.kind
            if k == 'CompoundStmt':
                stmts = list(s.kids) + stmts
            elif k == 'ReturnStmt':
                ret = term(s.kids[0], self.env) if s.kids else None
                self.paths.append((list(conds), list(effects), ret))
                return True
            elif k == 'IfStmt':
                c = term(s.kids[0], self.env)
                then = s.kids[1]
                els = s.kids[2] if len(s.kids) > 2 else None
                r1 = self._walk([then] + stmts, conds + [(c, True)], effects)
                r2 = self._walk(([els] if els is not None else []) + stmts, conds + [(c, False)], effects)
                return r1 and r2
            elif k in ('DeclStmt', 'NullStmt'):
                for d in s.find('VarDecl'):
                    init = self.env.init_of(d)
                    if init is not None and not self.env.inlinable(d):
                        effects = effects + [('decl', d.name, term(init, self.env))]
            elif k in ('ForStmt', 'WhileStmt', 'CXXForRangeStmt', 'DoStmt'):
                effects = effects + [('loop', s.line)]
            else:
                effects = effects + [term(s, self.env)]
        self.paths.append((list(conds), list(effects), None))
        return False


class ParseModel(object):
    def __init__(self, repo):
        self.decls = cxx.load(repo)
        self.ps = self.decls['parse_sentence']
        self.env = cxx.Env(self.ps)
        self.env.functions = {k[3:]: v for k, v in self.decls.items() if k.startswith('fn:')}
        # functions / static member functions that build a chart item field by field stand for its initialiser list
        self.env.records = {'cell_item': cxx.fields_of(self.decls['cell_item'])}
        self.env.static_builders = {k.name: k for k in self.decls['cell_item'].kids if k.kind == 'CXXMethodDecl'
                                    and any(c.kind == 'CompoundStmt' for c in k.kids) and k.storage == 'static'}
        self.env.alias_inline = True
        self.item_fields = cxx.fields_of(self.decls['cell_item'])
        self.result_fields = cxx.fields_of(self.decls['combinator_result'])
        self.config_fields = cxx.fields_of(self.decls['config'])
        self._roles()
        self._sites()

    # ------------------------------------------------------------------
    def T(self, n):
        return term(n, self.env)

    def _roles(self):
        ps, env = self.ps, self.env
        params = cxx.params_of(ps)
        if len(params) != 11:
            raise AnalysisError('%s: parse_sentence has %d parameters, expected 11' % (H, len(params)))
        names = [p.name for p in params]
        (self.p_tag, self.p_dep, self.p_len, self.p_roots, self.p_bin, self.p_un,
         self.p_fin, self.p_scaffold, self.p_finargs, self.p_cache, self.p_config) = names
        self.body = cxx.body_of(ps)
        self.top = list(self.body.kids)
        locals_ = {}
        for st in self.top:
            if st.kind == 'DeclStmt':
                for d in st.kids:
                    if d.kind == 'VarDecl':
                        locals_[d.name] = d
        self.locals = locals_

        def ctor_args(d):
            init = env.init_of(d)
            if init is None:
                return None
            t = term(init, env)
            if t[0] == 'ctor':
                return t[2]
            return (t,)

        self.TAG = self.DEP = None
        self.square = []
        for name, d in locals_.items():
            if (d.type or '').endswith('parsing::matrix') or d.type == 'parsing::matrix':
                a = ctor_args(d)
                if a and a[0] == V(self.p_tag):
                    self.TAG, self.TAG_dims = name, a[1:]
                elif a and a[0] == V(self.p_dep):
                    self.DEP, self.DEP_dims = name, a[1:]
                else:
                    self.square.append((name, a))
        if not self.TAG or not self.DEP:
            raise AnalysisError('%s: score matrices over the tag/dep parameters not found' % H)
        self.member_init = {}
        self.estimate = self._estimate_object(locals_, ctor_args)
        self._queue_subclasses(locals_)
        self.agenda = self._one_local(lambda d: 'priority_queue<parsing::cell_item' in (d.type or '') or (d.dtype or '').startswith('std::priority_queue<parsing::cell_item'),
                                      'agenda (priority_queue<cell_item>)')
        per_word = [n for n, d in locals_.items() if 'vector<std::priority_queue<' in (d.type or '') or 'vector<std::priority_queue<' in (d.dtype or '')]
        if not per_word:
            # one candidate queue for all words, declared at function scope and never emptied between words
            shared = [n for n, d in locals_.items() if (d.dtype or d.type or '').replace(' ', '').startswith('std::priority_queue<')
                      and 'cell_item' not in (d.dtype or d.type or '')]
            if len(shared) == 1:
                q = shared[0]
                emptied = False
                for n_ in ps.walk():
                    if n_.kind in ('BinaryOperator', 'CXXOperatorCallExpr') and any(x.kind == 'DeclRefExpr' and x.ref == q for x in (n_.kids[:2] if n_.kids else [])) \
                            and (n_.op == '=' or (n_.kids and strip(n_.kids[0]).ref == 'operator=')):
                        emptied = True
                    if n_.kind == 'CXXMemberCallExpr' and strip(n_.kids[0]).name in ('swap', 'clear') and strip(n_.kids[0]).kids and strip(strip(n_.kids[0]).kids[0]).ref == q:
                        emptied = True
                if not emptied:
                    from .core import StructuralViolation
                    raise StructuralViolation('R-model', '%s:%s parse_sentence' % (H, locals_[q].line), 'scored:shared-queue',
                                              'the candidate tags of all words go through the one queue `%s`, which is never emptied between words: what a word left behind '
                                              '(tags beyond pruning_size or below its threshold) competes with the next word\'s own tags and can be seeded as that word\'s '
                                              'supertag with the other word\'s score' % q)
        if not per_word:
            # the candidates of a word kept in a plain vector and "ranked" by std::nth_element: that call only puts the
            # element at the split position in place -- the block before it is not ordered, so front() is not the best tag
            # and walking the block in index order is not walking the candidates best first
            for n_ in ps.walk():
                if n_.kind == 'CallExpr' and n_.kids and strip(n_.kids[0]).ref == 'nth_element':
                    base = [x for x in n_.kids[1].walk() if x.kind == 'DeclRefExpr' and x.refkind == 'VarDecl'] if len(n_.kids) > 1 else []
                    names_ = {x.ref for x in base}
                    def other_branch(a_, b_):
                        # a_ and b_ sit in different branches of one if: only one of them runs
                        for anc in a_.ancestors():
                            if anc.kind == 'IfStmt' and len(anc.kids) >= 3:
                                ina = [any(y is a_ for y in k_.walk()) for k_ in anc.kids[1:3]]
                                inb = [any(y is b_ for y in k_.walk()) for k_ in anc.kids[1:3]]
                                if (ina[0] and inb[1]) or (ina[1] and inb[0]):
                                    return True
                        return False
                    resorted = any(c_.kind == 'CallExpr' and c_.kids and strip(c_.kids[0]).ref in ('sort', 'partial_sort', 'stable_sort') and c_.line > n_.line
                                   and names_ & {x.ref for x in c_.walk() if x.kind == 'DeclRefExpr'} and not other_branch(n_, c_) for c_ in ps.walk())
                    reads_front = any(c_.kind == 'CXXMemberCallExpr' and strip(c_.kids[0]).name in ('front', 'begin') and c_.line > n_.line for c_ in ps.walk()) or True
                    if not resorted and reads_front:
                        from .core import StructuralViolation
                        raise StructuralViolation('R-model', '%s:%s parse_sentence' % (H, n_.line), 'scored:nth-element',
                                                  'the supertags of a word are selected with std::nth_element and then read in index order (front(), [i]): nth_element '
                                                  'only places the element at the split position, the selected block is unordered -- the best score the beta threshold '
                                                  'is derived from and the order in which candidates are admitted are not those of the ranking')
        self.scored = self._one_local(lambda d: 'vector<std::priority_queue<' in (d.type or '') or 'vector<std::priority_queue<' in (d.dtype or ''),
                                      'per-word candidate queues')
        # desugared type of the candidate queues (aliases resolved): the comparator decides what top() means
        self.scored_type = (locals_[self.scored].dtype or locals_[self.scored].type or '') if self.scored in locals_ else ''
        charts = [n for n, d in locals_.items() if (d.type or '') == 'parsing::chart']
        self.chart = self.goal = None
        self.chart_args = {}
        for n in charts:
            a = ctor_args(locals_[n])
            self.chart_args[n] = a
            if a and a[0] == V(self.p_len):
                self.chart = n
            elif a and a[0] == LIT(1):
                self.goal = n
        # the finished parses may also be collected in a bare cell (all of them span the sentence)
        self.goal_is_cell = False
        if self.chart and not self.goal:
            cells = [n for n, d in locals_.items() if (d.type or '').replace('struct ', '').replace('class ', '') in ('parsing::chart::cell', 'chart::cell')]
            if len(cells) == 1:
                self.goal = cells[0]
                self.goal_is_cell = True
                self.chart_args[self.goal] = None
        # ... or in a plain standard list of items
        self.goal_is_list = False
        if self.chart and not self.goal:
            import re as _re
            lists = [n for n, d in locals_.items() if _re.match(r'^std::list<(parsing::)?cell_item(,std::allocator<(parsing::)?cell_item>)?>$',
                                                                (d.dtype or d.type or '').replace(' ', ''))]
            if len(lists) == 1:
                self.goal = lists[0]
                self.goal_is_cell = True
                self.goal_is_list = True
                self.chart_args[self.goal] = None
        if not self.chart or not self.goal:
            raise AnalysisError('%s: chart(length, ..) / goal chart(1, ..) not found' % H)

        # lambdas wrapping the grammar callbacks
        self.lam = {}
        for name, d in locals_.items():
            if (d.type or '').startswith('(lambda'):
                lam = d.find('LambdaExpr')
                if not lam:
                    continue
                refs = {n.ref for n in lam[0].find('DeclRefExpr')}
                asks = any(strip(c_.kids[0]).ref == self.p_scaffold for c_ in lam[0].find('CallExpr') if c_.kids)
                via_lambda = any(strip(c_.kids[1]).ref in locals_ and (locals_[strip(c_.kids[1]).ref].type or '').startswith('(lambda')
                                 for c_ in lam[0].find('CXXOperatorCallExpr') if len(c_.kids) >= 2 and strip(c_.kids[0]).ref == 'operator()')
                # ... or forwards it, with the scaffold, to a helper function of the header that asks
                # (a thin wrapper: its body is `return helper(...)`; a lambda that uses the looked-up rules itself is not one)
                body_ = [k_ for k_ in lam[0].walk() if k_.kind == 'CompoundStmt']
                thin = bool(body_) and len(body_[0].kids) == 1 and body_[0].kids[0].kind == 'ReturnStmt'
                via_fn = thin and any(strip(c_.kids[0]).ref and ('fn:' + strip(c_.kids[0]).ref) in self.decls
                                      and self.p_scaffold in {x.ref for a_ in c_.kids[1:] for x in a_.walk() if x.kind == 'DeclRefExpr'}
                                      for c_ in lam[0].find('CallExpr') if c_.kids)
                if not asks and not via_lambda and not via_fn:
                    continue            # uses a callback without asking it (e.g. hands it to a lookup function)
                if self.p_bin in refs:
                    self.lam['binary'] = name
                elif self.p_un in refs:
                    self.lam['unary'] = name
        # ... or one lookup function (at namespace scope) that gets the callback as an argument
        self.lookup_fn = None
        self.lookup_obj = None
        if set(self.lam) != {'binary', 'unary'}:
            for key, fnode in self.decls.items():
                if not key.startswith('fn:'):
                    continue
                fps = [p_.name for p_ in cxx.params_of(fnode)]
                fenv = cxx.Env(fnode)
                for c in fnode.find('CallExpr'):
                    callee = strip(c.kids[0])
                    if callee.ref in fps and len(c.kids) == 5:
                        a = [term(x, fenv) for x in c.kids[1:]]
                        if all(x[0] == 'var' and x[1] in fps for x in a[:3]):
                            self.lookup_fn = {'name': key[3:], 'node': fnode, 'params': fps, 'scaffold': callee.ref,
                                              'cb': a[0][1], 'x': a[1][1], 'y': a[2][1]}
            # ... or a local object of a small header class whose methods ask the callbacks it was constructed with
            self.lookup_obj = None
            if self.lookup_fn is None:
                self.lookup_obj = self._find_lookup_object(locals_, ctor_args)
            if self.lookup_fn is None and self.lookup_obj is None:
                raise AnalysisError('%s: callback lambdas / rule lookup function / rule lookup object not found' % H)

        # outside-estimate plumbing: compute_outside_probabilities(vec, length, mat)
        self.outside = []   # (vec, mat)
        for st in self.top:
            if st.kind == 'CallExpr':
                t = term(st, env)
                if t[1] == 'compute_outside_probabilities' and len(t[2]) == 3:
                    self.outside.append((t[2][0], t[2][1], t[2][2], st))
        if self.estimate:
            self.outside += self.estimate['outside']
        if len(self.outside) != 2:
            raise AnalysisError('%s: expected 2 compute_outside_probabilities calls, found %d'
                                % (H, len(self.outside)))
        # top-level loops
        self.loops = [st for st in self.top if st.kind == 'ForStmt']
        if len(self.loops) < 3:
            raise AnalysisError('%s: expected at least 3 top-level for loops (initialisation, leaves, search), found %d'
                                % (H, len(self.loops)))
        # roles: the search loop is the last one, the seeding loop the one before it, every loop before that initialises
        # per-token tables (one loop, or one per table)
        # a loop nest that only tabulates an expression of two outside tables -- M(i, j) = f(i, j) for all 0 <= i <= j <=
        # length -- defines a derived table: uses M(a, b) read as f(a, b)
        self.derived = {}
        self.derived_loops = []
        for st in list(self.loops):
            d_ = self._derived_table(st)
            if d_ is not None:
                self.derived[d_[0]] = d_[1:]
                self.derived_loops.append(st)
                self.loops.remove(st)
        if len(self.loops) < 3:
            raise AnalysisError('%s: expected at least 3 top-level for loops (initialisation, leaves, search), found %d'
                                % (H, len(self.loops)))
        self.main_loop = self.loops[-1]
        self.leaf_loop = self.loops[-2]
        self.init_loops = self.loops[:-2]
        self.init_loop = self.init_loops[0]
        self._init_loop_roles()

    def _estimate_object(self, locals_, ctor_args):
        """A local of a small header class whose constructor computes the outside tables (and keeps them, the best-score
        vector and its sum as members) is read as the locals it groups: member M of object o becomes the local `o::M`,
        a member initialised by moving / copying a vector of the caller is that vector, the compute_outside_probabilities
        calls of the constructor body happen where the object is declared, and o.method(args) reads as the method's
        return expression.  -> dict or None"""
        def unmove(t):
            while t and t[0] == 'call' and str(t[1]).split('::')[-1] in ('move', 'forward') and len(t[2]) == 1:
                t = t[2][0]
            if t and t[0] == 'ctor' and len(t[2]) == 1 and 'vector' in (t[1] or ''):
                return unmove(t[2][0])       # a copy of a vector
            return t
        sized = {}
        for n_, d_ in locals_.items():
            if 'vector<' in (d_.type or ''):
                a_ = ctor_args(d_)
                if a_ and a_[0] == V(self.p_len):
                    sized[n_] = True

        def norm_size(t):
            if not isinstance(t, tuple):
                return t
            t = tuple(norm_size(x) for x in t)
            if t and t[0] == 'mcall' and t[2] == 'size' and not t[3] and t[1][0] == 'var' and t[1][1] in sized:
                return V(self.p_len)
            return t
        for name, d in locals_.items():
            cname = (d.type or '').replace('const ', '').replace('parsing::', '').replace('class ', '').replace('struct ', '').strip()
            rec = self.decls.get(cname)
            if rec is None or rec.kind != 'CXXRecordDecl' or cname in ('chart', 'matrix', 'cell_item', 'config', 'cell'):
                continue
            args = ctor_args(d)
            if not args:
                continue
            ctors = [k for k in rec.kids if k.kind == 'CXXConstructorDecl' and any(c.kind == 'CompoundStmt' for c in k.kids)
                     and len([p_ for p_ in k.kids if p_.kind == 'ParmVarDecl']) == len(args)]
            if len(ctors) != 1:
                continue
            ct = ctors[0]
            body = cxx.body_of(ct)
            calls = [st for st in body.kids if st.kind == 'CallExpr']
            cenv = cxx.Env(ct)
            fields = [k for k in rec.kids if k.kind == 'FieldDecl']
            active = any(term(st, cenv)[1] == 'compute_outside_probabilities' for st in calls)
            # ... or a plain record of the tables that the caller fills itself (o.tag, o.best_dep[t] = ..): its members
            # are read as locals all the same
            passive = not active and not body.kids and sum(1 for f_ in fields if 'matrix' in (f_.type or '')) == 2
            if not active and not passive:
                continue
            cparams = [p_.name for p_ in ct.kids if p_.kind == 'ParmVarDecl']
            bind = {V(p_): unmove(a_) for p_, a_ in zip(cparams, args)}
            member = {}

            def resolve(t):
                t = cxx.subst(t, {('mem', ('this',), m_): v_ for m_, v_ in member.items()})
                return norm_size(unmove(cxx.subst(t, bind)))
            sums, squares = [], []
            for ini in [c for c in ct.kids if c.kind == 'CXXCtorInitializer']:
                if not ini.kids:
                    continue
                t = resolve(term(ini.kids[0], cenv))
                syn = '%s::%s' % (name, ini.name)
                while t[0] == 'call' and str(t[1]).startswith(('static_cast', 'unsigned', 'size_t')) and len(t[2]) == 1:
                    t = t[2][0]
                if t[0] == 'var' and (t[1] in locals_ or t[1] == self.p_len):
                    member[ini.name] = t                      # the caller's vector, moved / copied in (or the sentence length)
                elif t[0] == 'ctor' and 'matrix' in (t[1] or ''):
                    member[ini.name] = V(syn)
                    squares.append((syn, t[2]))
                elif t[0] == 'call' and str(t[1]).split('::')[-1] == 'accumulate' and len(t[2]) == 3 and t[2][0][0] == 'mcall' and t[2][0][2] == 'begin' \
                        and t[2][1] == ('mcall', t[2][0][1], 'end', ()):
                    member[ini.name] = V(syn)
                    sums.append((syn, t[2][0][1], t[2][2]))
                else:
                    member[ini.name] = V(syn)
                    self.member_init[syn] = t
            # locals of the constructor body (`const unsigned length = v.size();`) are inlined by its environment
            decl_stmt = [st for st in self.top if st.kind == 'DeclStmt' and any(k is d for k in st.kids)]
            if not decl_stmt:
                continue
            outside = []
            for st in calls:
                t = term(st, cenv)
                if t[1] == 'compute_outside_probabilities' and len(t[2]) == 3:
                    a_ = [resolve(x) for x in t[2]]
                    outside.append((a_[0], a_[1], a_[2], decl_stmt[0]))
            methods = {}
            for k in rec.kids:
                if k.kind == 'CXXMethodDecl' and any(c.kind == 'CompoundStmt' for c in k.kids) and not (k.name or '').startswith('operator'):
                    body_t = cxx.summarise_callable(k)
                    if body_t is not None:
                        methods[k.name] = ([p_.name for p_ in cxx.params_of(k)], resolve(body_t))
            if (active and len(outside) != 2) or not methods:
                continue
            for syn, dims in squares:
                self.square.append((syn, dims))
                locals_[syn] = d
            for syn, _, _ in sums:
                locals_[syn] = d
            for syn in self.member_init:
                locals_.setdefault(syn, d)
            # outside the class its members are reached as o.member: the same locals
            self.env.flat_objects = dict(getattr(self.env, 'flat_objects', {}), **{name: {f_.name: member.get(f_.name, V('%s::%s' % (name, f_.name))) for f_ in fields}})
            # the object's accessors only read: a local initialised by one of them is the expression it returns
            cxx.PURE_METHODS.update(methods)
            return {'name': name, 'outside': outside, 'methods': methods, 'sums': sums, 'decl': d}
        return None

    def agenda_comparator(self):
        """-> (function node, label) of the ordering the agenda uses: operator< on cell_item for the default comparator
        (std::less), or the call operator of the functor named as the queue's third template argument; (None, why)
        when it cannot be identified"""
        import re as _re
        d = self.locals[self.agenda]
        t = (d.dtype or d.type or '').replace(' ', '')
        mm = _re.match(r'^std::priority_queue<(?:parsing::)?cell_item(?:,std::vector<(?:parsing::)?cell_item(?:,std::allocator<(?:parsing::)?cell_item>)?>(?:,(.+))?)?>$', t)
        if not mm:
            return None, 'agenda has type %s' % (d.type,)
        comp = mm.group(1)
        if comp is None or _re.match(r'^std::less<((parsing::)?cell_item|void)?>$', comp):
            fn = self.decls.get('operator<')
            if fn is None:
                meth = [k for k in self.decls['cell_item'].kids if k.kind == 'CXXMethodDecl' and k.name == 'operator<'
                        and any(c.kind == 'CompoundStmt' for c in k.kids)]
                fn = meth[0] if meth else None
            return (fn, 'operator<') if fn is not None else (None, 'no operator< is defined for cell_item')
        name = comp.replace('parsing::', '').replace('struct', '').replace('class', '')
        rec = self.decls.get(name)
        if rec is None or rec.kind != 'CXXRecordDecl':
            return None, 'agenda is ordered by %s' % comp
        meth = [k for k in rec.kids if k.kind == 'CXXMethodDecl' and k.name == 'operator()' and any(c.kind == 'CompoundStmt' for c in k.kids)]
        if len(meth) != 1:
            return None, '%s has no call operator' % name
        return meth[0], name + '::operator()'

    def pair_comparator(self, name):
        """the ordering of a pair-like record: its member operator< or the free operator< declared for it"""
        rec = self.decls.get(name)
        if rec is not None:
            meth = [k for k in rec.kids if k.kind == 'CXXMethodDecl' and k.name == 'operator<' and any(c.kind == 'CompoundStmt' for c in k.kids)]
            if meth:
                return meth[0]
        return self.decls.get('lt:' + name)

    def _derived_table(self, loop):
        """-> (M, i, j, expr) when `loop` is  for i in [0, length]: for j in [i or 0, length]: M(i, j) = expr  over a local
        (length+1) x (length+1) matrix M, expr free of M and of effects; else None"""
        env = self.env
        try:
            vi, lo_i, cond_i, step_i, body_i = self._loop_header(loop)
        except AnalysisError:
            return None
        full = lambda v, c: canon(c) in (canon(('bin', '<', V(v), ADD(V(self.p_len), LIT(1)))), canon(('bin', '<=', V(v), V(self.p_len))))
        if lo_i != LIT(0) or not step_i or not full(vi, cond_i):
            return None
        inner = body_i
        while inner.kind == 'CompoundStmt' and len(inner.kids) == 1:
            inner = inner.kids[0]
        if inner.kind != 'ForStmt':
            return None
        try:
            vj, lo_j, cond_j, step_j, body_j = self._loop_header(inner)
        except AnalysisError:
            return None
        if lo_j not in (LIT(0), V(vi)) or not step_j or not full(vj, cond_j):
            return None
        stmt = body_j
        while stmt.kind == 'CompoundStmt' and len(stmt.kids) == 1:
            stmt = stmt.kids[0]
        n = strip(stmt)
        tgt = val = None
        if n.kind == 'BinaryOperator' and n.op == '=':
            tgt, val = term(n.kids[0], env), term(n.kids[1], env)
        elif n.kind == 'CXXOperatorCallExpr' and strip(n.kids[0]).ref == 'operator=':
            tgt, val = term(n.kids[1], env), term(n.kids[2], env)
        if tgt is None or tgt[0] != 'idx' or tgt[1][0] != 'var' or tgt[2] != (V(vi), V(vj)):
            return None
        name = tgt[1][1]
        if name not in [x for x, _ in self.square]:
            return None
        # M may appear in its own defining expression only as the cell being written (an update in place, each cell once:
        # `M(i, j) = T(i, j) + M(i, j)`): later reads of M(a, b) are then the expression at (a, b) over the table as it was
        own_cells = sum(1 for x in cxx.subterms(val) if x == tgt)
        if sum(1 for x in cxx.subterms(val) if x == V(name)) != own_cells:
            return None
        if any(x[0] in ('call', 'mcall', 'assign') for x in cxx.subterms(val) if isinstance(x, tuple) and x):
            return None
        return name, vi, vj, val

    def expand_derived(self, t):
        """M(a, b) of a derived table -> its defining expression at (a, b)"""
        est = getattr(self, 'estimate', None)
        if (not self.derived and not est) or not isinstance(t, tuple):
            return t

        def go(x):
            if not isinstance(x, tuple):
                return x
            x = tuple(go(y) for y in x)
            if est and x and x[0] == 'mcall' and x[1] == V(est['name']) and x[2] in est['methods'] and len(x[3]) == len(est['methods'][x[2]][0]):
                ps_, body_ = est['methods'][x[2]]
                return cxx.subst(body_, {V(p_): a_ for p_, a_ in zip(ps_, x[3])})
            if x and x[0] == 'idx' and x[1][0] == 'var' and x[1][1] in self.derived and len(x[2]) == 2:
                vi, vj, expr = self.derived[x[1][1]]
                return cxx.subst(expr, {V(vi): x[2][0], V(vj): x[2][1]})
            return x
        return go(t)

    def _find_lookup_object(self, locals_, ctor_args):
        for name, d in locals_.items():
            cname = (d.type or '').replace('parsing::', '').replace('class ', '').replace('struct ', '').strip()
            rec = self.decls.get(cname)
            if rec is None or rec.kind != 'CXXRecordDecl' or cname in ('chart', 'matrix', 'cell_item', 'config'):
                continue
            args = ctor_args(d)
            if not args:
                continue
            ctors = [k for k in rec.kids if k.kind == 'CXXConstructorDecl' and any(c.kind == 'CXXCtorInitializer' for c in k.kids)
                     and len([p_ for p_ in k.kids if p_.kind == 'ParmVarDecl']) == len(args)]
            if len(ctors) != 1:
                continue
            cparams = [p_.name for p_ in ctors[0].kids if p_.kind == 'ParmVarDecl']
            member = {}
            for ini in [c for c in ctors[0].kids if c.kind == 'CXXCtorInitializer']:
                refs = [x.ref for x in ini.walk() if x.kind == 'DeclRefExpr' and x.ref in cparams]
                if len(refs) == 1:
                    member[ini.name] = args[cparams.index(refs[0])]
            # the method that asks: calls through a member bound to the scaffold parameter
            asks = []
            for meth in [k for k in rec.kids if k.kind == 'CXXMethodDecl' and any(c.kind == 'CompoundStmt' for c in k.kids)]:
                menv = cxx.Env(meth)
                mps = [p_.name for p_ in cxx.params_of(meth)]
                for c in meth.find('CallExpr'):
                    callee = strip(c.kids[0])
                    if callee.kind == 'MemberExpr' and member.get(callee.name) == V(self.p_scaffold) and len(c.kids) == 5:
                        a = [term(x, menv) for x in c.kids[1:]]
                        asks.append({'node': meth, 'name': meth.name, 'params': mps, 'cb': a[0], 'x': a[1], 'y': a[2], 'scaffold_member': callee.name})
            if not asks:
                continue
            cache_members = [k for k, v in member.items() if v == V(self.p_cache)]
            if len(cache_members) != 1:
                continue
            return {'local': name, 'record': rec, 'class': cname, 'member': member, 'asks': asks, 'cache_member': cache_members[0]}
        return None

    def _members_resolved(self, t):
        lo = self.lookup_obj
        mp = {('mem', ('this',), k): v for k, v in lo['member'].items()}
        return cxx.subst(t, mp)

    def _object_lookup(self, t):
        """rules.binary(x, y) on the lookup object -> (callback term, x, y) by following its forwarding methods"""
        lo = self.lookup_obj
        meth, args = t[2], t[3]
        for _ in range(4):
            nodes = [k for k in lo['record'].kids if k.kind == 'CXXMethodDecl' and k.name == meth and any(c.kind == 'CompoundStmt' for c in k.kids)]
            if len(nodes) != 1:
                return None
            node = nodes[0]
            ps = [p_.name for p_ in cxx.params_of(node)]
            if len(ps) != len(args):
                return None
            b = {('var', p_): a for p_, a in zip(ps, args)}
            hit = [a for a in lo['asks'] if a['node'] is node]
            if hit:
                a = hit[0]
                return tuple(self._members_resolved(cxx.subst(a[k_], b)) for k_ in ('cb', 'x', 'y'))
            P = Paths(node, cxx.Env(node))
            if len(P.paths) != 1 or P.paths[0][1] or P.paths[0][2] is None:
                return None
            r = P.paths[0][2]
            if r[0] != 'mcall' or r[1] != ('this',):
                return None
            args = tuple(cxx.subst(x, b) for x in r[3])
            args = tuple(lo['member'].get(x[2], x) if (x[0] == 'mem' and x[1] == ('this',)) else x for x in args)
            meth = r[2]
        return None

    def rules_call(self, t):
        """canonical spelling of a rule lookup: ('call', 'rules:binary', (x, y)) / ('call', 'rules:unary', (x,)); other
        terms are returned unchanged (recursively inside deref)"""
        if t is None:
            return t
        if t[0] == 'deref':
            return ('deref', self.rules_call(t[1]))
        if t[0] == 'call' and isinstance(t[1], str):
            for kind in ('binary', 'unary'):
                if kind in self.lam and t[1] == 'lambda:' + self.lam[kind]:
                    return ('call', 'rules:' + kind, t[2])
            lf = self.lookup_fn
            if lf is not None and t[1] == lf['name'] and len(t[2]) == len(lf['params']):
                b = dict(zip(lf['params'], t[2]))
                cb = b[lf['cb']]
                if cb == V(self.p_bin):
                    return ('call', 'rules:binary', (b[lf['x']], b[lf['y']]))
                if cb == V(self.p_un):
                    y = b[lf['y']]
                    const_y = not [x for x in cxx.subterms(y) if x[0] in ('var', 'mem', 'call', 'mcall', 'idx')]
                    return ('call', 'rules:unary' if const_y else 'rules:unary-with-second-id', (b[lf['x']],))
        lo = getattr(self, 'lookup_obj', None)
        if lo is not None and t[0] == 'mcall' and t[1] == V(lo['local']):
            r = self._object_lookup(t)
            if r is not None:
                cb, x, y = r
                if cb == V(self.p_bin):
                    return ('call', 'rules:binary', (x, y))
                if cb == V(self.p_un):
                    const_y = not [z for z in cxx.subterms(y) if z[0] in ('var', 'mem', 'call', 'mcall', 'idx')]
                    return ('call', 'rules:unary' if const_y else 'rules:unary-with-second-id', (x,))
        return t

    def _queue_subclasses(self, locals_):
        """A local whose class derives from std::priority_queue<..> and adds no data is that queue -- provided every member function
        it redefines hands its arguments on to the queue's own, unconditionally.  A redefinition that does anything else (a push that
        drops items, a pop that skips) is reported: every rule below reads `q.push(x)` as "x is in the queue"."""
        from .core import StructuralViolation
        for name, d in list(locals_.items()):
            tname = (d.type or '').replace('const ', '').replace('class ', '').replace('struct ', '').strip(' &*').split('::')[-1]
            rec = self.decls.get(tname) if hasattr(self, 'decls') else None
            if rec is None or not isinstance(rec, cxx.N) or rec.kind != 'CXXRecordDecl' or not (rec.type or '').startswith('bases:'):
                continue
            bases = rec.type[6:].split(';')
            dbases = (rec.dtype or rec.type)[6:].split(';')
            if len(bases) != 1 or 'priority_queue<' not in dbases[0] + bases[0]:
                continue
            if [k for k in rec.kids if k.kind == 'FieldDecl']:
                raise AnalysisError('%s:%s %s: a queue class with data members of its own' % (H, rec.line, tname))
            for m in rec.kids:
                if m.kind != 'CXXMethodDecl' or not any(c.kind == 'CompoundStmt' for c in m.kids) or m.name.startswith('operator'):
                    continue
                ps = [p_.name for p_ in m.kids if p_.kind == 'ParmVarDecl']
                body = cxx.body_of(m)
                fwd = []
                for st_ in body.kids:
                    x = cxx.strip(st_)
                    if x.kind == 'ReturnStmt' and x.kids:
                        x = cxx.strip(x.kids[0])
                    if x.kind == 'CXXMemberCallExpr' and x.kids and cxx.strip(x.kids[0]).kind == 'MemberExpr' and cxx.strip(x.kids[0]).name == m.name \
                            and any(y.kind == 'CXXThisExpr' for y in x.kids[0].walk()):
                        args = [cxx.strip(a_) for a_ in x.kids[1:]]
                        if [a_.ref for a_ in args if a_.kind == 'DeclRefExpr'] == ps and len(args) == len(ps):
                            fwd.append(st_)
                jumps = [y for y in body.walk() if y.kind in ('ReturnStmt', 'CXXThrowExpr', 'GotoStmt') and not any(y is f_ or f_ in list(y.walk()) or y in list(f_.walk()) for f_ in fwd)]
                if len(fwd) != 1 or jumps:
                    raise StructuralViolation('R-model', '%s:%s %s::%s' % (H, m.line, tname, m.name), 'agenda:%s:redefined' % m.name,
                                              '`%s` (line %s) is a %s whose %s() is redefined and does not simply hand its argument%s to the queue\'s own %s on every path: '
                                              'an item the search pushes may never be in the agenda (or one it pops may not be the best), so the parse that would '
                                              'have been found through it is lost or a worse one is returned' % (name, d.line, tname, m.name, 's' if len(ps) != 1 else '', m.name))
            d.type = bases[0]
            d.dtype = dbases[0]

    def _one_local(self, pred, what):
        c = [n for n, d in self.locals.items() if pred(d)]
        if len(c) != 1:
            raise AnalysisError('%s: cannot identify %s (candidates: %s)' % (H, what, c))
        return c[0]

    def _loop_header(self, loop):
        """-> (var, lo_term, cond_term, step_ok)"""
        init, cond, inc, body = cxx.for_parts(loop)
        vds = init.find('VarDecl')
        if len(vds) != 1:
            raise AnalysisError('%s:%s for-init is not one declaration' % (H, loop.line))
        vd = vds[0]
        lo = term(self.env.init_of(vd), self.env)
        c = term(cond, self.env)
        i = strip(inc)
        step_ok = (i.kind == 'UnaryOperator' and i.op == '++' and strip(i.kids[0]).ref == vd.name)
        return vd.name, lo, c, step_ok, body

    def _init_loop_roles(self):
        env = self.env
        var, lo, cond, step_ok, body = self._loop_header(self.init_loop)
        self.init_var = var
        self.init_header = (lo, cond, step_ok)
        self.init_headers = []
        self.BT = self.BD = self.DALL = None
        self.init_assigns = []
        self.init_vars = {}
        for loop in self.init_loops:
            v_i, lo_i, cond_i, step_i, body_i = self._loop_header(loop)
            ren = {('var', v_i): ('var', var)}
            self.init_vars[id(loop)] = v_i
            self.init_headers.append((loop, lo_i, cxx.subst(cond_i, ren), step_i))
            for n in body_i.walk():
                tgt = val = op = None
                if n.kind in ('BinaryOperator', 'CompoundAssignOperator') and n.op in ('=', '+=', '-='):
                    tgt, val, op = term(n.kids[0], env), term(n.kids[1], env), n.op
                elif n.kind == 'CXXOperatorCallExpr' and strip(n.kids[0]).ref in ('operator=', 'operator+='):
                    tgt, val, op = term(n.kids[1], env), term(n.kids[2], env), strip(n.kids[0]).ref[8:]
                if tgt is None:
                    continue
                # all initialisation loops run over the same token index: spell it with the first loop's variable
                self.init_assigns.append((cxx.subst(tgt, ren), op, cxx.subst(val, ren), n))
        best_tag = M(('mcall', IDX(V(self.scored), V(var)), 'top', ()), 'first')
        self.best_tag_term = best_tag
        argmax = ('mcall', V(self.DEP), 'argmax', (V(var),))
        best_dep = IDX(V(self.DEP), V(var), argmax)
        self.best_dep_term = best_dep
        for tgt, op, val, n in self.init_assigns:
            if tgt[0] == 'idx' and tgt[2] == (V(var),) and op == '=':
                if canon(val) == canon(best_tag):
                    self.BT = tgt[1][1]
                elif canon(val) == canon(best_dep):
                    self.BD = tgt[1][1]
            elif tgt[0] == 'var' and op == '+=':
                if canon(val) == canon(best_dep) or (self.BD and canon(val) == canon(IDX(V(self.BD), V(var)))):
                    self.DALL = tgt[1]
        # ... or the sum of the finished BD vector: D_all = std::accumulate(BD.begin(), BD.end(), 0)
        self.DALL_sum = None
        if self.DALL is None and self.BD:
            for name, d in self.locals.items():
                init = env.init_of(d)
                t = term(init, env) if init is not None else None
                if t is not None and t[0] == 'call' and t[1] in ('accumulate', 'std::accumulate') and len(t[2]) == 3 \
                        and t[2][0] == ('mcall', V(self.BD), 'begin', ()) and t[2][1] == ('mcall', V(self.BD), 'end', ()):
                    self.DALL, self.DALL_sum = name, t[2][2]
        if self.DALL is None and self.BD and getattr(self, 'estimate', None):
            for syn, vec, init0 in self.estimate['sums']:
                if vec == V(self.BD):
                    self.DALL, self.DALL_sum = syn, init0
        # which outside matrix belongs to which vector
        self.T_OUT = self.D_OUT = None
        for vec, ln, mat, st in self.outside:
            if vec == V(self.BT) if self.BT else False:
                self.T_OUT = mat[1]
            elif vec == V(self.BD) if self.BD else False:
                self.D_OUT = mat[1]

    # ------------------------------------------------------------------
    def _sites(self):
        env = self.env
        self.sites = []
        self.opaque_pushes = []
        for n in self.ps.find('CXXMemberCallExpr'):
            callee = strip(n.kids[0])
            if callee.name not in ('push', 'emplace'):
                continue
            obj = term(callee.kids[0], env)
            if obj != V(self.agenda):
                continue
            if len(n.kids) != 2:
                raise AnalysisError('%s:%s agenda push with %d arguments' % (H, n.line, len(n.kids) - 1))
            # a push inside a local helper lambda is instantiated once per call of that lambda
            lam_owner = None
            for a in n.ancestors():
                if a.kind == 'LambdaExpr':
                    vd = a.parent
                    while vd is not None and vd.kind != 'VarDecl':
                        vd = vd.parent
                    lam_owner = vd
                    break
            if lam_owner is None:
                self._add_site(n, term(n.kids[1], env), cxx.context(n, env, stop=self.body), {})
                continue
            op = env.lambdas.get(lam_owner.name)
            if op is None:
                self.opaque_pushes.append((n, ('var', lam_owner.name)))
                continue
            lenv = cxx.Env(op)
            lenv.functions = env.functions
            lenv.records = getattr(env, 'records', None)
            lenv.static_builders = getattr(env, 'static_builders', {})
            lenv.alias_inline = True
            lenv.lambdas = env.lambdas
            params = [p.name for p in cxx.params_of(op)]
            inner_arg = term(n.kids[1], lenv)
            inner_ctx = cxx.context(n, lenv, stop=cxx.body_of(op))
            calls = []
            for c in self.ps.find('CXXOperatorCallExpr'):
                if len(c.kids) >= 2 and strip(c.kids[0]).ref == 'operator()' and strip(c.kids[1]).kind == 'DeclRefExpr' \
                        and strip(c.kids[1]).ref == lam_owner.name and not any(a is op for a in c.ancestors()):
                    calls.append(c)
            if not calls:
                continue        # a helper that is never called pushes nothing
            for c in calls:
                args = [term(a, env) for a in c.kids[2:]]
                if len(args) != len(params):
                    raise AnalysisError('%s:%s call of %s with %d arguments' % (H, c.line, lam_owner.name, len(args)))
                mp = {('var', p): a for p, a in zip(params, args)}
                outer_ctx = cxx.context(c, env, stop=self.body)
                ictx = []
                for it in inner_ctx:
                    if it[0] == 'if':
                        ictx.append(('if', self._sub(it[1], mp), it[2], it[3]))
                    elif it[0] == 'range':
                        ictx.append(('range', it[1], self._sub(it[2], mp) if it[2] is not None else None, it[3]))
                    elif it[0] == 'while':
                        ictx.append(('while', self._sub(it[1], mp), it[2]))
                    else:
                        ictx.append(it)
                self._add_site(n, self._sub(inner_arg, mp), outer_ctx + ictx, mp, line=c.line)
        self.by_kind = {}
        for s in self.sites:
            self.by_kind.setdefault(s.kind, []).append(s)

    @staticmethod
    def _sub(t, mp):
        t = cxx.subst(t, mp)
        # &x followed by member access: renormalise (param was a pointer, argument is &other)
        def fix(x):
            if not isinstance(x, tuple):
                return x
            x = tuple(fix(y) for y in x)
            if x and x[0] == 'mem' and isinstance(x[1], tuple) and x[1] and x[1][0] in ('addr', 'deref'):
                return ('mem', x[1][1], x[2])
            return x
        return fix(t)

    def _add_site(self, n, arg, ctx, mp, line=None):
        if arg[0] == 'ctor' and len(arg[2]) == 1:
            arg = arg[2][0]
        if arg[0] != 'init':
            # not analysable as a record literal: remember it; the per-kind floors turn this into an
            # ANALYSIS-ERROR unless a rule (e.g. item immutability) already explains it as a violation
            self.opaque_pushes.append((n, arg))
            return
        vals = [self.expand_derived(v) for v in arg[1]]
        if len(vals) > len(self.item_fields):
            raise AnalysisError('%s:%s initialiser list longer than cell_item' % (H, n.line))
        while len(vals) < len(self.item_fields):
            vals.append(LIT(0))
        site = Site(n, dict(zip(self.item_fields, vals)), ctx)
        if line is not None:
            site.line = line
        self._classify(site)
        self.sites.append(site)

    def _classify(self, s):
        f = s.f
        if f['fin'] == LIT(True):
            s.kind = 'goal'
        elif f['left'] == LIT(None) and f['right'] == LIT(None):
            s.kind = 'leaf'
        elif f['right'] == LIT(None):
            s.kind = 'unary'
        else:
            s.kind = 'binary'

    # ------------------------------------------------------------------
    def in_loop(self, site):
        for p in site.node.ancestors():
            if p in self.loops:
                return p
        return None

    def main_pop(self):
        """The popped item variable and the expanded chart-entry variable of the search loop.

        -> dict(top=<name>, item=<name>, update_args=<terms>, guard=<if node>)"""
        env = self.env
        body = cxx.for_parts(self.main_loop)[3]
        top = None
        for d in body.find('VarDecl'):
            init = env.init_of(d)
            if init is not None and canon(term(init, env)) == canon(('mcall', V(self.agenda), 'top', ())):
                top = d
        if top is None:
            raise AnalysisError('%s: search loop does not read agenda.top()' % H)
        return top
