"""C18 -- printing is an observation."""
import ast

from ..core import AnalysisError, src, qualname_of, enclosing_function, parents
from .. import effects
from ..rules_pyx import N, MUTATORS as rp_MUTATORS
from ..pysym import show

EXPLANATION = (
    'May-alias / effect analysis of every function of depccg/printer/*.py and of the Tree accessors they use (R18.1): '
    'parameters and everything reached from them through attributes, subscripts, iteration, unpacking, dict/list '
    'accessors and shallow constructors (list, dict, zip, enumerate, sorted ...: fresh container, shared elements) are '
    'caller-visible; any attribute/item store, delete, augmented assignment or mutating method on such a value is a '
    'violation; writes to containers created in the encoder, to lxml elements it created, and to `self` of helper '
    'classes defined in the printer package are allowed.  R18.2: Tree stores attributes only in __init__; no printer '
    'writes module-level state.  An embedded positive example (a snippet that renames a token key) must fire on every '
    'run so the zero-findings outcome is not vacuous.  Decides the property for the encoders\' own code under this '
    'model of which calls return fresh objects; lxml / ccg2lambda internals are not analysed.'
    ' Module-level objects of the printer modules (buffers, caches) may not be written to by any function, through local aliases either.'
    ' Third round: the module-state rule also covers depccg/utils.py, tree.py, cat.py and types.py (a memo shared by normalize / denormalize).'
    ' Fourth round: objects created in a class body are shared by all instances: methods that consume or change them are reported like writes to module-level objects.'
    ' Fifth round: printers calling a setter of module-level state elsewhere in the package; vars(x) is x.'
    ' Sixth and seventh round: entries of module-level tables, default arguments and in-place updates count as module state; no clock / random / identity value is read while rendering; to_string does not reorder.'
    ' Eighth round: next(NAME) on a module-level iterator is module state.'
    " Ninth and tenth round: a container the enclosing function builds from the result holds the result's objects (popping from it is the printer's business, changing what was popped is not); the list-valued views of Tree are built anew on every path.")
TRUSTED = ['CPython ast', 'sa/pysym.py path walker', 'alias model in sa/effects.py (shallow constructors, element-returning methods)']

POSITIVE_EXAMPLE = '''
def encode(trees):
    for sentence_index, parsed in enumerate(trees):
        tokens = parsed[0].tree.tokens
        for token_index, (token, cat) in enumerate(zip(tokens, [1, 2])):
            fresh = dict(token)
            fresh['surf'] = fresh.pop('word')
            if 'word' in token:
                token['surf'] = token.pop('word')
'''


def printer_functions(repo):
    out = []
    for rel in repo.py_files('depccg/printer'):
        mod = repo.module(rel)
        helper_classes = {n.name for n in mod.tree.body if isinstance(n, ast.ClassDef)}
        for fn in [n for n in ast.walk(mod.tree) if isinstance(n, ast.FunctionDef)]:
            cls = getattr(fn, '_parent', None)
            is_method = isinstance(cls, ast.ClassDef)
            out.append((mod, fn, is_method))
    return out


def tainted_params(fn, is_method):
    a = fn.args
    names = [x.arg for x in a.posonlyargs + a.args + a.kwonlyargs]
    if a.vararg:
        names.append(a.vararg.arg)
    if a.kwarg:
        names.append(a.kwarg.arg)
    if is_method and names and names[0] == 'self':
        names = names[1:]
    # an output stream / xml parent handed down by the encoder itself is not a parse result
    return names


from ..core import enclosing_function as core_enclosing


def free_tainted(fn):
    """names of enclosing functions' parameters that a nested function can see"""
    out = set()
    p = getattr(fn, '_parent', None)
    while p is not None:
        if isinstance(p, ast.FunctionDef):
            for x in p.args.args:
                if x.arg != 'self':
                    out.add(x.arg)
        p = getattr(p, '_parent', None)
    return out


def free_containers(fn, tainted):
    """locals of the enclosing functions that a nested function sees and that were built there from the parse result without
    copying its objects (`tokens = list(enumerate(tree.tokens))`, `todo = tree.tokens[:]`): the container is the printer's own,
    what it holds is not."""
    out = set()
    p = getattr(fn, '_parent', None)
    while p is not None:
        if isinstance(p, ast.FunctionDef):
            known = set(tainted) | {a.arg for a in p.args.args if a.arg != 'self'}
            for _ in range(3):
                for a in ast.walk(p):
                    if not (isinstance(a, ast.Assign) and len(a.targets) == 1 and isinstance(a.targets[0], ast.Name) and core_enclosing(a) is p):
                        continue
                    v = a.value
                    shallow = isinstance(v, (ast.ListComp, ast.SetComp, ast.GeneratorExp, ast.DictComp, ast.Attribute, ast.Subscript, ast.Name, ast.List, ast.Tuple, ast.Dict)) or \
                        (isinstance(v, ast.Call) and isinstance(v.func, ast.Name) and v.func.id in effects.SHALLOW) or \
                        (isinstance(v, ast.Call) and isinstance(v.func, ast.Attribute) and v.func.attr in effects.ELEMENT_METHODS | {'copy'})
                    if shallow and any(isinstance(x, ast.Name) and x.id in known | out for x in ast.walk(v)):
                        out.add(a.targets[0].id)
        p = getattr(p, '_parent', None)
    own = {a.arg for a in fn.args.args} | {x.id for x in ast.walk(fn) if isinstance(x, ast.Name) and isinstance(x.ctx, ast.Store)}
    return out - own - set(tainted)


def r_tree_views_fresh(repo, rep, R='R18.1'):
    """the list-valued views of a tree (`tokens`, `leaves`) are built anew for every caller: printers consume them (pop, enumerate and
    pop) as work lists of their own.  A path that hands out a list the tree itself holds (`return self.children`) makes that
    consumption empty the node."""
    mod = repo.module('depccg/tree.py')
    cls = mod.get('Tree')
    n = 0
    for m in [x for x in cls.body if isinstance(x, ast.FunctionDef)]:
        listy = m.name in ('tokens', 'leaves') or (m.returns is not None and src(m.returns).startswith(('List[', 'list[', 'typing.List[')))
        if not listy or m.name.startswith('__'):
            continue
        n += 1
        held = []
        for r in [x for x in ast.walk(m) if isinstance(x, ast.Return) and x.value is not None]:
            v = r.value
            if isinstance(v, ast.Name):
                binds = [a for a in ast.walk(m) if isinstance(a, ast.Assign) and any(isinstance(t, ast.Name) and t.id == v.id for t in a.targets)]
                if len(binds) == 1:
                    v = binds[0].value
            if isinstance(v, ast.Attribute) and isinstance(v.value, ast.Name) and v.value.id == 'self':
                held.append((r, src(v)))
        rep.check(not held, R, '%s:%s Tree.%s' % (mod.rel, held[0][0].lineno if held else m.lineno, m.name), 'Tree.%s:fresh-list' % m.name,
                  'Tree.%s builds the list it returns' % m.name,
                  'Tree.%s returns `%s`, a list the node itself holds: a printer that consumes the view (xml pops the tokens it has written) '
                  'empties the node, and every later rendering of the same result fails' % (m.name, held[0][1] if held else ''))
    rep.floor('list-valued views of Tree', n, 2)
    return n


def r_printers_pure(repo, rep, R1='R18.1', R2='R18.2', consequence='a later rendering sees the changed object'):
    """no printer function stores into, deletes from or calls a mutating method on a value that may be (or contain) an object of the parse result"""
    n = 0
    fns = printer_functions(repo)
    # private module-level helpers (a closure moved out of its function) get the taint of their arguments at the call
    # sites inside the module instead of "every parameter is a parse result": a work list built by the caller for this
    # call is not caller-visible, whatever it is named
    helpers = {}
    for mod, fn, is_method in fns:
        top = isinstance(getattr(fn, '_parent', None), ast.Module)
        if top and fn.name.startswith('_') and not fn.name.endswith('__'):
            used = [c for c in ast.walk(mod.tree) if isinstance(c, ast.Call) and isinstance(c.func, ast.Name) and c.func.id == fn.name
                    and not any(p_ is fn for p_ in parents(c))]
            exported = any(isinstance(x, ast.Name) and x.id == fn.name and not isinstance(getattr(x, '_parent', None), ast.Call)
                           for x in ast.walk(mod.tree))
            if used and not exported:
                helpers[(mod.rel, fn.name)] = {'self': set(), 'elems': set(), 'fn': fn}
    results = {}

    def analyse(mod, fn, is_method, tainted, elems_only=()):
        calls = []
        muts = effects.mutations(fn, tainted, elems_only=elems_only, calls_out=calls)
        for t, selfs, elems, kwt in calls:
            f = t[1]
            name = f[1] if f[0] == 'name' else (f[1] if f[0] == 'func' else None)
            h = helpers.get((mod.rel, name))
            if h is None or h['fn'] is fn:
                continue
            ps = [a.arg for a in h['fn'].args.args]
            for i, p_ in enumerate(ps):
                if i < len(selfs):
                    if selfs[i]:
                        h['self'].add(p_)
                    if elems[i]:
                        h['elems'].add(p_)
                elif p_ in kwt:
                    if kwt[p_][0]:
                        h['self'].add(p_)
                    if kwt[p_][1]:
                        h['elems'].add(p_)
        return muts
    pending = []
    for mod, fn, is_method in fns:
        if (mod.rel, fn.name) in helpers and helpers[(mod.rel, fn.name)]['fn'] is fn:
            pending.append((mod, fn, is_method))
            continue
        tainted = set(tainted_params(fn, is_method)) | free_tainted(fn)
        results[id(fn)] = (mod, fn, tainted, analyse(mod, fn, is_method, tainted, free_containers(fn, tainted)))
    for _ in range(3):          # helpers calling helpers: taint settles in a few rounds
        for mod, fn, is_method in pending:
            h = helpers[(mod.rel, fn.name)]
            results[id(fn)] = (mod, fn, set(h['self']), analyse(mod, fn, is_method, set(h['self']), h['elems'] - h['self']))
    for mod, fn, is_method in fns:
        n += 1
        mod, fn, tainted, muts = results[id(fn)]
        w = '%s:%s %s' % (mod.rel, fn.lineno, qualname_of(fn))
        if not muts:
            rep.ok(R1, w, '%s modifies no caller-visible object (tainted: %s)' % (qualname_of(fn), sorted(tainted)))
        for node, tgt, what in muts:
            rep.violation(R1, '%s:%s %s' % (mod.rel, node.lineno, qualname_of(fn)),
                          '%s:%s:mutates:%s' % (mod.rel, qualname_of(fn), show(tgt)[:60].split('(')[0] + ':' + what.split('(')[0]),
                          '%s modifies an object of the parse result: `%s` (%s) -- %s'
                          % (qualname_of(fn), src(node)[:70], what, consequence))
        for g in [x for x in ast.walk(fn) if isinstance(x, ast.Global)]:
            rep.violation(R2, '%s:%s %s' % (mod.rel, g.lineno, qualname_of(fn)), '%s:%s:global' % (mod.rel, qualname_of(fn)),
                          'writes module state through `global %s`' % ', '.join(g.names))
    return n


def r_token_accessors(repo, rep, R, consequence=''):
    """reading a token changes nothing on it: no accessor of Token (other than the constructor) stores into the token"""
    tok = repo.module('depccg/types.py').get('Token')
    for s in tok.body:
        if isinstance(s, ast.FunctionDef) and s.name != '__init__' and not any('classmethod' in src(d) or 'staticmethod' in src(d) for d in s.decorator_list):
            muts = effects.mutations(s, {'self'})
            rep.check(not muts, R, 'depccg/types.py:%s Token.%s' % (s.lineno, s.name), 'types.py:Token.%s:mutates' % s.name,
                      'Token.%s does not modify the token' % s.name, 'Token.%s modifies the token%s' % (s.name, (': ' + consequence) if consequence else ''))


def check(repo, rep, tier):
    rep.rule('R18.1', 'no store / delete / mutating method on a value that may be (or contain) a caller-visible object, in any printer function')
    rep.rule('R18.2', 'Tree stores attributes only in __init__; printers write no module-level state')
    # embedded positive example
    ex = ast.parse(POSITIVE_EXAMPLE)
    from ..core import attach_parents
    attach_parents(ex)
    fn = ex.body[0]
    found = effects.mutations(fn, ['trees'])
    lines = sorted({n.lineno for n, _, _ in found})
    if lines != [9]:
        raise AnalysisError('embedded positive example: expected exactly the two mutations on line 9, analysis reports lines %s' % lines)
    rep.ok('R18.1', 'sa/checks/c18.py POSITIVE_EXAMPLE', 'the analysis flags token[..] = token.pop(..) on an aliased token and not the same edit on dict(token)')
    n = r_printers_pure(repo, rep)
    rep.floor('printer functions analysed', n, 35)
    r_tree_views_fresh(repo, rep)
    # ... nor through a setter of another module: functions of the package that rebind a module-level name (`global x;
    # x = ..`, e.g. depccg.lang.set_global_language_to) change what every later rendering -- and the readers -- see
    setters = {}
    for rel2 in repo.py_files('depccg'):
        if '/printer/' in rel2:
            continue
        try:
            m2 = repo.module(rel2)
        except AnalysisError:
            continue
        for f2 in [x for x in m2.tree.body if isinstance(x, ast.FunctionDef)]:
            gl = [g for g in ast.walk(f2) if isinstance(g, ast.Global)]
            if gl and any(isinstance(t, ast.Name) and isinstance(t.ctx, ast.Store) and t.id in {nm for g in gl for nm in g.names} for t in ast.walk(f2)):
                setters[f2.name] = rel2
    n_set = 0
    for rel2 in repo.py_files('depccg/printer'):
        m2 = repo.module(rel2)
        imported = {}
        for st_ in ast.walk(m2.tree):
            if isinstance(st_, ast.ImportFrom) and st_.module:
                for al in st_.names:
                    if al.name in setters and setters[al.name].replace('/', '.')[:-3].endswith(st_.module.split('.')[-1]):
                        imported[al.asname or al.name] = al.name
        for c_ in ast.walk(m2.tree):
            if isinstance(c_, ast.Call):
                nm = c_.func.id if isinstance(c_.func, ast.Name) else (c_.func.attr if isinstance(c_.func, ast.Attribute) else None)
                if (isinstance(c_.func, ast.Name) and nm in imported) or (isinstance(c_.func, ast.Attribute) and nm in setters and isinstance(c_.func.value, (ast.Name, ast.Attribute))
                                                                          and src(c_.func.value).split('.')[-1] == setters[nm].split('/')[-1][:-3]):
                    n_set += 1
                    ef = enclosing_function(c_)
                    rep.violation('R18.2', '%s:%s %s' % (rel2, c_.lineno, qualname_of(ef) if ef is not None else '<module>'), '%s:calls-setter:%s' % (rel2, nm),
                                  'a printer calls %s (%s), which rebinds a module-level setting: rendering changes what later renderings and readers of the same process see'
                                  % (imported.get(nm, nm), setters[imported.get(nm, nm)]))
    rep.ok('R18.2', 'depccg/printer/*', 'no printer calls one of the %d functions of the package that rebind module-level settings (%s)' % (len(setters), sorted(setters)[:4]), nontrivial=bool(setters))
    from ..lints import r_no_reordering
    r_no_reordering(repo, rep, 'R18.2', [('depccg/printer/__init__.py', 'to_string'), ('depccg/printer/__init__.py', 'print_')],
                    'the sentences and the trees of a sentence (a set of trees is walked in the order of their addresses: a copy of the same results comes out in another order)')
    from ..lints import r_no_ambient_reads
    r_no_ambient_reads(repo, rep, 'R18.2', repo.py_files('depccg/printer'),
                       'rendering the same results again gives another text')
    from ..lints import r_module_state
    n_shared = r_module_state(repo, rep, 'R18.2', repo.py_files('depccg/printer') + ['depccg/utils.py', 'depccg/tree.py', 'depccg/cat.py', 'depccg/types.py'],
                              'it is shared by all renderings, so a rendering depends on those before it')
    rep.ok('R18.2', 'depccg/printer/*', 'no printer function writes to one of the %d module-level objects of the printer modules' % n_shared, nontrivial=n_shared > 0)
    # Tree accessors
    tm = repo.module('depccg/tree.py')
    tree = tm.get('Tree')
    nacc = 0
    for s in tree.body:
        if isinstance(s, ast.FunctionDef) and s.name != '__init__':
            nacc += 1
            deco = [src(d) for d in s.decorator_list]
            tainted = [a.arg for a in s.args.args]
            inners = [x for x in ast.walk(s) if isinstance(x, ast.FunctionDef)]
            taint = {id(s): (set(tainted), set())}
            for x in inners[1:]:
                taint[id(x)] = (set(), set())
            found_muts = {}
            for _ in range(3):
                for inner in inners:
                    calls = []
                    ts, te = taint[id(inner)]
                    # a closure sees the accessor's own parameters (the tree) as free variables
                    free = set(tainted) if inner is not s else set()
                    found_muts[id(inner)] = effects.mutations(inner, ts | free, elems_only=te, calls_out=calls)
                    for t, selfs, elems, kwt in calls:
                        f = t[1]
                        callee = [x for x in inners[1:] if (f[0] == 'func' and f[2] == id(x)) or f == N(x.name)]
                        for x in callee:
                            ps = [a.arg for a in x.args.args]
                            for i, p_ in enumerate(ps):
                                if i < len(selfs) and selfs[i]:
                                    taint[id(x)][0].add(p_)
                                if i < len(elems) and elems[i]:
                                    taint[id(x)][1].add(p_)
            for inner in inners:
                muts = found_muts[id(inner)]
                for node, tgt, what in muts:
                    rep.violation('R18.2', '%s:%s Tree.%s' % (tm.rel, node.lineno, s.name), '%s:Tree.%s:mutates' % (tm.rel, s.name),
                                  'Tree.%s modifies `%s` (%s)' % (s.name, show(tgt)[:50], what))
            stores = [x for x in ast.walk(s) if isinstance(x, ast.Attribute) and isinstance(x.ctx, (ast.Store, ast.Del))
                      and isinstance(x.value, ast.Name) and x.value.id == 'self']
            rep.check(not stores, 'R18.2', '%s:%s Tree.%s' % (tm.rel, s.lineno, s.name), '%s:Tree.%s:self-store' % (tm.rel, s.name),
                      'Tree.%s stores nothing on the tree' % s.name, 'Tree.%s assigns %s' % (s.name, [src(x) for x in stores]))
    rep.floor('Tree accessors analysed', nacc, 15)
    r_token_accessors(repo, rep, 'R18.2')
