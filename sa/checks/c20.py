"""C20 -- PTB and Japanese-bank text written by depccg reads back to the same tree."""
import ast

from ..core import AnalysisError, src, qualname_of, enclosing_function, parents
from ..pysym import path_values, SymExec, show, subterms, terms_of
from ..rules_pyx import N, C, A, bind_args
from .. import logic

from .. import codec
from .. import datafiles as df
from .. import symcat as sc
from .. import rules_grammar as rg
from ..pygrammar import combinator_functions
from .c12 import tree_factory_sites, call_terms
from .c19 import grammar_labels

EXPLANATION = (
    'Structural necessary conditions of the two round trips: R20.1 every Tree.make_* / Token(...) call in the reader '
    'modules binds to the callee\'s signature and passes no rule-result object where a label string is expected; R20.2 '
    'the Japanese reader\'s symbol vocabulary covers every binary symbol of the Japanese grammar and every unary label '
    'reachable with the shipped unary table (LHS categories parsed with an independent grammar); R20.3 a slice bound '
    'taken from str.find on the sliced string is dominated by a test that the separator occurs; R20.4 the PTB reader '
    'ends with a check that exactly one tree remains, inside the handler that turns failure into RuntimeError; R20.5 the '
    'PTB writer escapes ( and ) inside words with bracket-free replacements and the reader applies the inverse pairs; '
    'R20.6 writer templates and reader cursor programs agree field by field for both formats (root prefix and its '
    'length, marker characters, which field holds category / word / rule symbol, symbol printed from op_symbol and '
    'stored in both label slots, child order).  The round trips themselves (all categories, all tokens) are not decided.'
    ' utils.normalize, through which the Japanese writer sends the surface form, must leave every word other than the bracket names unchanged; the find()-slice rule carries an embedded example.'
    " Third round: the reader's symbol set is evaluated as a constant expression (starred generators over range, f-strings)."
    ' Fourth round: cuts at the annotation underscore of Japanese lexical categories are anchored at the first underscore.'
    ' Fifth round: the Japanese node template on every path; label recovery total over any three categories.'
    ' Sixth and seventh round: delimiters and atoms of Category.parse, the PTB reader chosen by how the name ends, every line parsed by itself (R20.4), the tree factories store what they are given (R20.1).'
    ' Eighth round: a token keeps every field it was given (R20.1); the dependency pattern of the Japanese bank (R20.3); ja_of writes the word form unchanged (R20.6).'
    ' Ninth and tenth round: the PTB dispatch tests for an opening bracket before it takes an item for a word with closing brackets (R20.6).'
    ' Eleventh round: a joined field of the ja leaf record falls back to its placeholder exactly when the joined list is empty (R20.6).')
TRUSTED = ['CPython ast', 'sa/pysym.py path walker', 'independent category grammar sa/datafiles.py', 'rule table DESIGN.md C20']

RD = 'depccg/tools/reader.py'
JRD = 'depccg/tools/ja/reader.py'
PTB = 'depccg/printer/ptb.py'
PJA = 'depccg/printer/ja.py'


def r_signatures(repo, rep, R='R20.1'):
    tm = repo.module('depccg/tree.py')
    n = 0
    for mod, fn, node in tree_factory_sites(repo, [RD, JRD]):
        name = node.func.attr
        callee = tm.get('Tree.' + name)
        w = '%s:%s %s' % (mod.rel, node.lineno, qualname_of(fn))
        terms = {t for _, t in call_terms(fn, node)}
        if not terms:
            raise AnalysisError('%s: no path reaches the Tree.%s call' % (w, name))
        for t in terms:
            n += 1
            key = '%s:%s:%s:signature' % (mod.rel, qualname_of(fn), name)
            try:
                b = bind_args(t, callee)
            except AnalysisError as e:
                rep.violation(R, w, key, 'Tree.%s(%s) does not bind to its signature %s: %s'
                              % (name, ', '.join(show(a)[:25] for a in t[2]), tuple(a.arg for a in callee.args.args), e))
                continue
            bad = []
            for a in callee.args.args:
                if a.annotation is not None and src(a.annotation) == 'str' and a.arg in b:
                    v = b[a.arg]
                    if v[0] == 'call' and v[1] == N('guess_combinator_by_triplet'):
                        bad.append(a.arg)
            rep.check(not bad, R, w, key, 'Tree.%s call binds to (%s)' % (name, ', '.join(sorted(b))),
                      'Tree.%s receives a whole rule result where the string parameter(s) %s are expected' % (name, bad))
    rep.floor('Tree factory call sites in readers', n, 12)


def eval_unary_labels(repo, per_input=None):
    """labels of ja._unary_rule_symbol reachable for the LHS categories of the shipped unary table; None if the
    decision structure is not in the recognised form (then every label is assumed reachable).  per_input, if given, is
    filled with {left-hand side: label}."""
    table = df.load_jsonnet(repo, 'depccg/models/unary_rules.ja.jsonnet')['unary_rules']
    mod = repo.module(rg.JA)
    fn = mod.get('_unary_rule_symbol')
    p = fn.args.args[0].arg
    paths = path_values(SymExec(fn).run())
    labels = set()
    for lhs, _ in table:
        c = df.parse_cat(lhs)
        atom = df.result_atom(c)
        pairs = df.feature_pairs(atom)
        facts_n = df.nargs(c)
        hit = None
        for conds_, ret in paths:
            ok = True
            for cond, pol in conds_:
                v = None
                if cond[0] == 'cmp' and cond[1] == '==' and cond[2][0] == 'const' and cond[3][0] != 'const':
                    cond = ('cmp', '==', cond[3], cond[2])
                if cond[0] == 'cmp' and cond[1] == 'in' and cond[2][0] == 'tuple' and all(x[0] == 'const' for x in cond[2][1]):
                    v = pairs is not None and tuple(x[1] for x in cond[2][1]) in [tuple(q) for q in pairs]
                elif cond[0] == 'cmp' and cond[1] == '==' and cond[2] == A(N(p), 'nargs') and cond[3][0] == 'const':
                    v = facts_n == cond[3][1]
                elif cond == A(N(p), 'is_atomic'):
                    v = facts_n == 0
                elif cond == A(N(p), 'is_functor'):
                    v = facts_n > 0
                elif cond[0] == 'call' and cond[1] == N('isinstance') and cond[2][1] == N('TernaryFeature'):
                    v = pairs is not None
                elif cond[0] == 'cmp' and cond[1] == '==' and cond[2][0] == 'attr' and cond[2][2] in ('kv1', 'kv2', 'kv3') and cond[3][0] == 'tuple' \
                        and all(x[0] == 'const' for x in cond[3][1]) and pairs is not None:
                    # one fixed slot of the triple compared with a (key, value) pair
                    slot = int(cond[2][2][2]) - 1
                    v = slot < len(pairs) and tuple(pairs[slot]) == tuple(x[1] for x in cond[3][1])
                if v is None and cond[0] == 'cmp' and cond[1] in ('==', '!='):
                    # both sides evaluated: constants, fixed slots of the triple, conditional expressions over type tests
                    class _Unknown(Exception):
                        pass

                    def val(t):
                        if t[0] == 'const':
                            return t[1]
                        if t[0] == 'tuple':
                            return tuple(val(x) for x in t[1])
                        if t[0] == 'attr' and t[2] in ('kv1', 'kv2', 'kv3') and pairs is not None and int(t[2][2]) - 1 < len(pairs):
                            return tuple(pairs[int(t[2][2]) - 1])
                        if t == A(N(p), 'nargs'):
                            return facts_n
                        if t[0] == 'ifexp':
                            return val(t[2]) if val(t[1]) else val(t[3])
                        if t[0] == 'call' and t[1] == N('isinstance') and len(t[2]) == 2 and t[2][1] == N('TernaryFeature'):
                            return pairs is not None
                        raise _Unknown()
                    try:
                        v = (val(cond[2]) == val(cond[3])) == (cond[1] == '==')
                    except _Unknown:
                        v = None
                if v is None:
                    return None, table
                if v != pol:
                    ok = False
                    break
            if ok:
                hit = ret
                break
        if hit is not None and hit[0] == 'sub' and hit[1][0] in ('tuple', 'list') and hit[2] == A(N(p), 'nargs') \
                and facts_n < len(hit[1][1]):
            hit = hit[1][1][facts_n]        # a literal table indexed by the number of arguments
        if hit is None or hit[0] != 'const':
            return None, table
        labels.add(hit[1])
        if per_input is not None:
            per_input[lhs] = hit[1]
    return labels, table


def r_symbols(repo, rep, R='R20.2'):
    jm = repo.module(JRD)
    val = jm.assign('combinators')
    got = rg.const_strings(jm, val) if val is not None else None
    if got is None:
        raise AnalysisError('%s: the members of `combinators` cannot be read off the source' % JRD)
    vocab = set(got)
    labels = grammar_labels(repo)['ja']
    need = {y for _, y in labels['binary']}
    reach, table = eval_unary_labels(repo)
    if reach is None:
        reach = {y for _, y in labels['unary']}
        how = 'all unary labels (decision structure not evaluated)'
    else:
        how = 'unary labels reachable for the %d left-hand sides of unary_rules.ja.jsonnet: %s' % (len(table), sorted(reach))
    need |= reach
    missing = sorted(need - vocab)
    rep.check(not missing, R, '%s:%s <module>' % (JRD, val.lineno), 'ja-reader:symbols',
              'the reader recognises all %d rule symbols the Japanese grammar can print (%s)' % (len(need), how),
              'ja_of can print the symbols %s which the reader does not recognise (the node would be read as a leaf)' % missing)
    # dispatch reads the symbol after the brace: node paths have established `text between brace and first blank in
    # combinators`, leaf paths its negation
    rp_ = codec.ReaderPaths(jm, '_JaCCGLineReader')

    def symbol_test(st):
        for c, pol, _ in st.conds:
            f = logic.formula(c)
            if not pol:
                f = logic.neg(f)
            neg = f[0] == 'not'
            a = f[1] if neg else f
            if a[0] == 'atom' and a[1][0] == 'in' and (a[1][2] == N('combinators') or a[1][2][0] in ('set', 'tuple', 'list')):
                t_ = a[1][1]
                sl = t_[2] if t_[0] == 'sub' else None
                okt = t_[0] == 'sub' and t_[1] == A(N('self'), 'line') and sl is not None and sl[0] == 'slice' and \
                    sl[1] in (('binop', '+', A(N('self'), 'index'), C(1)), ('binop', '+', C(1), A(N('self'), 'index'))) and sl[2] is not None and sl[2][0] == 'call' \
                    and sl[2][1] == A(A(N('self'), 'line'), 'find') and sl[2][2] == (C(' '), A(N('self'), 'index'))
                return okt, not neg
        return None, None
    okd = bool(rp_.by_kind['leaf']) and bool(rp_.node_paths())
    for st, o in rp_.by_kind['leaf']:
        okt, pos = symbol_test(st)
        okd = okd and okt is True and pos is False
    for st, o in rp_.node_paths():
        okt, pos = symbol_test(st)
        okd = okd and okt is True and pos is True
    rep.check(okd, R, '%s:%s _JaCCGLineReader' % (JRD, rp_.entry.lineno), 'ja-reader:dispatch', 'records are dispatched on the text between the brace and the first blank',
              'the reader does not decide leaf / node by testing line[index+1:end] against the symbol set')
    return len(need)


FIND_EXAMPLE = '''
def cut(text, sink):
    if '_' in text:
        sink(text[:text.find('_')])
    return text[:text.find('.')]
'''


def _find_slices(fn):
    """-> [(slice term, separator term, guarded?)] for  x[..x.find(sep)..]  slices evaluated on the paths of fn"""
    out = {}
    for st, o in SymExec(fn, unroll=1).run():
        trace = [(e[1], e[2]) for e in st.events if e[0] == 'branch']
        terms = [x for e in st.events for x in e[1:-1] if isinstance(x, tuple)]
        for t in terms:
            for s_ in subterms(t):
                if s_[0] == 'sub' and s_[2][0] == 'slice':
                    base, sl = s_[1], s_[2]
                    for bound in (sl[1], sl[2]):
                        if bound is not None and bound[0] == 'call' and bound[1][0] == 'attr' and bound[1][2] == 'find' \
                                and bound[1][1] == base and len(bound[2]) == 1:
                            sep = bound[2][0]
                            guarded = logic.implied(trace, logic.formula(('cmp', 'in', sep, base))) or \
                                any(c[0] == 'cmp' and bound in (c[2], c[3]) for c, pol in trace)
                            key = (s_, sep)
                            out[key] = out.get(key, True) and guarded
    return [(k[0], k[1], v) for k, v in out.items()]


def r_find_guard(repo, rep, R='R20.3'):
    # the rule looks for a hazard that the tree may well not contain at all: prove on every run that it can see one
    ex = ast.parse(FIND_EXAMPLE)
    from ..core import attach_parents
    attach_parents(ex)
    got = sorted((show(sep), g) for _, sep, g in _find_slices(ex.body[0]))
    if got != [("'.'", False), ("'_'", True)]:
        raise AnalysisError('embedded example of a find()-derived slice is judged %s' % got)
    rep.ok(R, 'sa/checks/c20.py FIND_EXAMPLE', 'the analysis tells the guarded find()-slice from the unguarded one in the embedded example')
    n = 0
    for rel in (RD, JRD):
        mod = repo.module(rel)
        for fn in [f for f in ast.walk(mod.tree) if isinstance(f, ast.FunctionDef)]:
            n += 1
            for s_, sep, guarded in _find_slices(fn):
                w = '%s:%s %s' % (rel, fn.lineno, qualname_of(fn))
                rep.check(guarded, R, w, '%s:%s:find-slice:%s' % (rel, qualname_of(fn), show(sep)),
                          'the cut at %s is applied only when the separator occurs' % show(sep),
                          '`%s`: when %s does not occur, find() is -1 and the slice silently drops the last character'
                          % (show(s_)[:80], show(sep)))
    return n


def r_annotation_cut(repo, rep, R='R20.3'):
    """a lexical category of the bank may be followed by `_` and a predicate-argument annotation that itself contains
    underscores (`_I1(I2,_,_,_)`): the category ends at the FIRST underscore.  Cuts anchored at the last one (rsplit,
    rpartition, rfind, rindex) keep a part of the annotation."""
    mod = repo.module(JRD)
    n = 0
    first = 0
    for fn in [f for f in ast.walk(mod.tree) if isinstance(f, ast.FunctionDef)]:
        for c in ast.walk(fn):
            a0 = mod.literal(c.args[0]) if isinstance(c, ast.Call) and c.args else None
            if isinstance(c, ast.Call) and isinstance(c.func, ast.Attribute) and isinstance(a0, ast.Constant) and a0.value == '_':
                n += 1
                w = '%s:%s %s' % (JRD, c.lineno, qualname_of(fn))
                right = c.func.attr in ('rsplit', 'rpartition', 'rfind', 'rindex')
                if c.func.attr in ('find', 'index', 'split', 'partition'):
                    first += 1
                rep.check(not right, R, w, '%s:%s:annotation-cut' % (JRD, qualname_of(fn)),
                          'the annotation is cut off at the first underscore (%s)' % c.func.attr,
                          '`%s` cuts at the LAST underscore: for a category annotated with empty argument slots (S_I1(I2,_,_,_)) a part of the annotation stays on the '
                          'category text and the line is rejected' % src(c)[:60])
    rep.floor('cuts at the annotation underscore in the Japanese reader', n, 1)
    return n


def r_dependency_pattern(repo, rep, R='R20.3'):
    """the dependency variables `{I1}` the annotated bank writes after categories are removed wherever they stand: the
    pattern that strips them is `{` + anything (shortest) + `}` with no condition on what comes before or after it (a
    look-behind for `]` / `)` misses the feature-less atoms, *START*{I1})"""
    import re as _re
    mod = repo.module(JRD)
    pats = []
    for st in mod.tree.body:
        if isinstance(st, ast.Assign) and isinstance(st.value, ast.Call) and src(st.value.func) in ('re.compile', 'compile') and st.value.args \
                and isinstance(st.value.args[0], ast.Constant) and isinstance(st.value.args[0].value, str) and '{' in st.value.args[0].value:
            pats.append((st, st.value.args[0].value))
    if not pats:
        return 0
    try:
        from re import _parser as sre
    except ImportError:      # pragma: no cover
        import sre_parse as sre
    for st, text in pats:
        w = '%s:%s %s' % (JRD, st.lineno, src(st.targets[0]))
        try:
            tree = sre.parse(text)
        except Exception as e:
            rep.check(False, R, w, 'ja-reader:dependency-pattern', '', 'the pattern %r does not compile: %s' % (text, e))
            continue
        ops = [str(op) for op, _ in tree]
        asserts = [o for o in ops if 'ASSERT' in o or o == 'AT']
        lits = [av for op, av in tree if str(op) == 'LITERAL']
        shape = len(lits) >= 2 and lits[0] == ord('{') and lits[-1] == ord('}') and any('MIN_REPEAT' in o for o in ops)
        rep.check(shape and not asserts, R, w, 'ja-reader:dependency-pattern',
                  'dependency variables are stripped wherever they stand: %r' % text,
                  'the pattern %r %s: a variable behind a feature-less category (`*START*{I1}`) stays on the category text'
                  % (text, 'only matches in a given context (%s)' % asserts if asserts else 'is not `{` shortest-anything `}`'))
    return len(pats)


def r_token_keeps_fields(repo, rep, R='R20.1'):
    """Token(**fields) stores every field it is given, whatever the value: the readers build their leaves with
    Token(word=<text read>) -- a constructor that leaves some values out loses words such as `*`"""
    tm = repo.module('depccg/types.py')
    init = tm.get('Token.__init__', required=False)
    if init is None:
        return
    kw = init.args.kwarg.arg if init.args.kwarg is not None else None
    w = 'depccg/types.py:%s Token.__init__' % init.lineno
    sup = [c for c in ast.walk(init) if isinstance(c, ast.Call) and isinstance(c.func, ast.Attribute) and c.func.attr in ('__init__', 'update')]
    passes = [c for c in sup if not c.args and len(c.keywords) == 1 and c.keywords[0].arg is None and isinstance(c.keywords[0].value, ast.Name) and c.keywords[0].value.id == kw] + \
        [c for c in sup if len(c.args) == 1 and not c.keywords and isinstance(c.args[0], ast.Name) and c.args[0].id == kw]
    touched = [n for n in ast.walk(init) if (isinstance(n, ast.Call) and isinstance(n.func, ast.Attribute) and isinstance(n.func.value, ast.Name) and n.func.value.id == kw and n.func.attr in ('pop', 'clear', 'popitem'))
               or (isinstance(n, ast.Delete) and any(isinstance(t, ast.Subscript) and isinstance(t.value, ast.Name) and t.value.id == kw for t in n.targets))
               or (isinstance(n, ast.Assign) and any(isinstance(t, ast.Name) and t.id == kw for t in n.targets))]
    rep.check(kw is not None and len(passes) >= 1 and not touched, R, w, 'Token:keeps-fields',
              'the constructor hands all of **%s to the dictionary it is' % kw,
              'Token.__init__ does not store every field it is given (%s): a leaf whose word has the left-out value has no word' % ([src(c)[:80] for c in sup][:2] or 'no plain hand-over'))


def _r_find_guard_old(repo, rep, R='R20.3'):
    n = 0
    for rel in (RD, JRD):
        mod = repo.module(rel)
        for fn in [f for f in ast.walk(mod.tree) if isinstance(f, ast.FunctionDef)]:
            for st, o in SymExec(fn, unroll=1).run():
                trace = [(e[1], e[2]) for e in st.events if e[0] == 'branch']
                terms = [x for e in st.events for x in e[1:-1] if isinstance(x, tuple)]
                for t in terms:
                    for s_ in subterms(t):
                        if s_[0] == 'sub' and s_[2][0] == 'slice':
                            base, sl = s_[1], s_[2]
                            for bound in (sl[1], sl[2]):
                                if bound is not None and bound[0] == 'call' and bound[1][0] == 'attr' and bound[1][2] == 'find' \
                                        and bound[1][1] == base and len(bound[2]) == 1:
                                    n += 1
                                    sep = bound[2][0]
                                    guarded = any(pol and c == ('cmp', 'in', sep, base) for c, pol in trace) or \
                                        any((not pol) and c == ('cmp', 'not in', sep, base) for c, pol in trace) or \
                                        any(c[0] == 'cmp' and bound in (c[2], c[3]) for c, pol in trace)
                                    w = '%s:%s %s' % (rel, fn.lineno, qualname_of(fn))
                                    rep.check(guarded, R, w, '%s:%s:find-slice:%s' % (rel, qualname_of(fn), show(sep)),
                                              'the cut at %s is applied only when the separator occurs' % show(sep),
                                              '`%s`: when %s does not occur, find() is -1 and the slice silently drops the last character'
                                              % (show(s_)[:80], show(sep)))
    return n


def r_ptb(repo, rep, writer_only=False, RT='R20.6', RE='R20.5'):
    pm = repo.module(PTB)
    rec = pm.get('ptb_of.rec')
    p = rec.args.args[0].arg
    leaf = node = None
    for st, ret in codec.returns_of(rec):
        if codec.path_has(st, A(N(p), 'is_leaf'), True):
            leaf = ret
        else:
            node = ret
    top = codec.returns_of(pm.get('ptb_of'))
    w = '%s:%s ptb_of' % (PTB, rec.lineno)
    lt = codec.fstr_tokens(leaf)
    ok = len(lt) == 2 and lt[0][0] == '(' and lt[0][1] == A(N(p), 'cat') and len(lt[0]) == 2 and lt[1][-1] == ')' and len(lt[1]) == 2
    rep.check(ok, RT, w, 'ptb_of:leaf-template', 'a leaf is written "(cat word)"', 'leaf template is %s' % [codec.tok_text(t) for t in lt])
    word_t = lt[1][0] if ok else None
    nt = codec.fstr_tokens(node)
    okn = len(nt) == 2 and nt[0][0] == '(' and nt[0][1] == A(N(p), 'cat') and nt[1][-1] == ')' and nt[1][0][0] == 'call' and nt[1][0][1] == A(C(' '), 'join')
    if okn:
        g = nt[1][0][2][0]
        okn = g[0] in ('genexp', 'listcomp') and g[2][0][0] == A(N(p), 'children') and not g[2][0][1]
    rep.check(okn, RT, w, 'ptb_of:node-template', 'a node is written "(cat child child)" with all children in order',
              'node template is %s' % [codec.tok_text(t)[:60] for t in nt])
    prefix = None
    if len(top) == 1 and top[0][1][0] == 'fstr' and isinstance(top[0][1][1][0], str):
        prefix = top[0][1][1][0]
        okr = top[0][1][1][-1] == ')' and len(top[0][1][1]) == 3
    else:
        okr = False
    rep.check(okr, RT, w, 'ptb_of:root', 'the line is wrapped as "%s...)"' % prefix, 'root template is %s' % (show(top[0][1]) if top else None))
    # escaping
    esc = []
    if word_t is not None:
        base, esc = codec.replace_chain(word_t)
        okb = base == A(N(p), 'word')
    else:
        okb = False
    em = dict(esc)
    oke = okb and set(em) >= {'(', ')'} and all(not any(ch in v for ch in '() ') and v for v in em.values()) and len(set(em.values())) == len(em)
    rep.check(oke, RE, w, 'ptb_of:escape', 'round brackets inside words are written as bracket-free, blank-free, distinct replacements %s' % em,
              'the word is written as %s: a token that is or contains a round bracket breaks the S-expression' % (show(word_t)[:60] if word_t else '?'))
    if writer_only:
        return
    # reader
    rm = repo.module(RD)
    pp = rm.get('_parse_ptb')
    wr = '%s:%s _parse_ptb' % (RD, pp.lineno)
    # the prefix test and the slice, read off the values the reader's paths compute (constants resolved)
    p0 = N(pp.args.args[0].arg)
    okp = oks = False
    for st_, o_ in SymExec(pp, unroll=1).run():
        for t_ in (x for y in terms_of(st_) for x in subterms(y)):
            if t_[0] == 'call' and t_[1] == A(p0, 'startswith') and t_[2] == (C(prefix),):
                okp = True
            if t_[0] == 'sub' and t_[1] == p0 and t_[2][0] == 'slice' and prefix is not None and t_[2][1] == C(len(prefix)) and t_[2][2] == C(-1) and t_[2][3] is None:
                oks = True
    rep.check(okp and oks, 'R20.6', wr, '_parse_ptb:root', 'the reader requires the prefix %r and strips exactly it and the final bracket' % prefix,
              'reader prefix test / slice do not match the writer\'s root template %r' % prefix)
    # completeness: every container that receives opened categories must be accounted for by the final check, which
    # sits in the handler turning failure into RuntimeError
    tr = [n for n in pp.body if isinstance(n, ast.Try)]
    okc = False
    detail = 'no try block'
    if tr:
        opened = set()
        for n in ast.walk(pp):
            if isinstance(n, ast.Call) and isinstance(n.func, ast.Attribute) and n.func.attr == 'append' and isinstance(n.func.value, ast.Name) \
                    and any(isinstance(x, ast.Call) and src(x.func) == 'Category.parse' for x in ast.walk(n)):
                opened.add(n.func.value.id)
        finals = [a for a in tr[0].body if isinstance(a, ast.Assert)]
        handlers = [h for h in tr[0].handlers if h.type is not None and 'AssertionError' in src(h.type) and any(isinstance(x, ast.Raise) and 'RuntimeError' in src(x) for x in h.body)]
        if finals and handlers and opened:
            last = finals[-1]
            names = {x.id for x in ast.walk(last.test) if isinstance(x, ast.Name)}
            t_ = src(last.test).replace(' ', '')
            one_tree = any(('len(%s)==1' % v) in t_ for v in names)
            okc = opened <= names and one_tree
            detail = 'opened categories are kept in %s; the final check `%s` looks at %s' % (sorted(opened), src(last.test), sorted(names & (opened | {v for v in names})))
        else:
            detail = 'final assertion / RuntimeError handler / category container not found'
    rep.check(okc, 'R20.4', wr, '_parse_ptb:complete', 'an incomplete line is rejected: the final check covers the container(s) holding opened categories and requires a single result (%s)' % detail,
              'an incomplete line can yield a partial tree: %s' % detail)
    # the two closures of the reader by what they do: one makes the tokens, the other opens nodes (Category.parse)
    inner_ = [n for n in ast.walk(pp) if isinstance(n, (ast.FunctionDef, ast.AsyncFunctionDef)) and n is not pp]
    by_call = lambda what: [n for n in inner_ if any(isinstance(x, ast.Call) and src(x.func) == what for x in ast.walk(n))]
    red_c, rec_c = by_call('Token'), by_call('Category.parse')
    if not (len(red_c) == 1 and len(rec_c) == 1 and red_c[0] is not rec_c[0]):
        red_c, rec_c = [rm.get('_parse_ptb.reduce')], [rm.get('_parse_ptb.rec')]
    red = red_c[0]
    # the closure that builds the nodes (Tree.make_binary): the one that makes the tokens, or one that calls it for the word
    bld_c = by_call('Tree.make_binary')
    if len(bld_c) == 1 and bld_c[0] is not rec_c[0] and bld_c[0].args.args:
        red = bld_c[0]
    it = red.args.args[0].arg
    inv_ok = False
    detail = ''
    for st, o in SymExec(red, unroll=1).run():
        toks = [e[1] for e in st.events if e[0] == 'call' and e[1][1] == N('Token')]
        if toks:
            wt = dict(toks[0][3]).get('word')
            base, pairs = codec.replace_chain(wt) if wt else (None, [])
            inv = {b: a for a, b in esc}
            # the word is the item itself (the bracket was cut off by the caller) or the item without its last character
            inv_ok = base in (N(it), ('sub', N(it), ('slice', None, C(-1), None))) and dict(pairs) == inv and bool(esc)
            detail = 'reader %s, writer %s' % (pairs, esc)
            pushed = [e[1][2][0] for e in st.events if e[0] == 'call' and e[1][1][0] == 'attr' and e[1][1][2] == 'append' and e[1][1][1] == N('stack')]
            same = bool(pushed) and pushed[0] == wt
            made = [e[1] for e in st.events if e[0] == 'call' and e[1][1] == A(N('Tree'), 'make_terminal')]
            if made and not same:
                # the terminal is made on the spot, from the word the token was given
                same = bool(made[0][2]) and made[0][2][0] == wt
                pushed = [made[0][2][0]] if made[0][2] else pushed
            rep.check(same, 'R20.5', wr, '_parse_ptb:word-consistent', 'the leaf is built from the same unescaped word as its token',
                      'the token holds %s but the leaf is built from %s' % (show(wt)[:50], show(pushed[0])[:50] if pushed else None))
    rep.check(inv_ok, 'R20.5', wr, '_parse_ptb:unescape', 'the reader applies the inverse of the writer\'s bracket escaping (%s)' % detail,
              'the reader does not invert the writer\'s escaping: %s' % detail)
    rc_ = rec_c[0]
    opened = False
    for st, o in SymExec(rc_, unroll=1).run():
        for c, pol, _ in st.conds:
            if pol and c[0] == 'cmp' and c[1] == '==' and c[3] == C('(') and c[2][0] == 'sub' and c[2][2] == C(0):
                item_t = c[2][1]
                want = ('call', A(N('Category'), 'parse'), (('sub', item_t, ('slice', C(1), None, None)),), ())
                if any(e[0] == 'call' and e[1][1] == A(N('stack'), 'append') and e[1][2] == (want,) for e in st.events):
                    opened = True
    rep.check(opened, 'R20.6', wr, '_parse_ptb:open', 'an item starting with "(" pushes the category parsed from the text after the bracket',
              'opening items are not parsed as "(" + category')
    # ... and only an item that does not start with "(" is a word: a category text may itself end with ")" -- ((S\NP)/(S\NP) -- so the
    # opening test comes first; an item is handed to the word / closing routine only where it is known not to open a node
    closers = {red.name, red_c[0].name}
    late = []
    n_close = 0
    for st, o in SymExec(rc_, unroll=1).run():
        for e in st.events:
            if e[0] != 'call' or not ((e[1][1][0] == 'name' and e[1][1][1] in closers) or (e[1][1][0] == 'func' and e[1][1][1] in closers)) or not e[1][2]:
                continue
            from ..core import enclosing_function as _encl
            if _encl(e[-1]) is not rc_:
                continue            # (the closing routine calling itself for the text without its last bracket, read in place)
            item_t = e[1][2][0]
            n_close += 1
            guards = [(c, pol) for c, pol, _ in st.conds]
            not_open = any((not pol) and ((c[0] == 'cmp' and c[1] == '==' and c[3] == C('(') and c[2] == ('sub', item_t, C(0)))
                                          or (c[0] == 'call' and c[1] == A(item_t, 'startswith') and c[2] == (C('('),))) for c, pol in guards) or \
                any(pol and c[0] == 'cmp' and c[1] == '!=' and c[3] == C('(') and c[2] == ('sub', item_t, C(0)) for c, pol in guards)
            if not not_open:
                late.append(e[-1])
    if n_close:
        rep.check(not late, 'R20.6', '%s:%s _parse_ptb' % (RD, late[0].lineno if late else rc_.lineno), '_parse_ptb:open-first',
                  'an item reaches the closing routine only where it is known not to start with "(" (%d call sites on paths)' % n_close,
                  'an item is taken for a word with closing brackets before it was tested for an opening bracket: a category text that ends with ")" -- '
                  '((S\\NP)/(S\\NP), (S[X]/(S[X]\\NP) -- is then not opened as a node and the line the printer wrote is rejected')
    # children order: trees are popped right-to-left, so the first popped is the right child
    okord = False
    detail = ''
    tm = repo.module('depccg/tree.py')
    for st, o in SymExec(red, unroll=2).run():
        mk = [e[1] for e in st.events if e[0] == 'call' and e[1][1] == A(N('Tree'), 'make_binary')]
        if mk:
            try:
                b = bind_args(mk[0], tm.get('Tree.make_binary'))
            except AnalysisError:
                continue
            l_, r_ = b['left'], b['right']
            detail = 'left=%s right=%s' % (show(l_)[:40], show(r_)[:40])
            if l_[0] == 'unpack' and r_[0] == 'unpack' and l_[1] == r_[1]:
                # the popped list may be put back into reading order first: children.reverse(); left, right = children
                flips = len([e for e in st.events if e[0] == 'call' and e[1][1] == A(l_[1], 'reverse') and not e[1][2]])
                base_ = l_[1]
                if base_[0] == 'call' and base_[1] in (N('reversed'),) and len(base_[2]) == 1:
                    flips += 1
                if base_[0] == 'sub' and base_[2] == ('slice', None, None, C(-1)):
                    flips += 1
                want_ = (1, 0) if flips % 2 == 0 else (0, 1)
                if (l_[2], r_[2]) == want_:
                    okord = True
    rep.check(okord, 'R20.6', wr, '_parse_ptb:child-order', 'children popped from the stack (right first) are attached as left = second popped, right = first popped',
              'children are attached in popped order without reversal: %s' % detail)


def r_ja_fields_nonempty(repo, rep, R='R20.6'):
    """the leaf record of the Japanese bank is `{cat word/word/pos/inflection}`: the reader splits it at the slashes, so no field may come
    out empty.  A field built as `'-'.join(parts) if <test> else '_'` is empty exactly when the test does not look at the list that is
    joined (`'-'.join(inflections) if len(poss) else '_'`)."""
    mod = repo.module('depccg/printer/ja.py')
    fn = mod.get('ja_of')
    n = 0
    for e in ast.walk(fn):
        if not (isinstance(e, ast.IfExp) and isinstance(e.body, ast.Call) and isinstance(e.body.func, ast.Attribute) and e.body.func.attr == 'join'
                and len(e.body.args) == 1 and isinstance(e.body.args[0], ast.Name) and isinstance(e.orelse, ast.Constant) and isinstance(e.orelse.value, str)):
            continue
        n += 1
        joined = e.body.args[0].id
        t = e.test
        tested = None
        if isinstance(t, ast.Name):
            tested = t.id
        elif isinstance(t, ast.Call) and isinstance(t.func, ast.Name) and t.func.id == 'len' and len(t.args) == 1 and isinstance(t.args[0], ast.Name):
            tested = t.args[0].id
        elif isinstance(t, ast.Compare) and len(t.ops) == 1 and isinstance(t.left, ast.Call) and isinstance(t.left.func, ast.Name) and t.left.func.id == 'len' \
                and t.left.args and isinstance(t.left.args[0], ast.Name) and isinstance(t.ops[0], (ast.Gt, ast.NotEq)) and isinstance(t.comparators[0], ast.Constant) and t.comparators[0].value == 0:
            tested = t.left.args[0].id
        rep.check(tested == joined and e.orelse.value != '', R, '%s:%s ja_of' % (mod.rel, e.lineno), 'ja_of:field-nonempty:%s' % joined,
                  'the field joined from `%s` falls back to %r exactly when `%s` is empty' % (joined, e.orelse.value, joined),
                  'the field joined from `%s` falls back to %r when `%s`: with `%s` empty and the other not, the field is written empty, the record has a '
                  'slash too few fields for the reader and the line is not read back' % (joined, e.orelse.value, src(t), joined))
    return n


def r_ja(repo, rep):
    pm = repo.module(PJA)
    rec = pm.get('ja_of.rec')
    p = rec.args.args[0].arg
    leaf = node = None
    nodes_ = []
    for st, ret in codec.returns_of(rec):
        if codec.path_has(st, A(N(p), 'is_leaf'), True):
            leaf = ret
        elif codec.path_has(st, A(N(p), 'is_leaf'), False):
            node = ret
            if ret not in nodes_:
                nodes_.append(ret)
    w = '%s:%s ja_of.rec' % (PJA, rec.lineno)
    lt = codec.fstr_tokens(leaf)
    ok = len(lt) == 2 and lt[0][0] == '{' and lt[0][1] == A(N(p), 'cat') and lt[1][-1] == '}'
    fields = None
    if ok:
        # second token: word/word/pos/infl}
        parts = [[]]
        for x in lt[1][:-1]:
            if isinstance(x, str):
                for i, piece in enumerate(x.split('/')):
                    if i:
                        parts.append([])
                    if piece:
                        parts[-1].append(piece)
            else:
                parts[-1].append(x)
        fields = parts
        ok = len(parts) == 4 and all(len(q) == 1 for q in parts) and parts[0] == parts[1] and A(N(p), 'word') in set(subterms(parts[0][0]))
    rep.check(ok, 'R20.6', w, 'ja_of:leaf-template', 'a leaf is written "{cat word/word/pos/inflection}"', 'leaf template is %s' % [codec.tok_text(t)[:60] for t in lt])
    # the surface form is written through utils.normalize (bracket names -> brackets) and read back literally: every
    # other word must pass through unchanged
    if ok:
        wt = parts[0][0]
        plain = wt == A(N(p), 'word') or (wt[0] == 'call' and wt[1][0] == 'name' and wt[2] == (A(N(p), 'word'),))
        rep.check(plain, 'R20.6', w, 'ja_of:word-form', 'the surface form written is node.word, at most through one function of utils (judged below)',
                  'the word is written as %s: the reader takes the text literally, so whatever this rewrites does not read back' % show(wt)[:80])
        if wt[0] == 'call' and wt[1][0] == 'name' and wt[2] == (A(N(p), 'word'),):
            um = repo.module('depccg/utils.py')
            f_ = um.get(wt[1][1], required=False)
            if f_ is not None:
                try:
                    whole, repl = codec.whole_word_map(f_)
                    same = not repl
                    why = 'rewrites %s inside words' % repl if repl else ''
                except AnalysisError as e:
                    same, why = False, str(e)
                rep.check(same, 'R20.6', '%s:%s %s' % (um.rel, f_.lineno, f_.name), 'ja_of:word-verbatim',
                          'words other than the %d bracket names are written exactly as stored (the reader takes the text literally)' % (len(whole) if same else 0),
                          '%s does not leave other words unchanged (%s): the Japanese reader reads back a different word' % (f_.name, why))
    # every way an inner node can be written (unary / binary may be formatted apart) is the one record the reader knows
    okn = bool(nodes_)
    bad_nt = None
    for node_ in nodes_:
        nt = codec.fstr_tokens(node_)
        ok1 = len(nt) == 3 and nt[0] == ['{', A(N(p), 'op_symbol')] and nt[1] == [A(N(p), 'cat')] and nt[2][-1] == '}' and \
            nt[2][0][0] == 'call' and nt[2][0][1] == A(C(' '), 'join')
        if not ok1:
            okn, bad_nt = False, nt
    rep.check(okn, 'R20.6', w, 'ja_of:node-template', 'a node is written "{symbol cat child child}" with the stored rule symbol first',
              'node template is %s' % [codec.tok_text(t)[:60] for t in (bad_nt or [])])
    jm = repo.module(JRD)
    rp_ = codec.ReaderPaths(jm, '_JaCCGLineReader')
    wl = '%s:%s _JaCCGLineReader (leaf records)' % (JRD, rp_.entry.lineno)
    nret = 0
    for st, o in rp_.by_kind['leaf']:
        nret += 1
        args = st.data.get('args', {})
        okseq = [show(a[0]) if a else None for k, a in sorted(args.items())] == ["' '", "'}'"]
        catp = [e[1] for e in st.events if e[0] == 'call' and e[1][1] == A(N('Category'), 'parse')]
        mk = [e[1] for e in st.events if e[0] == 'call' and e[1][1] == A(N('Tree'), 'make_terminal')]
        tokc = [e[1] for e in st.events if e[0] == 'call' and e[1][1] == N('Token')]
        ok = okseq and len(catp) == 1 and len(mk) == 1 and len(tokc) == 1 and codec.field_ids(catp[0]) == [0]
        strip1 = any(s_[0] == 'sub' and s_[1] == ('sym', 'field', 0) and s_[2] == ('slice', C(1), None, None) for s_ in subterms(catp[0])) if catp else False
        rep.check(ok and strip1, 'R20.6', wl, 'ja-reader:leaf:cat', 'the leaf category is the text between the brace and the first blank',
                  'leaf category is parsed from %s (cursor reads %s)' % (show(catp[0])[:80] if catp else None, [show(a[0]) if a else None for k, a in sorted(args.items())]))
        if mk and tokc:
            word = mk[0][2][0]
            okw = word[0] == 'unpack' and word[2] == 0 and codec.field_ids(word) == [1] and \
                any(s_[0] == 'call' and s_[1][0] == 'attr' and s_[1][2] == 'split' and s_[2] == (C('/'),) for s_ in subterms(word))
            rep.check(okw, 'R20.6', wl, 'ja-reader:leaf:word', 'the word is the first "/"-separated field of the second record field',
                      'the leaf word is %s' % show(word)[:80])
            n_names = len(dict(tokc[0][3]))
            rep.check(n_names == 4 and fields is not None and len(fields) == 4, 'R20.6', wl, 'ja-reader:leaf:arity',
                      'the reader unpacks the 4 "/"-separated fields the writer emits', 'the reader expects %d fields, the writer emits %s' % (n_names, len(fields) if fields else '?'))
    rep.floor('returning leaf paths of the ja reader', nret, 1)
    wt = '%s:%s _JaCCGLineReader (node records)' % (JRD, rp_.entry.lineno)
    seen = {'make_unary': False, 'make_binary': False}
    for st, o in rp_.node_paths():
        for kind in seen:
            mk = [e[1] for e in st.events if e[0] == 'call' and e[1][1] == A(N('Tree'), kind)]
            if not mk:
                continue
            seen[kind] = True
            a = mk[0][2]
            sym = a[-2] if len(a) >= 2 else None
            want = ('sub', ('sym', 'field', 0), ('slice', C(1), None, None))
            rep.check(sym == want and a[-1] == want, 'R20.6', wt, 'ja-reader:node:symbol:' + kind,
                      'the node\'s label and symbol are the text between the brace and the first blank (%s)' % kind,
                      '%s stores %s / %s as label and symbol (the writer prints "{" + symbol)' % (kind, show(a[-2])[:40] if len(a) >= 2 else None, show(a[-1])[:40]))
            catp = [e[1] for e in st.events if e[0] == 'call' and e[1][1] == A(N('Category'), 'parse')]
            rep.check(bool(catp) and codec.field_ids(catp[0]) == [1] and a[0] == catp[0], 'R20.6', wt, 'ja-reader:node:cat:' + kind,
                      'the node category is parsed from the second field', 'node category comes from %s' % (codec.field_ids(catp[0]) if catp else None))
            if kind == 'make_binary':
                rep.check(a[1][0] == 'unpack' and a[1][2] == 0 and a[2][0] == 'unpack' and a[2][2] == 1 and a[1][1] == a[2][1], 'R20.6', wt, 'ja-reader:node:order',
                          'children are attached in reading order (left, right)', 'children are attached as %s, %s' % (show(a[1])[:30], show(a[2])[:30]))
    rep.check(all(seen.values()), 'R20.6', wt, 'ja-reader:node:arity', 'unary and binary nodes are both rebuilt', 'rebuilt node kinds: %s' % seen)


def r_ptb_lines(repo, rep, R='R20.4', reader='read_ptb', what='PTB'):
    """read_ptb hands every line that is neither blank nor a heading to the line parser, as it is (stripped): the
    completeness check of the line parser then sees each line by itself -- a line held back until brackets balance, or
    joined with its neighbours, is never rejected when it is incomplete (it swallows the lines after it instead)"""
    rm = repo.module(RD)
    fn = rm.get(reader)
    w = '%s:%s %s' % (RD, fn.lineno, reader)
    judged = 0
    bad = []
    for st, o in SymExec(fn, unroll=1).run():
        enter = [e for e in st.events if e[0] == 'loop-enter']
        if not enter or o == 'raise':
            continue
        it = enter[0][1]
        line_terms = set()
        for x in [t for e in st.events if e[0] == 'call' for t in subterms(e[1])] + [t for c, _p, _ in st.conds for t in subterms(c)]:
            if x[0] in ('unpack', 'elem') and any(y == ('elem', it, None) or (y[0] == 'elem' and y[1] == it) for y in subterms(x)):
                line_terms.add(x)

        def is_line(t):
            while t[0] == 'call' and t[1][0] == 'attr' and t[1][2] in ('strip', 'rstrip', 'lstrip') and not t[2]:
                t = t[1][1]
            return (t[0] == 'unpack' and t[1][0] == 'elem' and t[1][1] == it) or (t[0] == 'elem' and t[1] == it)
        blank = any(pol and c[0] == 'cmp' and c[1] == '==' and C(0) in c[2:] and any(x[0] == 'call' and x[1] == N('len') for x in c[2:]) for c, pol, _ in st.conds) or \
            any((not pol) and is_line(c) for c, pol, _ in st.conds)
        heading = any(pol and c[0] == 'call' and c[1][0] == 'attr' and c[1][2] == 'startswith' and is_line(c[1][1]) for c, pol, _ in st.conds)
        # a heading recognised by anything but a test on how the line starts (a pattern searched anywhere in it, `in`) takes
        # tree lines that merely contain the text for headings
        loose = [show(c)[:50] for c, pol, _ in st.conds if pol and not (c[0] == 'call' and c[1][0] == 'attr' and c[1][2] == 'startswith')
                 and ((c[0] == 'call' and c[1][0] == 'attr' and c[1][2] in ('search', 'findall', 'find') and any(is_line(a_) for a_ in c[2]))
                      or (c[0] == 'cmp' and c[1] == 'in' and is_line(c[3])))]
        parses = [e[1] for e in st.events if e[0] == 'call' and (e[1][1] in (N('_parse_ptb'),) or (e[1][1][0] == 'func' and e[1][1][1] == '_parse_ptb')
                                                                 or (what == 'AUTO' and e[1][1][0] == 'name' and e[1][1][1][:1] == '_' and e[1][1][1][1:2].isupper() and e[1][2]
                                                                     and any(is_line(x_) for x_ in subterms(e[1][2][0]))))]
        if loose and not parses:
            judged += 1
            bad.append('a line is taken for a heading when %s' % loose[0])
            continue
        judged += 1
        if blank or heading:
            continue
        if not parses:
            bad.append('a line that is neither blank nor a heading is not parsed when %s' % '; '.join('%s%s' % ('' if pol else 'not ', show(c)[:40]) for c, pol, _ in st.conds[-2:]))
        elif what != 'AUTO' and not all(p_[2] and is_line(p_[2][0]) for p_ in parses):
            bad.append('the line parser is given %s, not the line' % show(parses[0][2][0] if parses[0][2] else C(None))[:60])
    if judged < 2:      # (heading / line to parse; the blank test may sit in a helper that hands the lines over)
        raise AnalysisError('%s: %s: the line loop was not recognised' % (RD, reader))
    rep.check(not bad, R, w, reader + ':line-by-line', 'every line that is neither blank nor a heading goes to the line parser by itself (%d paths)' % judged,
              '%s -- %s' % ('; '.join(sorted(set(bad))[:2]), 'an incomplete line is not rejected: it is held back and swallows the lines that follow' if what == 'PTB' else 'lines of the file are not read back as trees'))


def check(repo, rep, tier):
    rep.rule('R20.1', 'reader calls of Tree.make_* bind to the signatures; label strings are strings')
    rep.rule('R20.2', 'Japanese reader symbol set covers the printable rule symbols')
    rep.rule('R20.3', 'str.find-derived slice bounds are guarded')
    rep.rule('R20.4', 'PTB completeness check')
    rep.rule('R20.5', 'PTB bracket escaping and its inverse')
    rep.rule('R20.6', 'writer templates vs reader cursor programs, both formats')
    r_signatures(repo, rep)
    n = r_symbols(repo, rep)
    rep.floor('Japanese rule symbols required', n, 13)
    nf = r_find_guard(repo, rep)
    r_annotation_cut(repo, rep)
    r_dependency_pattern(repo, rep)
    r_token_keeps_fields(repo, rep)
    rep.floor('reader functions scanned for find()-derived slices', nf, 25)
    r_ptb(repo, rep)
    r_ptb_lines(repo, rep)
    r_ja(repo, rep)
    r_ja_fields_nonempty(repo, rep)
    # the PTB reader asks guess_combinator_by_triplet for the label of every binary node it builds: that function must
    # hand back a result for any three categories (shared with C12 R12.4)
    from .c12 import r_label_recovery
    r_label_recovery(repo, rep, 'R20.6')
    # both readers hand the category text of a node to Category.parse: its tokeniser (rule of C05) is a condition of
    # "the same categories" -- the shipped lexicon spells the comma category with a trailing blank
    from .c05 import r_delimiters
    r_delimiters(repo.module('depccg/cat.py'), rep, 'R20.6')
    from .c05 import r_atoms
    r_atoms(repo.module('depccg/cat.py'), rep, 'R20.6')
    from .c15 import r_extension_dispatch_text
    r_extension_dispatch_text(repo, rep, 'R20.4', 'read_ptb')
    from .. import rules_pyx as rp
    rp.r_tree_factories(repo, rep, 'R20.1')      # both readers build their nodes with Tree.make_*: the factories store what they are given (a unary node X -> X stays a node)
