"""C03 -- English combinatory rules are sound."""
from ..pygrammar import combinator_functions
from .. import rules_grammar as rg
from ..core import AnalysisError

EXPLANATION = (
    'Abstract evaluation of every combinator of depccg/grammar/en.py (symbolic paths of the function, pattern pair of '
    'its Unification, side conditions, result term, label, head flag) against the CCG schema its label names '
    '(R3.1 schema instance: principal pattern result/argument in the direction of the label, secondary pattern of '
    'the degree the label implies, result = secondary with the cancelled category replaced, literal slashes kept '
    'and wildcard slashes taken from the same node of the same input; R3.2 modifier shortcut returns the other '
    'input itself; R3.3 backward crossed composition refuses a bare N/NP cancelled category; R3.4 non-schema '
    'rules return an input, Y\\Y of an input, or a feature-free literal under literal-pinned inputs; R3.5 labels '
    'and head_is_left=True; R3.6 registry complete, dispatch a filter-free fold, no refusal after a successful '
    'match other than R3.3).  Takes "unification succeeded" to mean the inputs have the patterns\' shape (C06).'
    ' The dispatch fold also checks what the combinators are applied to (inputs with only nb erased).'
    ' Third round: N / NP ruled out on every result path of backward crossed composition; the meaning of _is_punct (truth table and the lettered names it accepts, read through module constants and imports); Functor.__xor__ as used by scan for twice-bound variables.'
    ' Fourth round: every rule that is not a unification schema (conjunction, punctuation, quote / bracket, the comma type-changing rules) yields its result exactly when its premises hold, judged as a decision function over its elementary tests (R3.4 decision).'
    ' Fifth round: the bindings reader replaces bound features as a whole and nothing else; every shared variable position is tested, independently of earlier bindings.'
    ' Sixth and seventh round: _is_type_raised as a truth table (R3.4); category texts hoisted into module-level Category.parse constants are read in place.'
    " Eighth round: no rule kept from a loop reads the loop variable late (R3.5); z.functor(l, r) keeps z's own slash (R3.1)."
    ' Eleventh round: a category looked up in a set of texts is found by hash and restricts nothing (R3.3).')
TRUSTED = ['CPython ast', 'schema table in sa/rules_grammar.py (from the property statement)', 'independent pattern parser sa/symcat.py']

R = {'schema': 'R3.1', 'modifier': 'R3.2', 'restrict': 'R3.3', 'nonschema': 'R3.4', 'labels': 'R3.5', 'complete': 'R3.6'}


def check(repo, rep, tier):
    mod = repo.module(rg.EN)
    rep.rule('R3.1', 'schema conformance of the unification-based combinators (patterns + result term)')
    rep.rule('R3.2', 'modifier shortcut: result is the other input itself when _is_modifier(principal)')
    rep.rule('R3.3', 'N/NP restriction on backward crossed composition, on the cancelled variable')
    rep.rule('R3.4', 'non-schema rules: result in {input, Y\\Y, feature-free literal under literal-pinned inputs}')
    rep.rule('R3.5', 'label vocabulary and head_is_left=True')
    rep.rule('R3.6', 'registry complete; apply_binary_rules filter-free fold; None only on unification failure / R3.3')
    from ..lints import r_late_binding
    r_late_binding(repo, rep, 'R3.5', [rg.EN, 'depccg/grammar/__init__.py'],
                   'every rule built by the loop carries the label (or pattern) of the last one, so a result is labelled with a schema that does not justify it')
    rg.check_is_modifier(mod, rep, 'R3.2')
    rg.check_is_punct(mod, rep, 'R3.4')
    rg.check_is_type_raised(mod, rep, 'R3.4')
    from .c13 import r_functor_builders
    r_functor_builders(repo.module('depccg/cat.py'), rep, 'R3.1')     # the results of the composition rules are rebuilt with z.functor(l, r): it keeps z's own slash, `|` included
    labels = set()
    fns = combinator_functions(mod)
    for name, fn in fns:
        labels |= rg.check_combinator('en', mod, name, fn, rep, R)
    reg = rg.check_dispatch('en', mod, rep, 'R3.6')
    from .. import rules_unif as ru
    pur = ru.Purity(repo, rep, 'R3.6')
    ab = mod.get('apply_binary_rules')
    mutated = pur.analyse(mod, ab)
    rep.check(not mutated and not ab.decorator_list, 'R3.6', '%s:%s apply_binary_rules' % (mod.rel, ab.lineno), '%s:apply_binary_rules:no-memo' % mod.rel,
              'apply_binary_rules keeps no state: each answer is computed from its own arguments', 'apply_binary_rules modifies %s: an answer may come from an earlier call' % sorted(mutated))
    from . import c06
    c06.r_scan(repo, rep, 'R3.1')
    c06.r_scan_deep(repo, rep, 'R3.1')
    c06.r_feature_loop(repo, rep, 'R3.1')
    c06.r_feature_relations(repo, rep, 'R3.1')
    ru.r_instantiation(repo, rep, 'R3.1')
    from .c13 import r_xor
    r_xor(repo.module('depccg/cat.py'), rep, 'R3.1')     # scan() compares a twice-bound variable's two values with ^
    rep.floor('registered English combinators', len(reg), 13)
    rep.floor('schema labels produced', len({l for l, _ in labels if l in rg.SCHEMAS['en']}), 6)
    rep.note('labels', sorted(labels))
