"""C06 -- pattern matching: protocol clauses and structural necessary conditions."""
import ast

from .. import rules_unif as ru
from ..core import AnalysisError, src, qualname_of
from ..pysym import SymExec, show, subterms, self_call_pred, own_params, mark_self_calls, alternatives, all_calls, str_parts
from ..rules_pyx import N, C, A
from .. import logic
from .. import boolfn as bf

EXPLANATION = (
    'Typestate analysis of the matcher on both sides of its interface (R6.1 provider: Unification.__call__ tests '
    '`done` first, raises on a second call, marks itself used before any other effect, and every answering path '
    'leaves self.success equal to the answer; __getitem__ reads bindings only after checking success. R6.2 client: '
    'each of the 16 Unification(...) objects in the grammars is created inside the function that uses it, asked at '
    'most once per path, subscripted only on paths dominated by a successful answer, with literal keys that are meta '
    'variables of its own patterns, and never escapes) plus structural necessary conditions of the success relation '
    '(R6.3 scan: shared variables must agree up to features, functor/functor needs equal slashes or a `|` on either '
    'side and recurses into both sides, a functor pattern never matches an atom; R6.4 feature agreement loop fails '
    'exactly when neither side unifies with the other and records X := value only for variables; R6.5 the '
    'compatibility relations of the two feature classes).  The full success condition and the content of bindings '
    'quantify over runtime values and are not decided.'
    ' The leaf numbering under a variable is accepted in three spellings (threaded index, shared counter, enumerate over a left-to-right generator); every leaf path is judged.'
    " Fourth round: Functor.functor and the slash operators (rules of C13) are conditions of 'a bound sub-category is handed out as it was matched'."
    ' Fifth round: the bindings reader replaces bound features as a whole and nothing else; every shared variable position is tested, independently of earlier bindings.'
    ' Sixth round: the delimiter and associativity rules of C05 are clauses here (the patterns are read by Category.parse).'
    ' Eleventh round: a feature is bound only on paths where it was found to be a variable itself (R6.4).')
TRUSTED = ['CPython ast', 'sa/pysym.py path walker', 'rule table DESIGN.md C06']

UNI = ru.UNI
CAT = 'depccg/cat.py'


def matcher_helpers(mod):
    """-> (scan, scan_deep): the recursive helpers of the matcher -- closures of Unification.__call__ or methods of the
    class -- found by role (self-recursive; 3 own parameters = structural scan, 4 = leaf numbering), not by name"""
    call = mod.get('Unification.__call__')
    cls = mod.get('Unification')
    from ..core import enclosing_function
    cands = [n for n in ast.walk(call) if isinstance(n, ast.FunctionDef) and n is not call and enclosing_function(n) is call]
    cands += [n for n in cls.body if isinstance(n, ast.FunctionDef) and not (n.name.startswith('__') and n.name.endswith('__'))]
    for meth in [n for n in cls.body if isinstance(n, ast.FunctionDef) and n is not call]:
        cands += [n for n in ast.walk(meth) if isinstance(n, ast.FunctionDef) and n is not meth]
    cands += [n for n in mod.tree.body if isinstance(n, ast.FunctionDef)]
    rec = []
    for fn in cands:
        pred = self_call_pred(fn)
        ex = SymExec(fn, inline=False)
        is_rec = False
        for n in ast.walk(fn):
            if isinstance(n, ast.Call):
                f = n.func
                t = ('name', f.id) if isinstance(f, ast.Name) else (('attr', ('name', f.value.id), f.attr) if isinstance(f, ast.Attribute) and isinstance(f.value, ast.Name) else None)
                if t is not None and pred(t):
                    is_rec = True
        if is_rec:
            rec.append(fn)
    def parallel_descent(fn):
        """does a recursive call descend into two parameters at once (p.left, q.left)?  -- the structural scan walks
        pattern and input together, the leaf numbering walks one category"""
        ps = own_params(fn)
        pred = self_call_pred(fn)
        for n in ast.walk(fn):
            if isinstance(n, ast.Call):
                f = n.func
                t = ('name', f.id) if isinstance(f, ast.Name) else (('attr', ('name', f.value.id), f.attr) if isinstance(f, ast.Attribute) and isinstance(f.value, ast.Name) else None)
                if t is not None and pred(t):
                    desc = {a.value.id for a in n.args if isinstance(a, ast.Attribute) and a.attr in ('left', 'right') and isinstance(a.value, ast.Name) and a.value.id in ps}
                    if len(desc) >= 2:
                        return True
        return False
    scan = [n for n in rec if len(own_params(n)) in (3, 4) and parallel_descent(n)]
    deep = [n for n in rec if len(own_params(n)) == 4 and not parallel_descent(n)]
    leaves = [n for n in rec if len(own_params(n)) == 1 and any(isinstance(x, (ast.Yield, ast.YieldFrom)) for x in ast.walk(n))]
    if len(scan) != 1 or len(deep) > 1 or (not deep and len(leaves) != 1):
        raise AnalysisError('%s: cannot identify the structural scan (recursive, 3 parameters) and the leaf numbering '
                            '(recursive with 4 parameters, or a recursive generator of the leaves) of the matcher' % UNI)
    return scan[0], (deep[0] if deep else leaves[0])


def scan_roles(scan):
    """-> (pattern param, input param, feature-table param, term of the table of bound variables, recursion args builder)
    for the structural scan written with the bound-variable table as `self.cats` (3 parameters) or handed in explicitly
    (4 parameters: the one that gets `[pattern.base] = input` stored)"""
    ps = own_params(scan)
    if len(ps) == 3:
        s, t, res = ps
        return s, t, res, A(N('self'), 'cats'), (lambda a, b: (a, b, N(res)))
    s, t = ps[0], ps[1]
    cats = None
    for n in ast.walk(scan):
        if isinstance(n, ast.Assign) and len(n.targets) == 1 and isinstance(n.targets[0], ast.Subscript) and isinstance(n.targets[0].value, ast.Name) \
                and n.targets[0].value.id in ps[2:] and isinstance(n.value, ast.Name) and n.value.id == t:
            cats = n.targets[0].value.id
    if cats is None:
        raise AnalysisError('%s: %s: cannot tell which parameter is the table of bound variables' % (UNI, scan.name))
    res = [p_ for p_ in ps[2:] if p_ != cats][0]
    order = ps[2:]
    return s, t, res, N(cats), (lambda a, b: (a, b) + tuple(N(p_) for p_ in order))


def flat(t, op):
    if t[0] == 'bool' and t[1] == op:
        out = []
        for x in t[2]:
            out += flat(x, op)
        return out
    return [t]


def _bool_paths(fn, **kw):
    """[(conds, value-or-tag)] of a boolean helper, recursive calls marked, conditional expressions split"""
    vals = []
    paths = SymExec(fn, **kw).run()
    for st, out in paths:
        conds = [(mark_self_calls(c, fn), p) for c, p, _ in st.conds]
        if out == 'raise':
            vals.append((conds, 'raise'))
            continue
        ret = st.ret if out == 'return' and st.ret is not None else C(None)
        for g, v in alternatives(mark_self_calls(ret, fn)):
            vals.append((conds + list(g), v))
    return paths, vals


def r_scan(repo, rep, R='R6.3'):
    """the structural scan, read as a boolean function of its elementary tests, equals the specification:
         atomic pattern, variable already bound to something different (up to features)  -> no match
         functor vs functor  -> (slashes equal or `|` on either side) and left matches and right matches
         atomic pattern otherwise -> match;  functor pattern vs atomic input -> no match"""
    mod = repo.module(UNI)
    scan, deep = matcher_helpers(mod)
    s, t, res, CATS, rec_args = scan_roles(scan)
    S_, T_ = N(s), N(t)
    w = '%s:%s %s' % (UNI, scan.lineno, qualname_of(scan))
    paths, vals = _bool_paths(scan, no_inline=(deep.name,))
    shape = {}
    for v in (s, t):
        shape[v] = (('truthy', A(N(v), 'is_functor')), ('truthy', A(N(v), 'is_atomic')))

    def constraint(sigma):
        return all(not (f in sigma and a in sigma) or sigma[f] != sigma[a] for f, a in shape.values())
    try:
        atoms, rows = logic.truth_function(vals, constraint)
    except ValueError as e:
        raise AnalysisError('%s: %s tests too many conditions (%s)' % (UNI, scan.name, e))
    bound = ('sub', CATS, A(S_, 'base'))
    SEEN = [a for a in atoms if a[0] == 'in' and a[1] == A(S_, 'base') and a[2] == CATS]
    XOR = [a for a in atoms if a[0] == 'truthy' and a[1][0] == 'binop' and a[1][1] == '^' and {a[1][2], a[1][3]} == {T_, bound}]
    EQ = [a for a in atoms if a[0] == 'eq' and set(a[1:]) == {A(S_, 'slash'), A(T_, 'slash')}]
    WILD = [a for a in atoms if (a[0] == 'in' and a[1] == C('|') and a[2][0] in ('tuple', 'list', 'set') and set(a[2][1]) == {A(S_, 'slash'), A(T_, 'slash')})]
    wild_each = [a for a in atoms if a[0] == 'eq' and C('|') in a[1:] and (set(a[1:]) - {C('|')}) <= {A(S_, 'slash'), A(T_, 'slash')}]
    if not WILD and len(wild_each) == 2:
        WILD = wild_each
    rec = lambda side: ('truthy', ('call', ('selfcall',), rec_args(A(S_, side), A(T_, side)), ()))
    L, Rr = rec('left'), rec('right')

    def functor(v, sigma):
        f, a = shape[v]
        if f in sigma:
            return sigma[f]
        if a in sigma:
            return not sigma[a]
        return None
    missing = []
    if not SEEN or not XOR:
        missing.append(('scan:shared-variable', 'no test that a meta variable seen before stands for an equal (up to features) sub-category'))
    if not EQ or not WILD or L not in atoms or Rr not in atoms:
        missing.append(('scan:functor-functor', 'functor/functor case is wrong: slash equality test %s, `|` wildcard test %s, recursion into left %s, right %s'
                        % (bool(EQ), bool(WILD), L in atoms, Rr in atoms)))
    if any(functor(v, dict.fromkeys(atoms, True)) is None for v in (s, t)):
        missing.append(('scan:functor-vs-atom', 'the scan never tests the shape of both the pattern and the input'))
    for key, msg in missing:
        rep.violation(R, w, key, msg)
    bad = {}
    n_rows = 0
    if not missing:
        for sigma, results in rows:
            fs, ft = functor(s, sigma), functor(t, sigma)
            if not fs and logic.any_of(sigma, SEEN) and not logic.any_of(sigma, XOR):
                want, case = False, 'scan:shared-variable'
            elif fs and ft:
                want, case = (logic.any_of(sigma, EQ) or logic.any_of(sigma, WILD)) and sigma[L] and sigma[Rr], 'scan:functor-functor'
            elif not fs:
                want, case = True, 'scan:atomic-pattern'
            else:
                want, case = False, 'scan:functor-vs-atom'
            n_rows += 1
            if results != {want}:
                bad.setdefault(case, []).append('answers %s instead of %s when %s' % (sorted(map(str, results)), want, logic.show_sigma(sigma, show)))
    for case, text, bad_text in (
            ('scan:shared-variable', 'a meta variable seen twice must stand for sub-categories equal up to features (else no match)',
             'repeated meta variable'),
            ('scan:functor-functor', 'functor vs functor needs equal slashes or `|` on either side and matches both sides', 'functor/functor case is wrong'),
            ('scan:atomic-pattern', 'an atomic pattern (variable) matches any category not contradicting an earlier binding', 'atomic pattern case is wrong'),
            ('scan:functor-vs-atom', 'a functor pattern never matches an atomic category', 'functor pattern vs atomic input')):
        if any(k == case for k, _ in missing):
            continue
        rep.check(case not in bad, R, w, case, text + ' (truth table over %d elementary tests, %d rows)' % (len(atoms), n_rows),
                  '%s: %s' % (bad_text, '; '.join(bad.get(case, [])[:2])))
    # the binding is recorded whenever an atomic pattern is accepted
    okb = True
    for st, out in paths:
        conds = [(c, p) for c, p, _ in st.conds]
        f_atomic = logic.formula(A(S_, 'is_atomic'))
        atomic = logic.implied(conds, f_atomic) or logic.implied(conds, logic.neg(logic.formula(A(S_, 'is_functor'))))
        if out == 'return' and atomic and st.ret != C(False) and logic.satisfiable(conds, constraint):
            sets = [e for e in st.events if e[0] == 'setitem' and e[1] == CATS]
            okb = okb and len(sets) == 1 and sets[0][2] == A(S_, 'base') and sets[0][3] == T_
    rep.check(okb, R, w, 'scan:binds', 'an accepted atomic pattern binds its variable to the matched sub-category',
              'an accepted atomic pattern does not record self.cats[variable] = matched sub-category')
    rep.floor('scan paths', len(paths), 5)


def r_scan_deep(repo, rep, R='R6.3'):
    """leaf features of a sub-category bound to a variable are numbered consecutively from 0, left to right.  Three ways
    of writing it are recognised: an index threaded through the recursion, a shared counter drawn from at every leaf, and
    enumerate() over a left-to-right generator of the leaves."""
    mod = repo.module(UNI)
    scan, sd = matcher_helpers(mod)
    ps = own_params(sd)
    w = '%s:%s %s' % (UNI, sd.lineno, qualname_of(sd))
    is_self = self_call_pred(sd)
    s2, t2, res2, _cats2, _rec2 = scan_roles(scan)
    wscan = '%s:%s %s' % (UNI, scan.lineno, qualname_of(scan))
    is_deep = self_call_pred(sd)
    if len(ps) == 1:
        # (c) generator of the leaves + enumerate
        s = ps[0]
        fun_ok = leaf_ok = None
        yields_feature = False
        detail = []
        for st, o in SymExec(sd, inline=False).run():
            conds = [(c, pol) for c, pol, _ in st.conds]
            ys = [e[1] for e in st.events if e[0] == 'expr' and e[1][0] in ('yield', 'yieldfrom')]
            is_fun = logic.implied(conds, logic.formula(A(N(s), 'is_functor'))) or logic.implied(conds, logic.neg(logic.formula(A(N(s), 'is_atomic'))))
            if is_fun:
                ok = len(ys) == 2 and all(y[0] == 'yieldfrom' and y[1][0] == 'call' and is_self(y[1][1]) for y in ys) and \
                    ys[0][1][2] == (A(N(s), 'left'),) and ys[1][1][2] == (A(N(s), 'right'),)
                fun_ok = ok if fun_ok is None else (fun_ok and ok)
                detail.append('functor: %s' % [show(y)[:50] for y in ys])
            else:
                ok = ys in ([('yield', N(s))], [('yield', A(N(s), 'feature'))])      # the leaf itself, or its feature
                if ys == [('yield', A(N(s), 'feature'))]:
                    yields_feature = True
                leaf_ok = ok if leaf_ok is None else (leaf_ok and ok)
                detail.append('leaf: %s' % [show(y)[:50] for y in ys])
        # use: for i, leaf in enumerate(leaves(t)): results[f'{var}{i}'] = leaf.feature
        use_ok = False
        for st, o in SymExec(scan, no_inline=(sd.name,)).run():
            for e in st.events:
                if e[0] == 'loop-enter' and e[1][0] == 'call' and e[1][1] == N('enumerate'):
                    en = e[1]
                    start = en[2][1] if len(en[2]) > 1 else dict(en[3]).get('start', C(0))
                    src_ok = en[2] and en[2][0][0] == 'call' and is_deep(en[2][0][1]) and en[2][0][2] == (N(t2),) and start == C(0)
                    el = ('elem', en, e[2].lineno)
                    sets = [(x[2], x[3]) for x in st.events if x[0] == 'setitem' and x[1] == N(res2)]
                    want_key = [A(N(s2), 'base'), ('unpack', el, 0)]
                    want_val = ('unpack', el, 1) if yields_feature else A(('unpack', el, 1), 'feature')
                    okk = any(str_parts(k) == want_key and v == want_val for k, v in sets)
                    use_ok = use_ok or (src_ok and okk)
        rep.check(bool(leaf_ok) and bool(fun_ok) and use_ok, R, w, 'scan_deep:leaf-numbering',
                  'the leaves are produced left to right and numbered by enumerate from 0 (%s)' % '; '.join(detail),
                  'the leaves under a variable are not numbered consecutively left to right from 0, so features at corresponding positions are not the ones compared: %s; use in scan ok: %s' % ('; '.join(detail), use_ok))
        rep.check(use_ok, R, wscan, 'scan_deep:start', 'numbering starts at 0 for each variable occurrence', 'the leaf numbering does not start at 0 for each variable occurrence')
        return
    s, v, idx, res = ps

    def on_call(st, t, node):
        if is_self(t[1]) and len(t[2]) == 4:
            k = len(st.data.setdefault('rec', []))
            st.data['rec'].append(t[2])
            return ('sym', 'next-free-index', k)
        return None
    leaf_ok = fun_ok = None
    counter_mode = False
    detail = []
    for st, o in SymExec(sd, on_call=on_call, init_env={sd.name: ('func', sd.name, id(sd))}).run():
        conds = [(c, pol) for c, pol, _ in st.conds]
        recs = st.data.get('rec', [])
        is_fun = logic.implied(conds, logic.formula(A(N(s), 'is_functor'))) or logic.implied(conds, logic.neg(logic.formula(A(N(s), 'is_atomic'))))
        nxt = ('call', N('next'), (N(idx),), ())
        if is_fun:
            threaded = len(recs) == 2 and recs[0][0] == A(N(s), 'left') and recs[0][2] == N(idx) and recs[1][0] == A(N(s), 'right') and \
                recs[1][2] == ('sym', 'next-free-index', 0) and st.ret == ('sym', 'next-free-index', 1) and \
                all(r[1] == N(v) and r[3] == N(res) for r in recs)
            shared = len(recs) == 2 and recs[0][0] == A(N(s), 'left') and recs[1][0] == A(N(s), 'right') and \
                all(r[1] == N(v) and r[2] == N(idx) and r[3] == N(res) for r in recs)
            ok = threaded or shared
            fun_ok = ok if fun_ok is None else (fun_ok and ok)
            detail.append('functor: %s -> %s' % ([show(r[2]) for r in recs], show(st.ret) if st.ret else None))
        else:
            sets = [(e[2], e[3]) for e in st.events if e[0] == 'setitem' and e[1] == N(res)]
            threaded = len(sets) == 1 and str_parts(sets[0][0]) == [N(v), N(idx)] and sets[0][1] == A(N(s), 'feature') and \
                st.ret in (('binop', '+', N(idx), C(1)), ('binop', '+', C(1), N(idx))) and not recs
            draws = [e for e in st.events if e[0] == 'call' and e[1] == nxt]
            shared = len(sets) == 1 and str_parts(sets[0][0]) == [N(v), nxt] and sets[0][1] == A(N(s), 'feature') and len(draws) == 1 and not recs
            counter_mode = counter_mode or shared
            ok = threaded or shared
            leaf_ok = ok if leaf_ok is None else (leaf_ok and ok)
            detail.append('leaf: %s -> %s' % ([(show(a), show(b)) for a, b in sets], show(st.ret) if st.ret else None))
    rep.check(bool(leaf_ok) and bool(fun_ok), R, w, 'scan_deep:leaf-numbering',
              'every leaf gets the next free index and the right side continues where the left side stopped (%s)' % '; '.join(detail),
              'the leaves under a variable are not numbered consecutively left to right, so features at corresponding positions are not the ones compared: %s' % '; '.join(detail))
    # started at 0 with the input, the variable name and the feature table of the side being scanned
    starts = []
    for st, o in SymExec(scan, no_inline=(sd.name,)).run():
        for c_ in all_calls(st):
            if is_deep(c_[1]) and c_[2] not in starts:
                starts.append(c_[2])
    fresh0 = (C(0),) if not counter_mode else (('call', N('count'), (), ()), ('call', A(N('itertools'), 'count'), (), ()),
                                               ('call', N('count'), (C(0),), ()), ('call', A(N('itertools'), 'count'), (C(0),), ()))
    ok = len(starts) == 1 and len(starts[0]) == 4 and starts[0][0] == N(t2) and starts[0][1] == A(N(s2), 'base') and starts[0][2] in fresh0 and starts[0][3] == N(res2)
    rep.check(ok, R, wscan, 'scan_deep:start', 'numbering starts at 0 for each variable occurrence',
              'the leaf numbering is started with %s' % [[show(a) for a in st_] for st_ in starts])


def flatten_all(conds):
    return ru.flatten_guards(conds)


def r_feature_loop(repo, rep, R='R6.4'):
    mod = repo.module(UNI)
    call = mod.get('Unification.__call__')
    w = '%s:%s Unification.__call__' % (UNI, call.lineno)
    fail = xmap = ymap = False
    n = 0
    for st, out in SymExec(call, unroll=1).run():
        enter = [e for e in st.events if e[0] == 'loop-enter']
        if not enter:
            continue
        n += 1
        it = enter[0][1]
        var = ('elem', it, enter[0][2].lineno)
        xf = ('sub', A(N('self'), 'x_features'), var)
        yf = ('sub', A(N('self'), 'y_features'), var)
        conds = [(e[1], e[2]) for e in st.events if e[0] == 'branch']
        u_xy = ('call', A(xf, 'unifies'), (yf,), ())
        u_yx = ('call', A(yf, 'unifies'), (xf,), ())
        sets = [(e[2], e[3]) for e in st.events if e[0] == 'setitem' and e[1] == A(N('self'), 'mapping')]
        if (u_xy, False) in conds and (u_yx, False) in conds and st.ret == C(False):
            fail = True
        if (u_xy, True) in conds and (A(xf, 'is_variable'), True) in conds and (xf, yf) in sets:
            xmap = True
        if (u_xy, False) in conds and (u_yx, True) in conds and (A(yf, 'is_variable'), True) in conds and (yf, xf) in sets:
            ymap = True
        bad = [s_ for s_ in sets if s_ not in ((xf, yf), (yf, xf))]
        rep.check(not bad, R, w, 'feature-loop:mapping-only-pairs', 'only variable := partner-feature pairs are recorded',
                  'records %s' % [(show(a)[:40], show(b)[:40]) for a, b in bad])
        # ... and the key of a recorded pair is itself a variable on that path (`if x.is_variable or y.is_variable:` also records
        # "no feature := X", which then rewrites every feature-less atom of the results)
        unkeyed = [s_ for s_ in sets if s_ in ((xf, yf), (yf, xf)) and (A(s_[0], 'is_variable'), True) not in conds]
        rep.check(not unkeyed, R, w, 'feature-loop:key-is-variable', 'a feature is bound only where it is a variable itself',
                  'records %s on a path where the key was not found to be a variable: a constant (or absent) feature is then replaced in the results'
                  % [(show(a)[:40], show(b)[:40]) for a, b in unkeyed][:1])
        wrapped = it[0] == 'call' and it[1] == N('sorted')
        inner = it[2][0] if wrapped else it
        okset = show(inner).replace(' ', '') in ('(set(self.x_features.keys())&set(self.y_features.keys()))',
                                                 '(set(self.y_features.keys())&set(self.x_features.keys()))',
                                                 '(self.x_features.keys()&self.y_features.keys())',
                                                 '(set(self.x_features)&set(self.y_features))',
                                                 '(set(self.y_features)&set(self.x_features))',
                                                 '(self.y_features.keys()&self.x_features.keys())')
        if not okset and inner[0] in ('listcomp', 'genexp', 'setcomp') and len(inner[2]) == 1:
            # the keys of one table filtered by membership in the other
            src_t, filt = inner[2][0]
            keys_of = lambda t_: t_[1][1] if (t_[0] == 'call' and t_[1][0] == 'attr' and t_[1][2] == 'keys' and not t_[2]) else t_
            a_ = keys_of(src_t)
            el = ('elem', src_t, None)
            same_elem = lambda t_: t_[0] == 'elem' and t_[1] == src_t
            if same_elem(inner[1]) and len(filt) == 1 and filt[0][0] == 'cmp' and filt[0][1] == 'in' and same_elem(filt[0][2]):
                b_ = keys_of(filt[0][3])
                okset = {a_, b_} == {A(N('self'), 'x_features'), A(N('self'), 'y_features')}
        rep.check(okset, R, w, 'feature-loop:shared', 'the loop visits exactly the variables seen on both sides (%s)' % show(it)[:90],
                  'the loop visits %s' % show(it)[:90])
    # what happens to one shared variable is decided by the two compatibility tests and the two is-variable tests alone:
    # not by what an earlier position bound (two paths that agree on the four tests but differ in a test on self.mapping
    # and in what they record / answer)
    by_case = {}
    untested = []
    for st, out in SymExec(call, unroll=1).run():
        enter = [e for e in st.events if e[0] == 'loop-enter']
        if not enter or out == 'raise':
            continue
        it = enter[0][1]
        var = ('elem', it, enter[0][2].lineno)
        xf = ('sub', A(N('self'), 'x_features'), var)
        yf = ('sub', A(N('self'), 'y_features'), var)
        atoms = {('call', A(xf, 'unifies'), (yf,), ()): 'x~y', ('call', A(yf, 'unifies'), (xf,), ()): 'y~x', A(xf, 'is_variable'): 'xvar', A(yf, 'is_variable'): 'yvar'}
        i0 = st.events.index(enter[0])
        case, other = {}, []
        for e in st.events[i0:]:
            if e[0] == 'branch':
                if e[1] in atoms:
                    case[atoms[e[1]]] = e[2]
                else:
                    other.append((e[1], e[2]))
        sets = tuple((e[2], e[3]) for e in st.events[i0:] if e[0] == 'setitem' and e[1] == A(N('self'), 'mapping'))
        outcome = (sets, st.ret if out == 'return' and any(e[0] == 'loop-enter' for e in st.events) and not any(e[0] == 'loop-exit' for e in st.events) else 'goes on')
        by_case.setdefault(tuple(sorted(case.items())), []).append((outcome, other))
        if 'x~y' not in case and 'y~x' not in case:
            untested.append([('' if pol else 'not ') + show(c)[:70] for c, pol in other][-1:] or ['a path without any test'])
    rep.check(not untested, R, w, 'feature-loop:every-position-tested', 'every shared variable position goes through the compatibility test',
              'a position is passed over without comparing the two features (%s): an incompatible pair there is accepted' % [u[0] for u in untested][:2])
    state_dep = []
    for case, outs in by_case.items():
        if len({o for o, _ in outs}) > 1:
            for o, other in outs:
                for c, pol in other:
                    if any(x == A(N('self'), 'mapping') for x in subterms(c)):
                        state_dep.append('%s%s' % ('' if pol else 'not ', show(c)[:70]))
    rep.check(not state_dep, R, w, 'feature-loop:stateless', 'what is recorded for a variable does not depend on bindings made at earlier positions',
              'the treatment of a shared variable depends on what was bound before (%s): a position is skipped or judged differently once the variable has a value, '
              'so an incompatible feature further right is accepted' % sorted(set(state_dep))[:2])
    rep.check(fail, R, w, 'feature-loop:fail', 'matching fails exactly when neither side\'s feature unifies with the other',
              'no failing path with both unifies() tests false')
    rep.check(xmap and ymap, R, w, 'feature-loop:instantiation', 'a variable feature on either side is instantiated with the partner\'s feature',
              'variable instantiation is recorded for x side: %s, y side: %s' % (xmap, ymap))
    rep.floor('paths through the feature loop', n, 4)


def r_feature_relations(repo, rep, R='R6.5'):
    mod = repo.module(CAT)

    def ret_of(q):
        fn = mod.get(q)
        ps = SymExec(fn).run()
        return fn, ps
    fn = mod.get('UnaryFeature.unifies')
    o = fn.args.args[1].arg
    SELF = N('self')
    ok, detail = bf.matches(fn, bf.OR(bf.T(A(SELF, 'is_variable')), bf.T(A(SELF, 'is_ignorable')), bf.T(('cmp', '==', SELF, N(o)))),
                            no_inline=('is_variable', 'is_ignorable'))
    rep.check(ok, R, '%s:%s UnaryFeature.unifies' % (CAT, fn.lineno), 'UnaryFeature.unifies',
              'a plain feature is compatible when it is a variable, ignorable (absent / nb) or equal (%s)' % detail, 'UnaryFeature.unifies: %s' % detail)
    fn = mod.get('UnaryFeature.is_variable')
    ok, detail = bf.matches(fn, bf.T(('cmp', '==', A(SELF, 'value'), C('X'))))
    rep.check(ok, R, '%s:%s UnaryFeature.is_variable' % (CAT, fn.lineno), 'UnaryFeature.is_variable', 'the variable feature is X', 'is_variable: %s' % detail)
    fn = mod.get('UnaryFeature.is_ignorable')
    ok, detail = bf.matches(fn, bf.OR(bf.T(('cmp', 'is', A(SELF, 'value'), C(None))), bf.T(('cmp', '==', A(SELF, 'value'), C('nb')))))
    rep.check(ok, R, '%s:%s UnaryFeature.is_ignorable' % (CAT, fn.lineno), 'UnaryFeature.is_ignorable',
              'ignorable means absent or nb', 'is_ignorable: %s' % detail)
    # three-part features: equal, or same keys and every value equal or a variable (X...) on the asking side
    fn = mod.get('TernaryFeature.unifies')
    o = fn.args.args[1].arg
    paths, vals = bf.paths_of(fn)
    pairs = ('call', N('zip'), (('call', A(SELF, 'values'), (), ()), ('call', A(N(o), 'values'), (), ())), ())
    alls = [t for _, v in vals if isinstance(v, tuple) for t in subterms(v)
            if t[0] == 'call' and t[1] == N('all') and len(t[2]) == 1 and t[2][0][0] in ('genexp', 'listcomp') and len(t[2][0][2]) == 1]
    allv = False
    ALL = None
    for t in alls:
        it, filt = t[2][0][2][0]
        if it != pairs or filt:
            continue
        el = [x for x in subterms(t[2][0][1]) if x[0] == 'elem' and x[1] == it]
        if not el:
            continue
        v1, v2 = ('unpack', el[0], 0), ('unpack', el[0], 1)
        want = bf.OR(bf.T(('cmp', '==', v1, v2)), bf.T(('call', A(v1, 'startswith'), (C('X'),), ())))
        try:
            okv, _, _ = logic.equivalent([([], t[2][0][1])], want)
        except ValueError:
            okv = False
        if okv:
            allv = True
            ALL = t
    ok = False
    detail = 'no value-by-value test all(v1 == v2 or v1.startswith("X") for v1, v2 in zip(self.values(), %s.values()))' % o
    if allv:
        keys_eq = [a_ for a_ in logic.atoms_of(('and', tuple(logic.path_formula(c) for c, _ in vals))) if a_[0] == 'eq' and 'keys' in show(a_[1]) and 'keys' in show(a_[2])]
        if len(keys_eq) == 1:
            want = bf.OR(bf.T(('cmp', '==', SELF, N(o))), bf.AND(('atom', keys_eq[0]), bf.T(ALL)))
            ok, detail = bf.matches(fn, want)
        else:
            detail = 'no single comparison of the two key tuples (%d found)' % len(keys_eq)
    rep.check(ok, R, '%s:%s TernaryFeature.unifies' % (CAT, fn.lineno), 'TernaryFeature.unifies',
              'three-part features are compatible when equal, or same keys and every value equal or a variable (X...) on the asking side (%s)' % detail,
              'TernaryFeature.unifies: %s' % detail)


def shared_sites(repo, rep):
    """rules that both grammars import from depccg/grammar/__init__.py are written once and registered twice: for the instance floor a
    site in such a rule counts once per grammar that imports the rule (the count says how many registered rules were inspected)."""
    extra = 0
    shared = repo.module('depccg/grammar/__init__.py')
    for rel in ('depccg/grammar/en.py', 'depccg/grammar/ja.py'):
        tree = ast.parse(repo.text(rel))
        names = {a.name for imp in ast.walk(tree) if isinstance(imp, ast.ImportFrom) and imp.module == 'depccg.grammar' for a in imp.names}
        k = 0
        for nm in sorted(names):
            fn = shared.get(nm, required=False)
            if isinstance(fn, ast.FunctionDef):
                k += sum(1 for c in ast.walk(fn) if isinstance(c, ast.Call) and isinstance(c.func, ast.Name) and c.func.id == 'Unification')
        extra += k
    # every site was counted once already where it is written
    return max(0, extra - sum(1 for c in ast.walk(shared.tree) if isinstance(c, ast.Call) and isinstance(c.func, ast.Name) and c.func.id == 'Unification'))


def check(repo, rep, tier):
    rep.rule('R6.1', 'provider typestate of Unification (__call__: done-check first, mark used, answer == success; __getitem__: success checked before reading)')
    rep.rule('R6.2', 'client typestate at every Unification(...) site: local, asked once, read only after success, keys are pattern variables')
    rep.rule('R6.3', 'scan: shared-variable agreement, functor/functor slash compatibility with | wildcard and two-sided recursion, functor-vs-atom fails')
    rep.rule('R6.4', 'feature agreement loop: shared variables, failure iff neither unifies, instantiation recorded for variables only')
    rep.rule('R6.5', 'feature compatibility relations of UnaryFeature / TernaryFeature')
    ru.r_provider_typestate(repo, rep)
    ru.r_instantiation(repo, rep, 'R6.1')
    # the patterns are given as text: what the matcher compares against is what Category.parse makes of "(b/c)|d" -- the
    # tokeniser and the stack machine of the parser (rules of C05) are conditions of "| matches either slash"
    from . import c05
    cm_ = repo.module('depccg/cat.py')
    c05.r_delimiters(cm_, rep, 'R6.1')
    c05.r_associativity(cm_, rep, 'R6.1')
    files = ['depccg/grammar/en.py', 'depccg/grammar/ja.py', 'depccg/grammar/__init__.py']
    if tier == 'thorough':
        files = [f for f in repo.py_files('depccg') if not f.startswith(('depccg/allennlp', 'depccg/chainer'))]
    n = ru.r_client_typestate(repo, rep, files)
    n += shared_sites(repo, rep)
    rep.floor('Unification(...) client sites', n, 16)
    r_scan(repo, rep)
    r_scan_deep(repo, rep)
    from .c13 import r_xor, r_functor_builders
    r_xor(repo.module('depccg/cat.py'), rep, 'R6.3')
    # a binding that is a functor is handed out rebuilt through x.functor(..): with x's own slash, whichever it is
    r_functor_builders(repo.module('depccg/cat.py'), rep, 'R6.3')
    r_feature_loop(repo, rep)
    r_feature_relations(repo, rep)
