"""C06 -- pattern matching: protocol clauses and structural necessary conditions."""
import ast

from .. import rules_unif as ru
from ..core import AnalysisError, src
from ..pysym import SymExec, show, subterms
from ..rules_pyx import N, C, A

EXPLANATION = (
    'Typestate analysis of the matcher on both sides of its interface (R6.1 provider: Unification.__call__ tests '
    '`done` first, raises on a second call, marks itself used before any other effect, and every answering path '
    'leaves self.success equal to the answer; __getitem__ reads bindings only after checking success. R6.2 client: '
    'each of the 16 Unification(...) objects in the grammars is created inside the function that uses it, asked at '
    'most once per path, subscripted only on paths dominated by a successful answer, with literal keys that are meta '
    'variables of its own patterns, and never escapes) plus structural necessary conditions of the success relation '
    '(R6.3 scan: shared variables must agree up to features, functor/functor needs equal slashes or a `|` on either '
    'side and recurses into both sides, a functor pattern never matches an atom; R6.4 feature agreement loop fails '
    'exactly when neither side unifies with the other and records X := value only for variables; R6.5 the '
    'compatibility relations of the two feature classes).  The full success condition and the content of bindings '
    'quantify over runtime values and are not decided.')
TRUSTED = ['CPython ast', 'sa/pysym.py path walker', 'rule table DESIGN.md C06']

UNI = ru.UNI
CAT = 'depccg/cat.py'


def matcher_helpers(mod):
    """-> (scan, scan_deep): the nested helpers of Unification.__call__, found by role (arity and recursion), not by name"""
    call = mod.get('Unification.__call__')
    from ..core import enclosing_function
    nested = [n for n in ast.walk(call) if isinstance(n, ast.FunctionDef) and n is not call and enclosing_function(n) is call]
    scan = [n for n in nested if len(n.args.args) == 3]
    deep = [n for n in nested if len(n.args.args) == 4]
    if len(scan) != 1 or len(deep) != 1:
        raise AnalysisError('%s: cannot identify the structural scan (3 parameters) and the leaf scan (4 parameters) inside Unification.__call__' % UNI)
    return scan[0], deep[0]


def flat(t, op):
    if t[0] == 'bool' and t[1] == op:
        out = []
        for x in t[2]:
            out += flat(x, op)
        return out
    return [t]


def r_scan(repo, rep, R='R6.3'):
    mod = repo.module(UNI)
    scan, _deep = matcher_helpers(mod)
    s, t, res = [a.arg for a in scan.args.args][:3]
    S_, T_ = N(s), N(t)
    w = '%s:%s Unification.__call__.%s' % (UNI, scan.lineno, scan.name)
    paths = SymExec(scan, init_env={scan.name: ('func', scan.name, id(scan))}).run()
    shared_fail = ff = fa = False
    detail_ff = ''
    for st, out in paths:
        conds = [(e[1], e[2]) for e in st.events if e[0] == 'branch']
        for c, pol in conds:
            atoms = [show(x) for x in flat(c, 'and')]
            if pol and show(('cmp', 'in', A(S_, 'base'), A(N('self'), 'cats'))) in atoms and \
                    show(('unop', 'not', ('binop', '^', T_, ('sub', A(N('self'), 'cats'), A(S_, 'base'))))) in atoms \
                    and st.ret == C(False):
                shared_fail = True
            if pol and show(A(S_, 'is_functor')) in atoms and show(A(T_, 'is_functor')) in atoms:
                rest = [x for x in flat(c, 'and') if x not in (A(S_, 'is_functor'), A(T_, 'is_functor'))]
                slash_ok = False
                if len(rest) == 1:
                    ors = {show(x) for x in flat(rest[0], 'or')}
                    eq = {show(('cmp', '==', A(S_, 'slash'), A(T_, 'slash'))), show(('cmp', '==', A(T_, 'slash'), A(S_, 'slash')))}
                    wild = {show(('cmp', 'in', C('|'), ('tuple', (A(S_, 'slash'), A(T_, 'slash'))))),
                            show(('cmp', 'in', C('|'), ('tuple', (A(T_, 'slash'), A(S_, 'slash')))))}
                    slash_ok = bool(ors & eq) and bool(ors & wild) and len(ors) == 2
                rec = st.ret
                fself = ('func', scan.name, id(scan))
                want = {('call', fself, (A(S_, 'left'), A(T_, 'left'), N(res)), ()), ('call', fself, (A(S_, 'right'), A(T_, 'right'), N(res)), ())}
                want_n = {('call', N(scan.name), (A(S_, 'left'), A(T_, 'left'), N(res)), ()), ('call', N(scan.name), (A(S_, 'right'), A(T_, 'right'), N(res)), ())}
                gots = set(flat(rec, 'and')) if rec else set()
                got = sorted(show(x) for x in gots)
                ff = slash_ok and gots in (want, want_n)
                detail_ff = 'slash test %s, recursion %s' % ('ok' if slash_ok else 'NOT equal-or-wildcard', sorted(got))
        last = st.ret
        if last == C(False) and any(show(c) == show(A(S_, 'is_atomic')) and not pol for c, pol in flatten_all(conds)):
            fa = True
    # functor pattern vs atomic input falls through to False: the final return
    finals = [st.ret for st, out in paths if out == 'return']
    rep.check(shared_fail, R, w, 'scan:shared-variable', 'a meta variable seen twice must stand for sub-categories equal up to features (else no match)',
              'no failing path for a repeated meta variable whose second occurrence differs')
    rep.check(ff, R, w, 'scan:functor-functor', 'functor vs functor needs equal slashes or `|` on either side and matches both sides (%s)' % detail_ff,
              'functor/functor case is wrong: %s' % detail_ff)
    rep.check(C(False) in finals, R, w, 'scan:functor-vs-atom', 'a functor pattern never matches an atomic category',
              'there is no failing path for functor pattern vs atomic input')
    rep.floor('scan paths', len(paths), 5)


def r_scan_deep(repo, rep, R='R6.3'):
    """leaf features of a sub-category bound to a variable are numbered consecutively, left to right"""
    mod = repo.module(UNI)
    scan, sd = matcher_helpers(mod)
    ps = [a.arg for a in sd.args.args]
    if len(ps) != 4:
        raise AnalysisError('%s: scan_deep has parameters %s' % (UNI, ps))
    s, v, idx, res = ps
    w = '%s:%s Unification.__call__.%s' % (UNI, sd.lineno, sd.name)

    def on_call(st, t, node):
        if t[1][0] == 'func' and t[1][1] == sd.name and len(t[2]) == 4:
            k = len(st.data.setdefault('rec', []))
            st.data['rec'].append(t[2])
            return ('sym', 'next-free-index', k)
        return None
    leaf_ok = fun_ok = False
    detail = []
    for st, o in SymExec(sd, on_call=on_call, init_env={sd.name: ('func', sd.name, id(sd))}).run():
        conds = [(c, pol) for c, pol, _ in st.conds]
        recs = st.data.get('rec', [])
        is_fun = (A(N(s), 'is_functor'), True) in conds or (A(N(s), 'is_atomic'), False) in conds
        if is_fun:
            ok = len(recs) == 2 and recs[0][0] == A(N(s), 'left') and recs[0][2] == N(idx) and recs[1][0] == A(N(s), 'right') and \
                recs[1][2] == ('sym', 'next-free-index', 0) and st.ret == ('sym', 'next-free-index', 1) and \
                all(r[1] == N(v) and r[3] == N(res) for r in recs)
            fun_ok = ok
            detail.append('functor: %s -> %s' % ([show(r[2]) for r in recs], show(st.ret) if st.ret else None))
        else:
            sets = [(e[2], e[3]) for e in st.events if e[0] == 'setitem' and e[1] == N(res)]
            ok = len(sets) == 1 and sets[0][0] == ('fstr', (N(v), N(idx))) and sets[0][1] == A(N(s), 'feature') and \
                st.ret in (('binop', '+', N(idx), C(1)), ('binop', '+', C(1), N(idx))) and not recs
            leaf_ok = ok
            detail.append('leaf: %s -> %s' % ([(show(a), show(b)) for a, b in sets], show(st.ret) if st.ret else None))
    rep.check(leaf_ok and fun_ok, R, w, 'scan_deep:leaf-numbering',
              'every leaf gets the next free index and the right side continues where the left side stopped (%s)' % '; '.join(detail),
              'the leaves under a variable are not numbered consecutively left to right, so features at corresponding positions are not the ones compared: %s' % '; '.join(detail))
    starts = [n for n in ast.walk(scan) if isinstance(n, ast.Call) and src(n.func) == sd.name]
    ok = len(starts) == 1 and len(starts[0].args) == 4 and src(starts[0].args[2]) == '0'
    rep.check(ok, R, '%s:%s Unification.__call__.%s' % (UNI, scan.lineno, scan.name), 'scan_deep:start', 'numbering starts at 0 for each variable occurrence',
              'scan_deep is started with %s' % [src(a) for a in starts[0].args] if starts else 'no call')


def flatten_all(conds):
    return ru.flatten_guards(conds)


def r_feature_loop(repo, rep, R='R6.4'):
    mod = repo.module(UNI)
    call = mod.get('Unification.__call__')
    w = '%s:%s Unification.__call__' % (UNI, call.lineno)
    fail = xmap = ymap = False
    n = 0
    for st, out in SymExec(call, unroll=1).run():
        enter = [e for e in st.events if e[0] == 'loop-enter']
        if not enter:
            continue
        n += 1
        it = enter[0][1]
        var = ('elem', it, enter[0][2].lineno)
        xf = ('sub', A(N('self'), 'x_features'), var)
        yf = ('sub', A(N('self'), 'y_features'), var)
        conds = [(e[1], e[2]) for e in st.events if e[0] == 'branch']
        u_xy = ('call', A(xf, 'unifies'), (yf,), ())
        u_yx = ('call', A(yf, 'unifies'), (xf,), ())
        sets = [(e[2], e[3]) for e in st.events if e[0] == 'setitem' and e[1] == A(N('self'), 'mapping')]
        if (u_xy, False) in conds and (u_yx, False) in conds and st.ret == C(False):
            fail = True
        if (u_xy, True) in conds and (A(xf, 'is_variable'), True) in conds and (xf, yf) in sets:
            xmap = True
        if (u_xy, False) in conds and (u_yx, True) in conds and (A(yf, 'is_variable'), True) in conds and (yf, xf) in sets:
            ymap = True
        bad = [s_ for s_ in sets if s_ not in ((xf, yf), (yf, xf))]
        rep.check(not bad, R, w, 'feature-loop:mapping-only-pairs', 'only variable := partner-feature pairs are recorded',
                  'records %s' % [(show(a)[:40], show(b)[:40]) for a, b in bad])
        wrapped = it[0] == 'call' and it[1] == N('sorted')
        inner = it[2][0] if wrapped else it
        okset = show(inner).replace(' ', '') in ('(set(self.x_features.keys())&set(self.y_features.keys()))',
                                                 '(set(self.y_features.keys())&set(self.x_features.keys()))',
                                                 '(self.x_features.keys()&self.y_features.keys())')
        rep.check(okset, R, w, 'feature-loop:shared', 'the loop visits exactly the variables seen on both sides (%s)' % show(it)[:90],
                  'the loop visits %s' % show(it)[:90])
    rep.check(fail, R, w, 'feature-loop:fail', 'matching fails exactly when neither side\'s feature unifies with the other',
              'no failing path with both unifies() tests false')
    rep.check(xmap and ymap, R, w, 'feature-loop:instantiation', 'a variable feature on either side is instantiated with the partner\'s feature',
              'variable instantiation is recorded for x side: %s, y side: %s' % (xmap, ymap))
    rep.floor('paths through the feature loop', n, 4)


def r_feature_relations(repo, rep, R='R6.5'):
    mod = repo.module(CAT)

    def ret_of(q):
        fn = mod.get(q)
        ps = SymExec(fn).run()
        return fn, ps
    fn, ps = ret_of('UnaryFeature.unifies')
    o = fn.args.args[1].arg
    got = {show(x) for x in flat(ps[0][0].ret, 'or')} if len(ps) == 1 and ps[0][0].ret else set()
    want = {show(A(N('self'), 'is_variable')), show(A(N('self'), 'is_ignorable')), show(('cmp', '==', N('self'), N(o)))}
    rep.check(got == want, R, '%s:%s UnaryFeature.unifies' % (CAT, fn.lineno), 'UnaryFeature.unifies',
              'a plain feature is compatible when it is a variable, ignorable (absent / nb) or equal', 'UnaryFeature.unifies is %s' % sorted(got))
    fn, ps = ret_of('UnaryFeature.is_variable')
    rep.check(len(ps) == 1 and ps[0][0].ret == ('cmp', '==', A(N('self'), 'value'), C('X')), R,
              '%s:%s UnaryFeature.is_variable' % (CAT, fn.lineno), 'UnaryFeature.is_variable', 'the variable feature is X', 'is_variable is %s' % show(ps[0][0].ret))
    fn, ps = ret_of('UnaryFeature.is_ignorable')
    got = {show(x) for x in flat(ps[0][0].ret, 'or')} if len(ps) == 1 and ps[0][0].ret else set()
    want = {show(('cmp', 'is', A(N('self'), 'value'), C(None))), show(('cmp', '==', A(N('self'), 'value'), C('nb')))}
    rep.check(got == want, R, '%s:%s UnaryFeature.is_ignorable' % (CAT, fn.lineno), 'UnaryFeature.is_ignorable',
              'ignorable means absent or nb', 'is_ignorable is %s' % sorted(got))
    fn, ps = ret_of('TernaryFeature.unifies')
    o = fn.args.args[1].arg
    eq_true = keys_false = allv = False
    for st, out in ps:
        conds = [(c, p) for c, p, _ in st.conds]
        if (('cmp', '==', N('self'), N(o)), True) in conds and st.ret == C(True):
            eq_true = True
        if any(c[0] == 'cmp' and c[1] == '!=' and 'keys' in show(c) and p for c, p in conds) and st.ret == C(False):
            keys_false = True
        if st.ret and st.ret[0] == 'call' and st.ret[1] == N('all'):
            g = st.ret[2][0]
            if g[0] == 'genexp':
                parts = {show(x) for x in flat(g[1], 'or')}
                allv = len(parts) == 2 and any('startswith' in p_ and "'X'" in p_ for p_ in parts) and any('==' in p_ for p_ in parts) \
                    and 'zip(self.values(), %s.values())' % o in show(g[2][0][0])
    rep.check(eq_true and keys_false and allv, R, '%s:%s TernaryFeature.unifies' % (CAT, fn.lineno), 'TernaryFeature.unifies',
              'three-part features are compatible when equal, or same keys and every value equal or a variable (X...) on the asking side',
              'TernaryFeature.unifies: equal->True %s, keys differ->False %s, valuewise test %s' % (eq_true, keys_false, allv))


def check(repo, rep, tier):
    rep.rule('R6.1', 'provider typestate of Unification (__call__: done-check first, mark used, answer == success; __getitem__: success checked before reading)')
    rep.rule('R6.2', 'client typestate at every Unification(...) site: local, asked once, read only after success, keys are pattern variables')
    rep.rule('R6.3', 'scan: shared-variable agreement, functor/functor slash compatibility with | wildcard and two-sided recursion, functor-vs-atom fails')
    rep.rule('R6.4', 'feature agreement loop: shared variables, failure iff neither unifies, instantiation recorded for variables only')
    rep.rule('R6.5', 'feature compatibility relations of UnaryFeature / TernaryFeature')
    ru.r_provider_typestate(repo, rep)
    files = ['depccg/grammar/en.py', 'depccg/grammar/ja.py']
    if tier == 'thorough':
        files = [f for f in repo.py_files('depccg') if not f.startswith(('depccg/allennlp', 'depccg/chainer'))]
    n = ru.r_client_typestate(repo, rep, files)
    rep.floor('Unification(...) client sites', n, 16)
    r_scan(repo, rep)
    r_scan_deep(repo, rep)
    from .c13 import r_xor
    r_xor(repo.module('depccg/cat.py'), rep, 'R6.3')
    r_feature_loop(repo, rep)
    r_feature_relations(repo, rep)
