"""C07 -- every output format encodes the same derivation (structural clauses)."""
import ast

from ..core import AnalysisError, src, qualname_of, enclosing_function, src_ref
from ..pysym import SymExec, show, subterms, str_parts, terms_of
from ..rules_pyx import N, C, A
from .. import codec
from .. import logic
from .. import datafiles as df

EXPLANATION = (
    'R7.1 conll head assignment: symbolic paths of _resolve_dependencies.rec show the mirror pair "head_is_left: '
    'results[right head] = left head, return left head / else results[left head] = right head, return right head" with '
    'the two heads bound to the recursive results of left_child / right_child in that order, unary returns the child\'s '
    'head, a leaf appends the root marker and returns its own index, exactly-one-root is asserted and the printed column '
    'is dependencies[counter-1] + 1; R7.2 every encoder that prints a head flag maps head_is_left to 0; R7.3 every loop '
    'nest over the n-best lists numbers sentences on the outer loop (from 1; Jigg ids from 0) and writes the outer index '
    'for every tree of the inner loop; R7.4 each encoder\'s recursive walk separates leaves from inner nodes, recurses '
    'over all children in order and reads the category from node.cat.  That the eleven decoded outputs are equal for '
    'every tree and token needs decoders and values and is not decided.'
    ' No default argument or module-level binding of the printer modules may evaluate the active language (it is set after import).'
    ' Third round: PTB writer templates and bracket escaping (R7.7, shared with C20); the json encoder writes only into records it created (R7.8).'
    ' Fourth round: Prolog text decodes (R7.9: escaping steps of quoted atoms do not rewrite each other, the arguments of a Japanese term are comma-separated); the html category splitter accepts every feature spelling of the shipped inventories (R7.10).'
    ' Fifth round: records numbered by a per-tree counter (R7.3), positions found by searching for an equal element (R7.11), field order of the extended AUTO leaf (R7.12).'
    ' Sixth and seventh round: a flat n-best list is one sentence (R7.3), the width an inner node of the deriv layout reports (R7.5), str.format only on templates written in the source, no module-level table filled by a rendering (R7.13), no tree of the list skipped (numbering:every-tree); the conll head rules hold for either index convention.'
    ' Eighth round: numbering follows a record loop flattened into one comprehension; every POS / inflection level is written; Tree.word hands the words out verbatim.'
    ' Ninth and tenth round: R7.14 -- the Jigg span categories write the base alone only for an atom without a feature value.')
TRUSTED = ['CPython ast', 'sa/pysym.py path walker', 'rule table DESIGN.md C07']

CONLL = 'depccg/printer/conll.py'

ENCODERS = [  # (file, qualified name of the recursive walk, name of the node parameter index)
    ('depccg/printer/auto.py', 'auto_of.rec'), ('depccg/printer/auto.py', 'auto_flattened_of.rec'),
    ('depccg/printer/auto.py', 'auto_extended_of.rec'), ('depccg/printer/conll.py', 'conll_of.rec'),
    ('depccg/printer/conll.py', '_resolve_dependencies.rec'), ('depccg/printer/xml.py', '_process_tree.rec'),
    ('depccg/printer/jigg_xml.py', '_ConvertToJiggXML.process.traverse'), ('depccg/printer/my_json.py', 'json_of.rec'),
    ('depccg/printer/ptb.py', 'ptb_of.rec'), ('depccg/printer/deriv.py', 'deriv_of.rec'), ('depccg/printer/html.py', '_mathml_subtree'),
    ('depccg/printer/prolog.py', '_prolog_string.rec'), ('depccg/printer/prolog.py', 'to_prolog_ja.traverse_tree'),
    ('depccg/printer/ja.py', 'ja_of.rec'),
]


def encoder_fn(repo, rel, q):
    """the tree walker named in ENCODERS; the Jigg writer is looked up by role (it has been a closure of a method, a
    method, and a closure of a module function)"""
    mod = repo.module(rel)
    if rel.endswith('jigg_xml.py'):
        from .c15 import _jigg_roles
        return mod, _jigg_roles(mod)[1]
    return mod, mod.get(q)


def node_param(fn):
    names = [a.arg for a in fn.args.args]
    for cand in ('node', 'tree'):
        if cand in names:
            return cand
    raise AnalysisError('%s: cannot identify the node parameter among %s' % (fn.name, names))


def r_conll_heads(repo, rep, R='R7.1'):
    mod = repo.module(CONLL)
    outer = mod.get('_resolve_dependencies')
    rec = mod.get('_resolve_dependencies.rec')
    p = node_param(rec)
    w = '%s:%s _resolve_dependencies.rec' % (CONLL, rec.lineno)

    def on_call(st, t, node):
        if t[1][0] == 'func' and t[1][1] == rec.name and t[2]:
            a = t[2][0]
            tag = a[2] if a[0] == 'attr' and a[1] == N(p) else show(a)
            st.data.setdefault('order', []).append(tag)
            return ('sym', 'head-of', tag)
        return None
    init = {rec.name: ('func', rec.name, id(rec))}
    got = {}
    # the list of heads (whatever it is called) and its convention: positions counted from 0 with -1 for "no head yet / root",
    # or IDs counted from 1 with 0 for the root -- read off the leaf path, which appends the root marker
    RES, base = N('results'), 0
    for st, o in SymExec(rec, on_call=on_call, init_env=init).run():
        if (A(N(p), 'is_leaf'), True) in [(c, pol) for c, pol, _ in st.conds]:
            for e in st.events:
                if e[0] == 'call' and e[1][1][0] == 'attr' and e[1][1][2] == 'append' and e[1][1][1][0] == 'name' and e[1][2] in ((C(-1),), (C(0),)):
                    RES, base = e[1][1][1], (0 if e[1][2] == (C(-1),) else 1)
    ROOT = C(base - 1)
    for st, o in SymExec(rec, on_call=on_call, init_env=init).run():
        conds = [(c, pol) for c, pol, _ in st.conds]
        sets = [(e[2], e[3]) for e in st.events if e[0] == 'setitem' and e[1] == RES]
        if base == 1:
            # IDs are positions + 1: the entry of word k is heads[k - 1]
            sets = [((a_[2] if a_[0] == 'binop' and a_[1] == '-' and a_[3] == C(1) else ('sym', 'not-an-id', show(a_))), b_) for a_, b_ in sets]
        apps = [e[1][2] for e in st.events if e[0] == 'call' and e[1][1] == A(RES, 'append')]
        if (A(N(p), 'is_leaf'), True) in conds:
            # the index of the new entry: len(results) read before the append, or len(results) - 1 read after it
            LEN = ('call', N('len'), (RES,), ())
            i_len = [i for i, e in enumerate(st.events) if e[0] == 'call' and e[1] == LEN]
            i_app = [i for i, e in enumerate(st.events) if e[0] == 'call' and e[1][1] == A(RES, 'append')]
            if base == 0:
                idx_ok = len(i_len) == 1 and len(i_app) == 1 and (
                    (st.ret == LEN and i_len[0] < i_app[0]) or
                    (st.ret == ('binop', '-', LEN, C(1)) and i_len[0] > i_app[0]))
            else:
                idx_ok = len(i_len) == 1 and len(i_app) == 1 and (
                    (st.ret == LEN and i_len[0] > i_app[0]) or
                    (st.ret in (('binop', '+', LEN, C(1)), ('binop', '+', C(1), LEN)) and i_len[0] < i_app[0]))
            ok = apps == [(ROOT,)] and idx_ok and not sets
            got['leaf'] = ok
            rep.check(ok, R, w, 'resolve:leaf', 'a leaf takes the next index, is provisionally marked as root (-1) and returns its index',
                      'leaf path: appends %s, returns %s' % (apps, show(st.ret) if st.ret else None))
        elif (A(N(p), 'is_unary'), True) in conds:
            ok = st.ret == ('sym', 'head-of', 'child') or st.ret == ('sym', 'head-of', 'left_child')
            got['unary'] = ok and not sets and not apps
            rep.check(got['unary'], R, w, 'resolve:unary', 'a unary node has the head of its child', 'unary path returns %s' % (show(st.ret) if st.ret else None))
        else:
            L, Rr = ('sym', 'head-of', 'left_child'), ('sym', 'head-of', 'right_child')
            order_ok = st.data.get('order') == ['left_child', 'right_child']
            HIL = A(N(p), 'head_is_left')
            if (HIL, True) not in conds and (HIL, False) not in conds and any(x == HIL for t_ in [st.ret] + [y for a_b in sets for y in a_b] if t_ is not None for x in subterms(t_)):
                # the head child chosen by position -- heads = (rec(left), rec(right)); i = 0 if node.head_is_left else 1;
                # results[heads[1 - i]] = heads[i]; return heads[i] -- is read once for either value of the flag
                def spec(t, val):
                    if not isinstance(t, tuple) or not t:
                        return t
                    if t[0] == 'ifexp' and t[1] == HIL:
                        return spec(t[2] if val else t[3], val)
                    if t[0] == 'ifexp' and t[1] == ('unop', 'not', HIL):
                        return spec(t[3] if val else t[2], val)
                    t2 = tuple(spec(x, val) if isinstance(x, tuple) else x for x in t)
                    if t2[0] == 'binop' and t2[1] in ('-', '+') and t2[2][0] == 'const' and t2[3][0] == 'const' and isinstance(t2[2][1], int) and isinstance(t2[3][1], int):
                        return C(t2[2][1] - t2[3][1] if t2[1] == '-' else t2[2][1] + t2[3][1])
                    if t2[0] == 'sub' and t2[1][0] in ('tuple', 'list') and t2[2][0] == 'const' and isinstance(t2[2][1], int) and -len(t2[1][1]) <= t2[2][1] < len(t2[1][1]):
                        return t2[1][1][t2[2][1]]
                    return t2
                for val, key_, want_sets, want_ret in ((True, 'left', [(Rr, L)], L), (False, 'right', [(L, Rr)], Rr)):
                    s2 = [(spec(a_, val), spec(b_, val)) for a_, b_ in sets]
                    r2 = spec(st.ret, val) if st.ret is not None else None
                    ok = s2 == want_sets and r2 == want_ret and order_ok
                    got[key_] = ok
                    rep.check(ok, R, w, 'resolve:%s-headed' % key_, '%s-headed node: the other child\'s head attaches to the head child\'s head, which is returned (head chosen by position)' % key_,
                              '%s-headed case: stores %s, returns %s, visit order %s' % (key_, [(show(a), show(b)) for a, b in s2], show(r2) if r2 else None, st.data.get('order')))
                continue
            if (A(N(p), 'head_is_left'), True) in conds:
                ok = sets == [(Rr, L)] and st.ret == L and order_ok
                got['left'] = ok
                rep.check(ok, R, w, 'resolve:left-headed', 'left-headed node: the right child\'s head attaches to the left child\'s head, which is returned',
                          'left-headed path: stores %s, returns %s, visit order %s' % ([(show(a), show(b)) for a, b in sets], show(st.ret) if st.ret else None, st.data.get('order')))
            elif (A(N(p), 'head_is_left'), False) in conds:
                ok = sets == [(L, Rr)] and st.ret == Rr and order_ok
                got['right'] = ok
                rep.check(ok, R, w, 'resolve:right-headed', 'right-headed node: the left child\'s head attaches to the right child\'s head, which is returned',
                          'right-headed path: stores %s, returns %s, visit order %s' % ([(show(a), show(b)) for a, b in sets], show(st.ret) if st.ret else None, st.data.get('order')))
    rep.check(set(got) == {'leaf', 'unary', 'left', 'right'}, R, w, 'resolve:cases', 'leaf / unary / left-headed / right-headed cases are all present',
              'cases found: %s' % sorted(got))
    ok = False
    R_ = N('results')
    for st, o in SymExec(outer, unroll=1, no_inline=(rec.name,)).run():
        if o != 'return':
            continue
        res = st.ret
        for e in st.events:
            if e[0] != 'assert':
                continue
            f = logic.formula(e[1])
            if f[0] != 'atom' or f[1][0] != 'eq' or C(1) not in f[1][1:]:
                continue
            cnt = [x for x in f[1][1:] if x != C(1)][0]
            # number of entries still -1: len([.. if d == -1]) / sum(1 for .. if d == -1) / results.count(-1)
            if cnt == ('call', A(res, 'count'), (ROOT,), ()):
                ok = True
            if cnt[0] == 'call' and cnt[1] in (N('len'), N('sum')) and len(cnt[2]) == 1 and cnt[2][0][0] in ('listcomp', 'genexp') and len(cnt[2][0][2]) == 1:
                it, filt = cnt[2][0][2][0]
                if it == res and len(filt) == 1:
                    ff = logic.formula(filt[0])
                    ok = ok or (ff[0] == 'atom' and ff[1][0] == 'eq' and ROOT in ff[1][1:] and any(x[0] == 'elem' and x[1] == it for x in ff[1][1:])
                                and (cnt[1] == N('len') or cnt[2][0][1] == C(1)))
    rep.check(ok, R, '%s:%s _resolve_dependencies' % (CONLL, outer.lineno), 'resolve:one-root', 'exactly one word keeps the root marker (asserted)',
              'there is no assertion that exactly one dependency stays %s' % show(ROOT))
    crec = mod.get('conll_of.rec')
    # the row of a word: ID column = position + 1 (1-based), HEAD column = dependencies[position] + 1 (0 = root), and the
    # position advances by exactly one per leaf -- whether it is kept in a counter variable or drawn from itertools.count()
    ok_cols = False
    ok_adv = False
    detail = 'no tab-joined row found on the leaf path'
    p_node = node_param(crec)
    for st, o in SymExec(crec, unroll=1).run():
        if not any(c == A(N(p_node), 'is_leaf') and pol for c, pol, _ in st.conds):
            continue
        rows = [t for t in (x for y in terms_of(st) for x in subterms(y))
                if t[0] == 'call' and t[1] == A(C('\t'), 'join') and len(t[2]) == 1]
        for r_ in rows:
            seq = r_[2][0]
            els = seq[1] if seq[0] in ('tuple', 'list') else (seq[2] if seq[0] == 'call' and seq[1][0] == 'name' and seq[1][1][:1] in '_ABCDEFGHIJKLMNOPQRSTUVWXYZ' and not seq[3] else None)
            if els is None or len(els) < 7:
                continue
            unstr = lambda t: t[2][0] if t[0] == 'call' and t[1] == N('str') and len(t[2]) == 1 else t
            id_t, head_t = unstr(els[0]), unstr(els[6])
            if id_t[0] == 'unpack' and id_t[2] == 0 and id_t[1][0] == 'call' and id_t[1][1] == N('next') and len(id_t[1][2]) == 1 and id_t[1][2][0][0] == 'name' \
                    and head_t == ('binop', '+', ('unpack', id_t[1], 1), C(1)):
                # (ID, head) pairs drawn from enumerate(_resolve_dependencies(tree), 1), one per leaf
                draw = id_t[1]
                outer_fn = mod.get('conll_of')
                binds = [a_ for a_ in ast.walk(outer_fn) if isinstance(a_, ast.Assign) and any(isinstance(t_, ast.Name) and t_.id == draw[2][0][1] for t_ in a_.targets)]
                tparam = outer_fn.args.args[0].arg
                want_src = ('enumerate(_resolve_dependencies(%s),1)' % tparam, 'enumerate(_resolve_dependencies(%s),start=1)' % tparam)
                from_resolve = len(binds) == 1 and src(binds[0].value).replace(' ', '') in want_src \
                    and not any(isinstance(p_, (ast.For, ast.While)) for p_ in _parents_until(binds[0], outer_fn))
                draws = [e for e in st.events if e[0] == 'call' and e[1] == draw]
                ok_cols = from_resolve
                ok_adv = from_resolve and len(draws) == 1
                detail = 'ID and head are the two halves of one draw from %s' % (src(binds[0].value)[:60] if binds else '?')
                continue
            def deps_binding(nm):
                # how the enclosing encoder binds `nm`: 'raw' = _resolve_dependencies(tree) itself, 'plus1' = that list with one
                # added to (and possibly str() of) every entry, made once before the walk
                outer_fn = mod.get('conll_of')
                tparam = outer_fn.args.args[0].arg
                binds = [a_ for a_ in ast.walk(outer_fn) if isinstance(a_, ast.Assign) and any(isinstance(t_, ast.Name) and t_.id == nm for t_ in a_.targets)]
                if len(binds) != 1 or any(isinstance(p_, (ast.For, ast.While)) for p_ in _parents_until(binds[0], outer_fn)):
                    return None
                v_ = binds[0].value
                is_res = lambda e_: isinstance(e_, ast.Call) and src_ref(e_).replace(' ', '') == '_resolve_dependencies(%s)' % tparam
                if is_res(v_):
                    return 'raw'
                if isinstance(v_, ast.ListComp) and len(v_.generators) == 1 and not v_.generators[0].ifs and isinstance(v_.generators[0].target, ast.Name):
                    g_ = v_.generators[0]
                    it_ok = is_res(g_.iter) or (isinstance(g_.iter, ast.Name) and deps_binding(g_.iter.id) == 'raw')
                    e_ = v_.elt
                    if isinstance(e_, ast.Call) and src(e_.func) == 'str' and len(e_.args) == 1:
                        e_ = e_.args[0]
                    if it_ok and src(e_).replace(' ', '') in ('%s+1' % g_.target.id, '1+%s' % g_.target.id):
                        return 'plus1'
                return None
            if head_t[0] == 'sub' and head_t[1][0] == 'name' and deps_binding(head_t[1][1]) == 'plus1' and base == 0:
                head_t = ('binop', '+', head_t, C(1))       # the +1 was applied to the whole list beforehand
            elif head_t[0] == 'sub' and head_t[1][0] == 'name' and deps_binding(head_t[1][1]) == 'raw' and base == 1:
                head_t = ('binop', '+', head_t, C(1))       # the resolver hands out IDs (from 1, 0 = root) itself: the entry is the column
            elif base == 1:
                detail = 'the resolver already counts from 1 (0 = root) but the head column is %s' % show(head_t)[:60]
                continue
            elif not (head_t[0] == 'binop' and head_t[1] == '+' and head_t[3] == C(1) and head_t[2][0] == 'sub' and head_t[2][1][0] == 'name'
                      and (head_t[2][1] == N('dependencies') or deps_binding(head_t[2][1][1]) == 'raw')):
                detail = 'head column is %s' % show(head_t)[:60]
                continue
            pos_t = head_t[2][2]
            ok_cols = id_t == ('binop', '+', pos_t, C(1)) or pos_t == ('binop', '-', id_t, C(1)) or id_t == ('binop', '+', C(1), pos_t)
            detail = 'ID column %s, head column dependencies[%s] + 1' % (show(id_t)[:40], show(pos_t)[:40])
            base = id_t if id_t[0] in ('name',) else pos_t
            augs = [e for e in st.events if e[0] == 'aug' and e[1] == base]
            draws = [e for e in st.events if e[0] == 'call' and e[1] == base and base[0] == 'call' and base[1] == N('next')]
            if base[0] == 'name':
                ok_adv = len(augs) == 1 and augs[0][2] == '+' and augs[0][3] == C(1)
            else:
                # next(<name>) with the name bound once, in the enclosing encoder, to a fresh itertools.count()
                src_ok = False
                if base[0] == 'call' and base[1] == N('next') and len(base[2]) == 1 and base[2][0][0] == 'name':
                    outer_fn = mod.get('conll_of')
                    binds = [a_ for a_ in ast.walk(outer_fn) if isinstance(a_, ast.Assign) and any(isinstance(t_, ast.Name) and t_.id == base[2][0][1] for t_ in a_.targets)]
                    src_ok = len(binds) == 1 and src(binds[0].value).replace(' ', '') in ('count()', 'itertools.count()', 'count(0)', 'itertools.count(0)') \
                        and not any(isinstance(p_, (ast.For, ast.While)) for p_ in _parents_until(binds[0], outer_fn))
                ok_adv = src_ok and len(draws) == 1
            detail += '; advance: %s' % ('counter += 1' if augs else ('one draw from count()' if draws else 'none'))
    rep.check(ok_cols, R, '%s:%s conll_of.rec' % (CONLL, crec.lineno), 'conll:head-column', 'the head column prints dependencies[position] + 1 for the word whose ID is position + 1 (%s)' % detail,
              'ID and head columns do not refer to the same word: %s' % detail)
    rep.check(ok_adv, R, '%s:%s conll_of.rec' % (CONLL, crec.lineno), 'conll:counter', 'the word position advances by one per leaf', 'the word position does not advance by exactly one per leaf (%s)' % detail)
    co = mod.get('conll_of')
    rep.check(any(isinstance(n, ast.Assign) and (src_ref(n.value) == '_resolve_dependencies(tree)' or any(
        isinstance(c_, ast.Call) and src_ref(c_) == '_resolve_dependencies(tree)' for c_ in ast.walk(n.value))) for n in ast.walk(co)), R,
              '%s:%s conll_of' % (CONLL, co.lineno), 'conll:uses-resolve', 'the column is computed by _resolve_dependencies(tree) of the printed tree',
              'conll_of does not call _resolve_dependencies(tree)')
    pass


def r_polarity(repo, rep, R='R7.2'):
    n = 0
    for rel, q in ENCODERS:
        mod, fn = encoder_fn(repo, rel, q)
        p = node_param(fn)
        flags = set()
        for st, o in SymExec(fn, unroll=1).run():
            terms = [x for e in st.events for x in e[1:-1] if isinstance(x, tuple)] + ([st.ret] if st.ret else [])
            for t in terms:
                for s_ in subterms(t):
                    if s_[0] == 'ifexp' and s_[1] == A(N(p), 'head_is_left'):
                        flags.add(s_)
        for f in flags:
            n += 1
            rep.check(f[2] == C(0) and f[3] == C(1), R, '%s:%s %s' % (rel, fn.lineno, q), '%s:%s:flag' % (rel, q),
                      '%s prints 0 for a left-headed node and 1 otherwise' % q, '%s prints %s for head_is_left' % (q, show(f)))
    rep.floor('head flag sites', n, 4)


def r_numbering(repo, rep, R='R7.3'):
    sites = 0
    for rel in repo.py_files('depccg/printer'):
        mod = repo.module(rel)
        for fn in [f for f in mod.tree.body if isinstance(f, ast.FunctionDef)]:
            params = [a.arg for a in fn.args.args]
            # a local that is only ever the parameter itself, or the parameter wrapped as the single sentence of a batch
            for nm in {t.id for a_ in ast.walk(fn) if isinstance(a_, ast.Assign) for t in a_.targets if isinstance(t, ast.Name)}:
                vals = [a_.value for a_ in ast.walk(fn) if isinstance(a_, ast.Assign) and any(isinstance(t, ast.Name) and t.id == nm for t in a_.targets)]
                if nm not in params and vals and all((isinstance(v, ast.Name) and v.id in params) or (
                        isinstance(v, ast.List) and len(v.elts) == 1 and isinstance(v.elts[0], ast.Name) and v.elts[0].id in params) for v in vals):
                    params.append(nm)
            loops = [l for l in ast.walk(fn) if isinstance(l, ast.For) and isinstance(l.iter, ast.Call) and src(l.iter.func) == 'enumerate'
                     and l.iter.args and (src(l.iter.args[0]) in params or (isinstance(l.iter.args[0], ast.Call) and src(l.iter.args[0].func) == 'zip'
                                                                          and l.iter.args[0].args and src(l.iter.args[0].args[0]) in params))
                     and enclosing_function(l) is fn and not any(isinstance(q, ast.For) for q in _parents_until(l, fn))]
            # the batch walked without an index of its own: whatever numbers the records then advances per tree, not per sentence
            for l in [l for l in ast.walk(fn) if isinstance(l, ast.For) and isinstance(l.iter, ast.Name) and l.iter.id in params and isinstance(l.target, ast.Name)
                      and enclosing_function(l) is fn and not any(isinstance(q, ast.For) for q in _parents_until(l, fn))]:
                inner_ = [q for q in ast.walk(l) if isinstance(q, ast.For) and q is not l and any(isinstance(n, ast.Name) and n.id == l.target.id for n in ast.walk(q.iter))]
                counters = {a_.target.id for q in inner_ for a_ in ast.walk(q) if isinstance(a_, ast.AugAssign) and isinstance(a_.target, ast.Name)}
                # a counter that is set anew for every sentence (the rank of a tree among the n best) is not a record number
                counters -= {t.id for a_ in ast.walk(l) if isinstance(a_, ast.Assign) for t in a_.targets if isinstance(t, ast.Name)}
                if inner_ and counters:
                    sites += 1
                    rep.check(False, R, '%s:%s %s' % (rel, l.lineno, fn.name), '%s:%s:numbering:outer-index' % (rel, fn.name), '',
                              'the batch is walked without a sentence index and the records are numbered by %s, which advances with every tree: the second tree of a sentence '
                              'gets the number of the next sentence' % sorted(counters))
            # the batch flattened into one run of records (chain.from_iterable(batch), a comprehension over both levels, sum(batch, []))
            # and numbered by enumerate: the number advances with every tree, not with every sentence
            flat = set()
            for a_ in ast.walk(fn):
                if isinstance(a_, ast.Assign) and len(a_.targets) == 1 and isinstance(a_.targets[0], ast.Name):
                    v_ = a_.value
                    is_flat = (isinstance(v_, ast.Call) and src(v_.func) in ('chain.from_iterable', 'itertools.chain.from_iterable') and v_.args and src(v_.args[0]) in params) or \
                        (isinstance(v_, ast.Call) and src(v_.func) == 'sum' and len(v_.args) == 2 and src(v_.args[0]) in params) or \
                        (isinstance(v_, ast.Call) and src(v_.func) in ('chain', 'itertools.chain') and len(v_.args) == 1 and isinstance(v_.args[0], ast.Starred) and src(v_.args[0].value) in params) or \
                        (isinstance(v_, (ast.ListComp, ast.GeneratorExp)) and len(v_.generators) == 2 and src(v_.generators[0].iter) in params
                         and isinstance(v_.generators[0].target, ast.Name) and src(v_.generators[1].iter) == v_.generators[0].target.id)
                    if is_flat:
                        flat.add(a_.targets[0].id)
            for l in [l for l in ast.walk(fn) if isinstance(l, ast.For) and isinstance(l.iter, ast.Call) and src(l.iter.func) == 'enumerate' and l.iter.args and enclosing_function(l) is fn]:
                a0 = l.iter.args[0]
                direct_flat = (isinstance(a0, ast.Call) and src(a0.func) in ('chain.from_iterable', 'itertools.chain.from_iterable') and a0.args and src(a0.args[0]) in params)
                if (isinstance(a0, ast.Name) and a0.id in flat) or direct_flat:
                    idx_ = l.target.elts[0].id if isinstance(l.target, ast.Tuple) and isinstance(l.target.elts[0], ast.Name) else None
                    sinks = [n for n in ast.walk(l) if isinstance(n, ast.Call) and isinstance(n.func, ast.Attribute) and n.func.attr == 'format' and idx_ is not None
                             and any(isinstance(x, ast.Name) and x.id == idx_ for x in ast.walk(n))]
                    if sinks:
                        sites += 1
                        rep.check(False, R, '%s:%s %s' % (rel, l.lineno, fn.name), '%s:%s:numbering:outer-index' % (rel, fn.name), '',
                                  'the batch is flattened (%s) and the records are numbered by enumerate over the flat run: the second tree of a sentence gets the number of the next sentence' % src(a0)[:50])
            for l in loops:
                sites += 1
                w = '%s:%s %s' % (rel, l.lineno, fn.name)
                key = '%s:%s:numbering' % (rel, fn.name)
                start = l.iter.args[1] if len(l.iter.args) > 1 else None
                for kw in l.iter.keywords:
                    if kw.arg == 'start':
                        start = kw.value
                s0 = start.value if isinstance(start, ast.Constant) else (0 if start is None else None)
                want = 0 if rel.endswith('jigg_xml.py') else 1
                rep.check(s0 == want, R, w, key + ':start', 'sentences are numbered from %d' % want, 'sentences are numbered from %s' % (src(start) if start is not None else 0))
                if not isinstance(l.target, ast.Tuple) or not isinstance(l.target.elts[0], ast.Name):
                    raise AnalysisError('%s: unexpected loop target %s' % (w, src(l.target)))
                idx = l.target.elts[0].id
                inner = [q for q in ast.walk(l) if isinstance(q, ast.For) and q is not l]
                elt = l.target.elts[1]
                elt_names = {n.id for n in ast.walk(elt) if isinstance(n, ast.Name)}
                inner_over = [q for q in inner if any(isinstance(n, ast.Name) and n.id in elt_names for n in ast.walk(q.iter))]
                rep.check(bool(inner_over), R, w, key + ':inner', 'the n-best trees of a sentence are the inner loop', 'no inner loop over the sentence\'s trees')
                # every tree of the list is written: nothing leaves the loop over the trees (or the one over the sentences) early
                for q in inner_over + [l]:
                    skips = []
                    for n in ast.walk(q):
                        if isinstance(n, (ast.Continue, ast.Break, ast.Return)) and enclosing_function(n) is fn:
                            near = next((p_ for p_ in _parents_until(n, fn) if isinstance(p_, (ast.For, ast.While))), None)
                            if near is q or (isinstance(n, ast.Return) and near is not None):
                                skips.append(n)
                    rep.check(not skips, R, '%s:%s %s' % (rel, skips[0].lineno if skips else q.lineno, fn.name), key + ':every-tree',
                              'the loop over %s writes every one of them (no continue / break / return inside)' % ('the trees of a sentence' if q is not l else 'the sentences'),
                              'the loop over %s is left early (%s at line %s): a parse result that every other format writes has no record here'
                              % ('the trees of a sentence' if q is not l else 'the sentences', type(skips[0]).__name__.lower() if skips else '', skips[0].lineno if skips else 0))
                # the sentence number written inside the inner loop is the outer index
                uses = []
                for q in inner_over:
                    inner_idx = set()
                    if isinstance(q.iter, ast.Call) and src(q.iter.func) == 'enumerate' and isinstance(q.target, ast.Tuple) and isinstance(q.target.elts[0], ast.Name):
                        inner_idx.add(q.target.elts[0].id)
                    for n in ast.walk(q):
                        if isinstance(n, ast.Call):
                            txt = src(n)
                            is_sink = (isinstance(n.func, ast.Attribute) and n.func.attr == 'format' and len(n.args) >= 2) or ("'sentence'" in txt and src(n.func).endswith('.set')) or \
                                (src_ref(n.func) in ('_prolog_string',)) or (src(n.func).endswith('.write') and 'ccg(' in txt)
                            if not is_sink and isinstance(n.func, ast.Name):
                                # ... or hands the numbers to a helper of the module that writes them as the record's `sentence` attribute
                                h_ = mod.get(n.func.id, required=False)
                                if isinstance(h_, ast.FunctionDef) and h_ is not fn:
                                    hp_ = [a_.arg for a_ in h_.args.args]
                                    for c2 in ast.walk(h_):
                                        used = None
                                        if isinstance(c2, ast.Call) and isinstance(c2.func, ast.Attribute) and c2.func.attr == 'set' and len(c2.args) == 2 \
                                                and isinstance(c2.args[0], ast.Constant) and c2.args[0].value == 'sentence':
                                            used = {x.id for x in ast.walk(c2.args[1]) if isinstance(x, ast.Name)} & set(hp_)
                                        elif isinstance(c2, ast.Call) and isinstance(c2.func, ast.Attribute) and c2.func.attr == 'format' and len(c2.args) >= 2:
                                            # ... or formats them into the record's heading: the first number is the sentence's
                                            used = {x.id for x in ast.walk(c2.args[0]) if isinstance(x, ast.Name)} & set(hp_)
                                        if used is not None:
                                            for pn in used:
                                                k_ = hp_.index(pn)
                                                if k_ < len(n.args):
                                                    names = {x.id for x in ast.walk(n.args[k_]) if isinstance(x, ast.Name)}
                                                    uses.append((idx in names, False, txt[:60]))
                            if is_sink:
                                names = {x.id for x in ast.walk(n) if isinstance(x, ast.Name)}
                                uses.append((idx in names, bool(inner_idx & names) and idx not in names, txt[:60]))
                        if isinstance(n, ast.Subscript) and src(n.value) == 'results' and isinstance(n.ctx, ast.Load):
                            uses.append((src(n.slice) == idx, False, src(n)[:40]))
                if not uses and inner_over:
                    # the records of a sentence are collected in a local list and filed once per sentence: table[<index>] = records
                    tables = {t.id for a_ in ast.walk(fn) if isinstance(a_, (ast.Assign, ast.AnnAssign)) and a_.value is not None
                              and (isinstance(a_.value, ast.Dict) or (isinstance(a_.value, ast.Call) and src(a_.value.func) in ('dict', 'OrderedDict', 'collections.OrderedDict')))
                              for t in (a_.targets if isinstance(a_, ast.Assign) else [a_.target]) if isinstance(t, ast.Name)}
                    for s_ in l.body:
                        for n in ast.walk(s_):
                            if isinstance(n, ast.Subscript) and isinstance(n.value, ast.Name) and n.value.id in tables and isinstance(n.ctx, ast.Store) \
                                    and not any(n in list(ast.walk(q)) for q in inner_over):
                                uses.append((src(n.slice) == idx, False, src(n)[:40]))
                if rel.endswith('html.py') or rel.endswith('jigg_xml.py'):
                    # these write the sentence number / id once per sentence, outside the inner loop
                    txt = ' '.join(src(s) for s in l.body)
                    rep.check(idx in txt, R, w, key + ':outer-index', 'the sentence index is written once per sentence', 'the sentence index is never written')
                    continue
                rep.check(bool(uses) and all(u[0] for u in uses), R, w, key + ':outer-index',
                          'every tree of a sentence is written under the outer (sentence) index: %s' % [u[2] for u in uses][:2],
                          'a record is numbered with something other than the sentence index: %s' % [u[2] for u in uses if not u[0]])
    rep.floor('loop nests over n-best results', sites, 7)


def _parents_until(n, stop):
    from ..core import parents
    for p in parents(n):
        if p is stop:
            return
        yield p


def r_traversal(repo, rep, R='R7.4'):
    n = 0
    for rel, q in ENCODERS:
        mod, fn = encoder_fn(repo, rel, q)
        p = node_param(fn)
        w = '%s:%s %s' % (rel, fn.lineno, q)
        key = '%s:%s' % (rel, q)

        def on_call(st, t, node):
            f = t[1]
            if (f[0] == 'func' and f[2] == id(fn)) or f == N(fn.name) or (f[0] == 'attr' and f[2] == fn.name):
                args = [a for a in t[2] if a != N('self')]
                target = None
                for a in args:
                    if a[0] == 'attr' and a[1] == N(p) and a[2] in ('left_child', 'right_child', 'child'):
                        target = a[2]
                    elif a[0] == 'elem' and a[1] in (A(N(p), 'children'), ('call', N('enumerate'), (A(N(p), 'children'),), ())):
                        target = 'each-child'
                    elif a[0] == 'unpack' and a[2] == 1 and a[1][0] == 'elem' and a[1][1][0] == 'call' and a[1][1][1] == N('enumerate') \
                            and a[1][1][2] and a[1][1][2][0] == A(N(p), 'children'):
                        target = 'each-child'       # enumerate(node.children[, start]): the second component is the child
                st.data.setdefault('rec', []).append(target or show(args[0])[:40] if args else '?')
            if f == N('map') and t[2] and t[2][0] in (N(fn.name), ('func', fn.name, id(fn))) and len(t[2]) > 1 and t[2][1] == A(N(p), 'children'):
                st.data.setdefault('rec', []).append('each-child')
            return None
        init = {fn.name: ('func', fn.name, id(fn))}
        leaf_seen = False
        inner_ok = True
        cat_ok = True
        details = set()
        for st, o in SymExec(fn, unroll=1, on_call=on_call, init_env=init).run():
            if o == 'raise':
                continue
            conds = [(c, pol) for c, pol, _ in st.conds]
            terms = [x for e in st.events for x in e[1:-1] if isinstance(x, tuple)] + ([st.ret] if st.ret else [])
            has_cat = any(s_ == A(N(p), 'cat') for t in terms for s_ in subterms(t))
            is_leaf = (A(N(p), 'is_leaf'), True) in conds or (('unop', 'not', A(N(p), 'is_leaf')), False) in conds
            not_leaf = (A(N(p), 'is_leaf'), False) in conds or (('unop', 'not', A(N(p), 'is_leaf')), True) in conds
            recs = st.data.get('rec', [])
            if is_leaf:
                leaf_seen = True
                if recs:
                    inner_ok = False
                    details.add('recursion on a leaf')
            elif not_leaf:
                loops_skipped = [e for e in st.events if e[0] == 'loop-skip' and A(N(p), 'children') in set(subterms(e[1]))]
                if loops_skipped:
                    continue        # zero-iteration variant of a children loop
                unary = (A(N(p), 'is_unary'), True) in conds or (('unop', 'not', A(N(p), 'is_unary')), False) in conds
                binary = (A(N(p), 'is_unary'), False) in conds or (('unop', 'not', A(N(p), 'is_unary')), True) in conds
                ok = ('each-child' in recs) or (unary and recs in (['child'], ['left_child'])) or \
                    (binary and recs == ['left_child', 'right_child']) or (not unary and not binary and recs == ['left_child', 'right_child'])
                if not ok:
                    inner_ok = False
                    details.add('inner-node path recurses into %s' % recs)
            if (is_leaf or not_leaf) and not has_cat and q not in ('_resolve_dependencies.rec',):
                cat_ok = False
        n += 1
        rep.check(leaf_seen, R, w, key + ':leaf-case', '%s treats leaves separately' % q, '%s has no is_leaf case' % q)
        rep.check(inner_ok, R, w, key + ':children', '%s recurses into all children of an inner node, in order' % q,
                  '%s does not visit all children in order: %s' % (q, sorted(details)))
        if q != '_resolve_dependencies.rec':
            rep.check(cat_ok, R, w, key + ':cat', '%s reads the category from node.cat on every node' % q, '%s has a node path that never reads node.cat' % q)
    rep.floor('encoder walks', n, 14)


def r_deriv_measures(repo, rep, R='R7.5'):
    """deriv_of lays out the leaf lines and the rule bars with two separate width computations; they must measure words and
    categories with the same function, or the bars drift away from the leaves they combine."""
    mod = repo.module('depccg/printer/deriv.py')
    fn = mod.get('deriv_of')
    rec = mod.get('deriv_of.rec')
    w = '%s:%s deriv_of' % (mod.rel, fn.lineno)

    def measures(f, unroll=1):
        word, cat = set(), set()
        for st, o in SymExec(f, unroll=unroll).run():
            for e in st.events:
                if e[0] != 'call' or len(e[1][2]) != 1:
                    continue
                a = e[1][2][0]
                callee = show(e[1][1])
                if callee in ('str', 'max', 'print', 'rec'):
                    continue
                if a[0] == 'attr' and a[2] == 'word':
                    word.add(callee)
                elif a[0] == 'call' and a[1] == N('str') and a[2] and a[2][0][0] == 'attr' and a[2][0][2] == 'cat':
                    cat.add(callee)
        return word, cat
    hw, hc = measures(ast.Module(body=[s_ for s_ in fn.body if not isinstance(s_, ast.FunctionDef)], type_ignores=[]) if False else fn)
    rw, rc_ = measures(rec)
    allw, allc = hw | rw, hc | rc_
    rep.check(len(allw) == 1 and len(allc) == 1 and bool(rw) and bool(hw), R, w, 'deriv:measures',
              'leaf lines and rule bars measure words with %s and categories with %s everywhere' % (sorted(allw), sorted(allc)),
              'leaf lines and rule bars use different width functions (words: header %s / bars %s; categories: header %s / bars %s): bars no longer cover their leaves'
              % (sorted(hw), sorted(rw), sorted(hc), sorted(rc_)))


def r_deriv_columns(repo, rep, R='R7.5'):
    """the columns of the drawing are those of the leaf lines, which are laid out from the leaves alone: an inner node ends
    where its last child ends -- the right edge it reports must not depend on its own category or rule"""
    mod = repo.module('depccg/printer/deriv.py')
    rec = mod.get('deriv_of.rec')
    ps = [a.arg for a in rec.args.args]
    pnode = ([x for x in ps if x in ('node', 'tree')] or ps[-1:])[0]
    own = []
    n = 0
    for st, o in SymExec(rec, unroll=1, init_env={rec.name: ('func', rec.name, id(rec))}).run():
        if o != 'return' or st.ret is None:
            continue
        conds = [(c, pol) for c, pol, _ in st.conds]
        if (A(N(pnode), 'is_leaf'), True) in conds:
            continue
        n += 1
        for x in subterms(st.ret):
            if x[0] == 'attr' and x[1] == N(pnode) and x[2] in ('cat', 'op_symbol', 'op_string', 'word'):
                own.append('%s.%s' % (pnode, x[2]))
    w = '%s:%s deriv_of.rec' % (mod.rel, rec.lineno)
    rep.check(n > 0 and not own, R, w, 'deriv:inner-width',
              'an inner node reports the right edge of its children (%d paths)' % n,
              'the right edge an inner node reports depends on %s: everything to its right is shifted off the word columns, which are laid out from the leaves alone'
              % sorted(set(own)))


def r_category_spelling(repo, rep, R='R7.4'):
    """encoders that spell categories in their own syntax keep every non-empty feature: the feature is omitted only when
    its text is empty (otherwise two different categories get one spelling)."""
    pm = repo.module('depccg/printer/prolog.py')
    fn = pm.get('_prolog_category_string.rec')
    p = fn.args.args[0].arg
    w = '%s:%s _prolog_category_string.rec' % (pm.rel, fn.lineno)
    feat = ('call', N('str'), (A(N(p), 'feature'),), ())
    empty_tests = {show(('cmp', '==', feat, C(''))), show(('cmp', '==', C(''), feat)), show(('unop', 'not', feat)),
                   show(('cmp', '==', ('call', N('len'), (feat,), ()), C(0)))}
    base_only = with_feat = None
    for st, o in SymExec(fn).run():
        if o != 'return' or not any(c == A(N(p), 'is_atomic') and pol for c, pol, _ in st.conds):
            continue
        last = st.conds[-1]
        if st.ret is not None and st.ret[0] == 'fstr' and A(N(p), 'feature') in set(subterms(st.ret)):
            with_feat = True
        elif st.ret is not None and st.ret[0] != 'const':
            # the path returning the bare base
            base_only = show(last[0]) in empty_tests and last[1]
            detail = show(last[0])
    rep.check(bool(base_only) and bool(with_feat), R, w, 'prolog:category-spelling',
              'the Prolog spelling omits the feature only when its text is empty',
              'the Prolog spelling drops a feature under the test %s: distinct categories (e.g. NP[nb] and NP) are spelled alike' % locals().get('detail'))


def r_json_fresh(repo, rep, R='R7.8'):
    from .. import effects
    from .c18 import tainted_params, free_tainted
    from ..core import qualname_of
    mod = repo.module('depccg/printer/my_json.py')
    n = 0
    for fn in [f for f in ast.walk(mod.tree) if isinstance(f, ast.FunctionDef)]:
        n += 1
        tainted = set(tainted_params(fn, False)) | free_tainted(fn)
        muts = effects.mutations(fn, tainted)
        w = '%s:%s %s' % (mod.rel, fn.lineno, qualname_of(fn))
        if not muts:
            rep.ok(R, w, '%s writes only into records it created itself' % qualname_of(fn))
        for node, tgt, what in muts:
            rep.violation(R, '%s:%s %s' % (mod.rel, node.lineno, qualname_of(fn)), '%s:%s:record-aliases-result:%s' % (mod.rel, qualname_of(fn), what.split('(')[0]),
                          '%s writes `%s` into an object of the parse result (%s): the token objects are shared by all n-best trees of a sentence, '
                          'so every tree of the batch shows what the last one wrote' % (qualname_of(fn), src(node)[:60], what))
    if n < 2:
        raise AnalysisError('depccg/printer/my_json.py: encoder functions not found')


def r_prolog_text(repo, rep, R='R7.9'):
    """Prolog records decode: (a) quoted atoms -- the escaping of a word is a chain of replacements in which no later step
    rewrites what an earlier step wrote (else `'` -> `\\'` -> `\\\\'` ends the atom early), and the quote is among the
    characters escaped; (b) the Japanese term writer separates the node category and every child with a comma."""
    pm = repo.module('depccg/printer/prolog.py')
    esc = pm.get('_escape_prolog', required=False)
    n = 0
    if esc is not None:
        w = '%s:%s %s' % (pm.rel, esc.lineno, esc.name)
        p = esc.args.args[0].arg
        chains = []
        for st, o in SymExec(esc).run():
            if o == 'return' and st.ret is not None:
                base, pairs = codec.replace_chain(st.ret)
                chains.append((base, pairs))
        ok = bool(chains)
        detail = ''
        for base, pairs in chains:
            n += 1
            if base != N(p):
                ok, detail = False, 'the result is %s' % show(base)[:60]
                continue
            if not any(a == "'" and b.endswith("'") and len(b) == 2 and b[0] == '\\' for a, b in pairs):
                ok, detail = False, 'the quote is not escaped as \\\' (steps: %s)' % pairs
            for i, (a, b) in enumerate(pairs):
                for a2, b2 in pairs[i + 1:]:
                    if a2 and a2 in b and a2 != b2:
                        ok, detail = False, 'step %r -> %r is rewritten by the later step %r -> %r' % (a, b, a2, b2)
        rep.check(ok, R, w, 'prolog:escape', 'quoted atoms: the quote is escaped and no escaping step rewrites the output of an earlier one (%s)' % [pr for _, pr in chains],
                  'a word with a quote no longer decodes as one Prolog atom: %s' % detail)
    tj = pm.get('to_prolog_ja')
    trav = pm.get('to_prolog_ja.traverse_tree')
    w = '%s:%s %s' % (pm.rel, trav.lineno, trav.name)
    loops = [l for l in ast.walk(trav) if isinstance(l, ast.For) and enclosing_function(l) is trav
             and any(isinstance(c, ast.Call) and isinstance(c.func, ast.Name) and c.func.id == trav.name for c in ast.walk(l))]
    if len(loops) != 1:
        raise AnalysisError('%s: the child loop of %s was not found' % (pm.rel, trav.name))
    loop = loops[0]
    idx = None
    it = loop.iter
    if isinstance(it, ast.Call) and src(it.func) == 'enumerate' and isinstance(loop.target, ast.Tuple) and isinstance(loop.target.elts[0], ast.Name):
        idx = loop.target.elts[0].id
        seq = src(it.args[0])
    else:
        seq = src(it)
    commas = [c for c in ast.walk(loop) if isinstance(c, ast.Call) and isinstance(c.func, ast.Attribute) and c.func.attr == 'write' and c.args
              and isinstance(c.args[0], ast.Constant) and isinstance(c.args[0].value, str) and c.args[0].value.strip() == ',']
    ok = False
    detail = 'no comma is written in the child loop'
    if len(commas) == 1:
        guards = [g for g in _parents_until(commas[0], loop) if isinstance(g, ast.If)]
        rec_calls = [c for c in ast.walk(loop) if isinstance(c, ast.Call) and isinstance(c.func, ast.Name) and c.func.id == trav.name]
        before = commas[0].lineno <= min(c.lineno for c in rec_calls)
        if not guards:
            ok, detail = before, 'unconditional'
        elif len(guards) == 1 and idx is not None and not guards[0].orelse:
            t = src(guards[0].test).replace(' ', '')
            always = {'%s<len(%s)' % (idx, seq), '%s<=len(%s)-1' % (idx, seq), '%s>=0' % idx, 'len(%s)>%s' % (seq, idx), 'True'}
            ok, detail = before and t.replace(' ', '') in {a.replace(' ', '') for a in always}, 'guarded by `%s`' % src(guards[0].test)
        else:
            detail = 'guarded by %s' % [src(g.test) for g in guards]
    n += 1
    rep.check(ok, R, w, 'prolog-ja:separator', 'every child of a node is preceded by a comma (the category is the first argument of the term): %s' % detail,
              'the arguments of a Japanese Prolog term are not all separated by commas: the comma before a child is %s' % detail)
    rep.floor('prolog text rules', n, 2)


def _sre_accepts(item, ch):
    """does one parsed regex item (as produced by re._parser) accept the character ch?"""
    import re._constants as K
    op, arg = item
    o = ord(ch)
    if op == K.ANY:
        return ch != '\n'
    if op == K.LITERAL:
        return arg == o
    if op == K.NOT_LITERAL:
        return arg != o
    if op == K.IN:
        neg = False
        hit = False
        for op2, a2 in arg:
            if op2 == K.NEGATE:
                neg = True
            elif op2 == K.LITERAL:
                hit = hit or a2 == o
            elif op2 == K.RANGE:
                hit = hit or a2[0] <= o <= a2[1]
            elif op2 == K.CATEGORY:
                if a2 == K.CATEGORY_WORD:
                    hit = hit or ch.isalnum() or ch == '_'
                elif a2 == K.CATEGORY_DIGIT:
                    hit = hit or ch.isdigit()
                elif a2 == K.CATEGORY_SPACE:
                    hit = hit or ch.isspace()
                elif a2 == K.CATEGORY_NOT_WORD:
                    hit = hit or not (ch.isalnum() or ch == '_')
                elif a2 == K.CATEGORY_NOT_DIGIT:
                    hit = hit or not ch.isdigit()
                elif a2 == K.CATEGORY_NOT_SPACE:
                    hit = hit or not ch.isspace()
        return hit != neg
    return False


def r_html_category(repo, rep, R='R7.10'):
    """the html writer splits the text of a category into (symbols, [feature]) pieces with a regular expression; every
    character that occurs between the square brackets of a shipped category (letters, digits, '=' and ',' of the Japanese
    three-valued features) must be accepted inside the bracket group, or the feature is dropped from the page."""
    import re._parser as sre
    import re._constants as K
    hm = repo.module('depccg/printer/html.py')
    fn = hm.get('_mathml_cat')
    w = '%s:%s %s' % (hm.rel, fn.lineno, fn.name)
    pats = []
    for c in ast.walk(fn):
        if isinstance(c, ast.Call) and isinstance(c.func, ast.Attribute) and c.func.attr in ('findall', 'finditer'):
            if isinstance(c.func.value, ast.Name) and c.func.value.id == 're' and c.args:
                v = hm.literal(c.args[0])
                if isinstance(v, ast.Constant) and isinstance(v.value, str):
                    pats.append(v.value)
            else:
                v = hm.literal(c.func.value)
                if isinstance(v, ast.Call) and src(v.func) in ('re.compile', 'compile') and v.args and isinstance(hm.literal(v.args[0]), ast.Constant):
                    pats.append(hm.literal(v.args[0]).value)
    if len(pats) != 1:
        raise AnalysisError('%s: the pattern %s splits categories with was not found' % (hm.rel, fn.name))
    # the characters features are written with, from the shipped inventories
    alphabet = set()
    for cfg in ('config_en', 'config_ja', 'config_rebank'):
        v = df.load_jsonnet(repo, 'depccg/models/%s.jsonnet' % cfg)
        for t in v.get('targets', []):
            depth = 0
            for ch in t:
                if ch == '[':
                    depth += 1
                elif ch == ']':
                    depth -= 1
                elif depth > 0:
                    alphabet.add(ch)
    try:
        tree = sre.parse(pats[0])
    except Exception as e:
        raise AnalysisError('%s: pattern %r does not parse: %s' % (hm.rel, pats[0], e))
    groups = []

    def walk(seq):
        for op, arg in seq:
            if op == K.SUBPATTERN:
                groups.append(list(arg[3]))
                walk(arg[3])
            elif op in (K.MAX_REPEAT, K.MIN_REPEAT):
                walk(arg[2])
            elif op == K.BRANCH:
                for b in arg[1]:
                    walk(b)
    walk(tree)
    ok = False
    detail = 'no group of the pattern matches a bracketed feature'
    for g in groups:
        if len(g) == 3 and g[0] == (K.LITERAL, ord('[')) and g[2] == (K.LITERAL, ord(']')) and g[1][0] in (K.MAX_REPEAT, K.MIN_REPEAT):
            lo, hi, inner = g[1][1]
            if len(inner) == 1:
                refused = sorted(ch for ch in alphabet if not _sre_accepts(inner[0], ch))
                ok = not refused and hi == K.MAXREPEAT
                detail = 'the bracket group accepts all %d feature characters of the shipped inventories' % len(alphabet) if ok else \
                    'the bracket group refuses %s' % (refused if refused else 'features longer than %s characters' % hi)
    rep.check(ok, R, w, 'html:feature-group', 'categories are split into symbols and [feature] pieces without loss (%s)' % detail,
              'the html page drops features from categories: %s (pattern %r)' % (detail, pats[0]))


CONTENT_SEARCH_EXAMPLE = '''
def _process(tree):
    def rec(node):
        if node.is_leaf:
            start = tokens.index(node.token)
    tokens = tree.tokens
'''


def content_searches(tree_node):
    """calls xs.index(v): the position of the first element *equal* to v -- for tokens (dicts compared by content) and leaves
    not the position of this very object"""
    return [n for n in ast.walk(tree_node) if isinstance(n, ast.Call) and isinstance(n.func, ast.Attribute) and n.func.attr == 'index'
            and len(n.args) == 1 and not n.keywords and not (isinstance(n.func.value, ast.Constant))]


def r_leaf_positions(repo, rep, R='R7.11'):
    """positions of leaves / tokens come from the walk (a counter, enumerate, a queue that is popped), never from looking
    the token up by value: a sentence with two equal tokens would give both the position of the first"""
    ex = ast.parse(CONTENT_SEARCH_EXAMPLE)
    if len(content_searches(ex)) != 1:
        raise AnalysisError('embedded positive example for R7.11 no longer matches')
    n = 0
    for rel in repo.py_files('depccg/printer'):
        mod = repo.module(rel)
        for fn in [f for f in mod.tree.body if isinstance(f, (ast.FunctionDef, ast.ClassDef))]:
            n += 1
            for c in content_searches(fn):
                recv = src(c.func.value)
                if any(k in recv.lower() for k in ('token', 'leaves', 'leaf', 'words', 'children')) or any(
                        k in src(c.args[0]).lower() for k in ('token', 'leaf', 'node', 'child', 'word')):
                    rep.violation(R, '%s:%s %s' % (rel, c.lineno, fn.name), '%s:%s:position-by-search' % (rel, fn.name),
                                  '`%s` looks the position up by value: two tokens with the same content (a repeated word) both get the position of the first, '
                                  'so this format places the leaf elsewhere than the formats that count the leaves' % src(c)[:70])
    rep.ok(R, 'depccg/printer/*', 'no encoder finds the position of a leaf or token by searching for an equal element (%d definitions scanned; embedded example fires)' % n)


def r_attribute_runs(repo, rep, R='R7.4'):
    """the levels of a token attribute written by the Japanese format (pos, pos1.., inflectionForm, inflectionType) are all
    looked at: an unspecified level ('*') is left out, the levels after it are still written.  Cutting the run at the
    first '*' (takewhile, a `break` in the loop over the levels) drops values that json / xml / prolog carry."""
    bad = []
    n = 0
    for rel in ('depccg/printer/ja.py', 'depccg/printer/prolog.py'):
        mod = repo.module(rel)
        for c in ast.walk(mod.tree):
            if isinstance(c, ast.Call) and src(c.func).split('.')[-1] in ('takewhile', 'dropwhile'):
                bad.append('%s:%s %s' % (rel, c.lineno, src(c)[:60]))
            if isinstance(c, ast.For) and isinstance(c.iter, (ast.Tuple, ast.List)) and all(isinstance(e, ast.Constant) and isinstance(e.value, str) for e in c.iter.elts) \
                    and any(str(e.value).startswith(('pos', 'inflection')) for e in c.iter.elts):
                n += 1
                if any(isinstance(b, ast.Break) for b in ast.walk(c)):
                    bad.append('%s:%s break in the loop over %s' % (rel, c.lineno, src(c.iter)[:40]))
            if isinstance(c, (ast.ListComp, ast.GeneratorExp)) and any(isinstance(g.iter, (ast.Tuple, ast.List)) and any(isinstance(e, ast.Constant) and str(e.value).startswith(('pos', 'inflection')) for e in g.iter.elts) for g in c.generators):
                n += 1
    rep.check(not bad, R, 'depccg/printer/ja.py:1 ja_of', 'ja:attribute-levels', 'every level of the part-of-speech / inflection attributes is looked at (%d walks over the level names)' % n,
              'the run of attribute levels is cut at the first unspecified one: %s' % bad[:2])


def r_tree_word(repo, rep, R='R7.4'):
    """Tree.word is what the tokens hold, joined by blanks: the formats that take the word from the tree (deriv, html, prolog,
    ptb, auto ..) and those that take it from the token (xml, jigg_xml, json) then write the same word -- each applying its
    own escaping on top.  A word rewritten inside the accessor reaches only half of the formats."""
    tm = repo.module('depccg/tree.py')
    fn = tm.get('Tree.word')
    w = 'depccg/tree.py:%s Tree.word' % fn.lineno
    rets = [r.value for r in ast.walk(fn) if isinstance(r, ast.Return) and r.value is not None]
    ok = False
    detail = [src(r)[:80] for r in rets]
    if len(rets) == 1:
        r = rets[0]
        if isinstance(r, ast.Call) and isinstance(r.func, ast.Attribute) and r.func.attr == 'join' and isinstance(r.func.value, ast.Constant) and r.func.value.value == ' ' and len(r.args) == 1 \
                and isinstance(r.args[0], (ast.GeneratorExp, ast.ListComp)) and len(r.args[0].generators) == 1 and not r.args[0].generators[0].ifs:
            g = r.args[0]
            tv = g.generators[0].target.id if isinstance(g.generators[0].target, ast.Name) else None
            e = g.elt
            plain = (isinstance(e, ast.Subscript) and isinstance(e.value, ast.Name) and e.value.id == tv) or \
                (isinstance(e, ast.Attribute) and isinstance(e.value, ast.Name) and e.value.id == tv and e.attr == 'word')
            ok = plain and src(g.generators[0].iter) in ('self.tokens', 'self.leaves')
            if isinstance(e, ast.Attribute) and src(g.generators[0].iter) == 'self.leaves':
                ok = plain
        elif isinstance(r, (ast.Subscript, ast.Attribute)):
            ok = True       # a leaf-only accessor handing the stored word back
    rep.check(ok, R, w, 'Tree.word:verbatim', 'Tree.word joins the words the tokens hold, unchanged', 'Tree.word returns %s' % detail)


def r_flat_list(repo, rep, R='R7.3'):
    """to_string accepts the n-best list of one sentence written flat ([t1, t2]): it is that one sentence (all trees under
    sentence number 1), not one sentence per tree"""
    mod = repo.module('depccg/printer/__init__.py')
    fn = mod.get('to_string')
    p0 = fn.args.args[0].arg
    first_is_tree = ('call', N('isinstance'), (('sub', N(p0), C(0)), N('ScoredTree')), ())
    wrapped = ('list', (N(p0),))
    seen = ok = False
    per_tree = []
    for st, o in SymExec(fn, unroll=1).run():
        if o == 'raise':
            continue
        pol = [pl for c, pl, _ in st.conds if c == first_is_tree]
        v = st.env.get(p0)
        if pol and pol[0]:
            seen = True
            # the parameter itself is rebound, or a local of another name takes the batch (`sentences = [nbest_trees]`)
            if v == wrapped or any(val == wrapped for val in st.env.values() if isinstance(val, tuple)):
                ok = True
        for v in [x_ for x_ in st.env.values() if isinstance(x_, tuple) and x_ and x_[0] == 'listcomp']:
          if v is not None and v[0] in ('listcomp',) and any(x[0] == 'call' and x[1] == N('isinstance') and len(x[2]) == 2 and x[2][1] == N('ScoredTree')
                                                          and x[2][0][0] == 'elem' for x in subterms(v)):
            per_tree.append(show(v)[:80])
            break
    w = '%s:%s to_string' % (mod.rel, fn.lineno)
    rep.check(seen and ok and not per_tree, R, w, 'to_string:flat-nbest-list',
              'a flat list of scored trees is taken as the n-best list of one sentence',
              'a flat list of scored trees is not wrapped as one sentence%s: the n-best trees of a sentence are numbered as separate sentences in every format'
              % (' (each tree becomes a sentence of its own: %s)' % per_tree[0] if per_tree else ''))


def r_extended_leaf(repo, rep, R='R7.12'):
    """the extended AUTO leaf record lists category, word, lemma, POS, entity, chunk, category -- the order its consumers
    (and the prolog / xml / json encoders, by name) give these annotations"""
    from .c08 import writer_templates, role_of, AUTO
    am = repo.module(AUTO)
    p, (lst, leaf), (nst, node) = writer_templates(am, 'auto_extended_of')
    toks = codec.fstr_tokens(leaf)
    roles = [role_of(t, p)[0] for t in toks if t]
    fn = am.get('auto_extended_of')
    want = ['lit', 'cat', 'word', 'attr:lemma', 'pos', 'attr:entity', 'attr:chunk', 'cat']
    rep.check(roles == want, R, '%s:%s auto_extended_of' % (AUTO, fn.lineno), 'auto_extended:leaf-fields',
              'the extended leaf record is <L cat word lemma pos entity chunk cat>',
              'the extended leaf record lists its fields as %s, expected %s: a reader of the format takes the annotations by position' % (roles, want))


def check(repo, rep, tier):
    from ..lints import r_import_time_language
    r_import_time_language(repo, rep, 'R7.4', repo.py_files('depccg/printer'))
    rep.rule('R7.1', 'conll head assignment from head flags')
    rep.rule('R7.2', 'head flag polarity of the AUTO-family encoders')
    rep.rule('R7.3', 'sentence / n-best numbering of every loop nest over results')
    rep.rule('R7.4', 'traversal completeness of every encoder')
    rep.rule('R7.6', 'Jigg span ids / leaf positions / child lists (shared with C15 R15.3): offsets and references restart per tree, ids per sentence')
    rep.rule('R7.5', 'sibling width computations of the deriv layout use the same measure')
    r_conll_heads(repo, rep)
    r_polarity(repo, rep)
    r_numbering(repo, rep)
    from ..lints import r_templates_constant
    r_templates_constant(repo, rep, 'R7.3', repo.py_files('depccg/printer'),
                         'a word or category text that contains { } is then taken for a replacement field: the record that is written is not the one the encoder produced')
    r_flat_list(repo, rep)
    r_tree_word(repo, rep)
    r_attribute_runs(repo, rep)
    rep.rule('R7.13', 'what an encoder writes for a node is computed from that node: no table at module level that a rendering fills and a later rendering reads')
    from ..lints import r_module_state
    r_module_state(repo, rep, 'R7.13', repo.py_files('depccg/printer'),
                   'a text remembered under the identity of an object answers for another object once the first one is gone (ids are reused), so a later batch is '
                   'written with the categories / sub-trees of an earlier one in this format only')
    r_traversal(repo, rep)
    r_deriv_measures(repo, rep)
    r_deriv_columns(repo, rep)
    r_category_spelling(repo, rep)
    rep.rule('R7.8', 'the json encoder returns live dict structures that are serialised after all trees of a batch were encoded: the '
                     'records it fills are its own copies, never a token / tree object of the result (shared by the n-best trees of a sentence)')
    r_json_fresh(repo, rep)
    rep.rule('R7.7', 'the PTB encoder writes "(cat word)" / "(cat child ..)" and replaces round brackets inside words (shared with C20): every token decodes')
    from .c20 import r_ptb
    r_ptb(repo, rep, writer_only=True, RT='R7.7', RE='R7.7')
    from .c15 import r_ids
    r_ids(repo, rep, 'R7.6')
    rep.rule('R7.9', 'Prolog text decodes: the escaping steps of quoted atoms do not rewrite each other; the arguments of a Japanese term are comma-separated')
    r_prolog_text(repo, rep)
    rep.rule('R7.10', 'the html category splitter accepts every feature spelling of the shipped inventories inside its bracket group')
    r_html_category(repo, rep)
    rep.rule('R7.11', 'positions of leaves and tokens come from the walk, never from searching for an equal element')
    r_leaf_positions(repo, rep)
    rep.rule('R7.12', 'field order of the extended AUTO leaf record')
    r_extended_leaf(repo, rep)
    rep.rule('R7.14', 'the Jigg span categories spell every feature an atom has (base[f=true]); the base alone only for an atom without one')
    from .c15 import r_jigg_category
    r_jigg_category(repo, rep, 'R7.14')
    from .c20 import r_ja_fields_nonempty
    r_ja_fields_nonempty(repo, rep, 'R7.4')       # a leaf record of the ja format with an empty field does not decode
