"""C02 -- every returned parse is a derivation licensed by grammar and input."""
from .. import rules_cxx as rc
from .. import rules_pyx as rp
from ..parse_model import ParseModel

EXPLANATION = (
    'Static conformance of parsing.h (clang AST) and parsing.pyx (normalised Cython, symbolic paths) to rules '
    'R2.1-R2.5: every agenda item stores as back-pointers exactly the two adjacent chart entries that were '
    'handed to the grammar callback, in left-right order, with the category id the callback returned and the '
    'covering span; goal items require the full span and an allowed root; no unary step at the full span of a '
    'multi-word sentence; the finalizer emits one leaf per token in order (token counter +1 on the leaf path '
    'only, fresh per goal item), looks categories up by the stored id, and rebuilds left before right; the '
    'category table is append-only with id = position and duplicates rejected. Does not decide soundness of '
    'the Python grammar (C03/C04) or anything about scores.'
    ' Also (second round): the batch split of depccg/parsing.py covers every sentence exactly once (R11.2 reused), and the rule cache stores the vector the callback filled without touching it.'
    ' Third round: the score matrices whose raw pointers go to the search are declared 2-d float C-contiguous buffers (R2.2 run:buffer); every accepted chart entry is expanded unconditionally.'
    ' Fourth round: worker results are gathered in the order the pieces were cut (rule of C11); one function-scope candidate queue that is never emptied between words is reported as a finding of the model.'
    ' Fifth round: candidates selected with std::nth_element and read in index order are a model-level finding; the rule cache never shrinks during a search.'
    ' Sixth and seventh round: left / right back-pointers chosen by a condition are a model-level finding; every sentence that is not too long goes through parse_sentence (R2.4); the beam options reach the search as given and the score matrices have exactly one column per category (R2.2, shared with C16 / C11).'
    " Ninth and tenth round: the beam rule of C16 (at most pruning_size candidates per word, best first, stop below the threshold) is a condition of 'leaf categories are beam-admitted' and runs here too.")
TRUSTED = ['clang-14 front end (-fsyntax-only, JSON AST)', 'CPython ast', 'the Cython normaliser sa/pyx.py', 'rule table DESIGN.md C02']


def check(repo, rep, tier):
    m = ParseModel(repo)
    rep.rule('R2.1', 'binary push sites: (cat,left,right,start,len) = (r.cat_id, A, B, A.start, A.len+B.len), r from apply_binary_rules(A.cat,B.cat), A/B adjacent')
    rep.rule('R2.2', 'unary/leaf/goal sites copy span and head; leaf category comes from the token\'s own candidate queue')
    rep.rule('R2.3', 'goal push dominated by full span && allowed root; unary expansion by length==1 || span!=length')
    rep.rule('R2.4', 'retrieve_tree: leaf per token in order, categories[item.cat], left before right, one tree per item')
    rep.rule('R2.5', 'category table append-only, id = position, duplicates rejected, both callbacks use it')
    rc.r_backpointers(m, rep, 'R2.1')
    rc.r_items_immutable(m, rep, 'R2.1')
    rc.r_leaf_loop(m, rep, 'R2.2')
    rc.r_best(m, rep, 'R2.2')
    rc.r_beam(m, rep, 'R2.2')          # leaf categories are among the beam-admitted supertags: the candidate loop takes at most pruning_size of them, best first, and stops below the threshold
    rc.r_chart(m, rep, 'R2.1')
    rc.r_search_loop(m, rep, 'R2.3')
    rc.r_expansion_unconditional(m, rep, 'R2.3')   # every accepted entry is expanded: no derivation is left out of the search
    rc.r_guards(m, rep, 'R2.3')
    rc.r_cache(m, rep, 'R2.5')
    rc.r_nbest(m, rep, 'R2.4')
    rp.r_retrieve_tree(repo, rep, 'R2.4', {'shape'})
    rp.r_tree_factories(repo, rep, 'R2.4')
    ti = rp.r_category_table(repo, rep, 'R2.5')
    rp.r_call_locals(repo, rep, 'R2.5')
    rp.r_score_buffers(repo, rep, 'R2.2')   # the candidates of a token come from the matrix the caller supplied, read with its real layout
    rp.r_config_plumbing(repo, rep, 'R2.2')  # 'admitted' is relative to the beam the caller asked for: pruning_size / beta / use_beta reach the search as given
    if ti:
        rp.r_callbacks(repo, rep, 'R2.5')
        rp.r_sentence_loop(repo, rep, 'R2.4', ti)
        rp.r_root_ids(repo, rep, 'R2.5', ti)
    from .c11 import r_chunks, r_gather, r_validation
    r_validation(repo, rep, 'R2.2')        # a score column beyond the category list is a supertag id that stands for a root / derived category: the shapes are checked before any parsing
    r_chunks(repo, rep, 'R2.4')            # a tree is built from the tokens of its own sentence: the batch split neither skips nor repeats
    r_gather(repo, rep, 'R2.4')            # ... and the pieces come back in the order they were cut
    rep.floor('agenda push sites', len(m.sites), 5)
    rep.floor('binary push sites', len(m.by_kind.get('binary', [])), 2)
    rep.note('push_sites', [(s.kind, s.line) for s in m.sites])
