"""C01 -- A* search returns the highest-scoring derivation (search-order clauses)."""
import ast

from .. import rules_cxx as rc
from ..parse_model import ParseModel
from ..pygrammar import combinator_functions
from ..core import AnalysisError
from ..pysym import alternatives, show
from .. import symcat as sc

EXPLANATION = (
    'Static conformance of depccg/parsing.h (clang AST) and the two grammar modules (Python AST) to the '
    'rule table R1.1-R1.4 of DESIGN.md: the agenda is a max-priority queue on in+out; every pushed item '
    'carries the admissible, child-to-parent monotone estimate (linear forms of in_score/out_score at all '
    '5 push sites, definitions of the atoms BT/BD/D_all, prefix/suffix recurrences and index ranges of '
    'compute_outside_probabilities); the chart is first-pop-wins per (span, category) in 1-best mode; '
    'failure is reported only when the goal cell is empty; both shipped grammars are head-uniform. With '
    'the pencil proof of DESIGN.md section 6 these clauses give non-increasing pop priorities for all '
    'inputs. Decides the code shape, not float rounding or the step budget.'
    " Third round: the span rule of unary steps, the sort of the goal cell and 'every accepted chart entry is expanded unconditionally' (R1.5) are checked here too: the best derivation must be reachable and handed out first."
    " Fourth round: the admission rule of supertags (R1.6, the beam rule of C16), no module-level table written by the grammar modules (R1.7), the per-sentence loop rules of the glue code and 'the options are read into the search configuration once, before the sentence loop' (R1.3)."
    " Fifth round: the chunking / in-order gather rules of the pooled path (shared with C11) are conditions of 'the parse returned for a sentence'."
    ' Sixth and seventh round: the allowed roots are registered through the one category table (R1.3); the option plumbing of C16, with no option name captured by a named parameter of the compiled run(); a search loop written as a counted `while` is read as the `for` loop it is (a pre-increment budget test is one step short).'
    ' Eighth round: a queue class of the header is the priority queue only if every member it redefines forwards unconditionally (agenda:<member>:redefined); bit-field members of the items and the declared layout of the score buffers (R1.2); options forwarded by name from the command line.')
TRUSTED = ['clang-14 front end (-fsyntax-only, JSON AST)', 'CPython ast', 'rule table in DESIGN.md sections 2/C01 and 6']


def head_uniformity(repo, rep, R='R1.4'):
    n = 0
    for rel in ('depccg/grammar/en.py', 'depccg/grammar/ja.py'):
        mod = repo.module(rel)
        consts = {}
        for name, fn in combinator_functions(mod):
            outs = [o for o in sc.outcomes(fn) if isinstance(o.result, dict)]
            if not outs:
                raise AnalysisError('%s: combinator %s builds no CombinatorResult' % (rel, name))
            seen_nodes = set()
            for o in outs:
                if id(o.node) in seen_nodes:
                    continue
                seen_nodes.add(id(o.node))
                n += 1
                h = o.result['head_is_left']
                vals = {v for _, v in alternatives(h)}
                ok = len(vals) == 1 and all(v[0] == 'const' and isinstance(v[1], bool) for v in vals)
                where = '%s:%s %s' % (rel, getattr(o.node, 'lineno', fn.lineno), name)
                rep.check(ok, R, where, '%s:%s:head-constant' % (rel, name),
                          '%s builds its result with constant head_is_left=%s' % (name, sorted(v[1] for v in vals) if ok else '?'),
                          '%s: head_is_left is not a single boolean constant (%s)' % (name, show(h)))
                if ok:
                    consts.setdefault(next(iter(vals))[1], []).append(name)
        rep.check(len(consts) == 1, R, '%s:1 <module>' % rel, '%s:head-uniform' % rel,
                  'all binary rules of %s share head_is_left=%s' % (rel, list(consts)),
                  '%s mixes head directions: %s' % (rel, {k: v for k, v in consts.items()}))
    rep.floor('binary CombinatorResult constructions (en+ja)', n, 24)


def check(repo, rep, tier):
    m = ParseModel(repo)
    rep.rule('R1.1', 'agenda is a max-priority queue on in_score+out_score; items leave only via top()+pop()')
    rep.rule('R1.2', 'in/out of each of the 5 push sites equal the recurrences leaf/unary/binary/goal (linear forms)')
    rep.rule('R1.2b', 'atoms: BT[t]=max tag score, BD[t]=max dependency score, D_all=sum BD, tables from BT/BD')
    rep.rule('R1.2c', 'compute_outside_probabilities: prefix/suffix sums, out(i,j)=left[i]+right[j], index ranges')
    rep.rule('R1.3', 'chart::update first-pop-wins unless n-best; search guard; goal collection; failure iff goal empty')
    rep.rule('R1.4', 'head_is_left is one constant per grammar module')
    rc.r_priority(m, rep, 'R1.1')
    rc.r_estimates(m, rep, 'R1.2', 'in')
    rc.r_estimates(m, rep, 'R1.2', 'out')
    rc.r_leaf_loop(m, rep, 'R1.2')
    rc.r_best(m, rep, 'R1.2b')
    rc.r_outside_fn(m, rep, 'R1.2c')
    rc.r_chart(m, rep, 'R1.3')
    rc.r_search_loop(m, rep, 'R1.3')
    rc.r_expansion_unconditional(m, rep, 'R1.5')   # every accepted entry is expanded: no derivation is left out of the search
    rc.r_heads(m, rep, 'R1.2')
    rep.rule('R1.5', 'every derivation is reachable and the best is handed out first: unary steps allowed below the full span '
                     'and for one-word sentences; the goal cell is sorted by score before results are emitted')
    rc.r_guards(m, rep, 'R1.5', allow_stricter=False)    # a one-word sentence must get its unary steps: failure only when no derivation exists
    rc.r_nbest(m, rep, 'R1.5')
    rc.r_items_immutable(m, rep, 'R1.2')
    head_uniformity(repo, rep)
    from .. import rules_pyx as rp
    ti = rp.r_category_table(repo, rep, 'R1.3')
    rp.r_call_locals(repo, rep, 'R1.3')
    if ti:
        rp.r_callbacks(repo, rep, 'R1.3')
        # every sentence of a batch is searched with the configuration and tables of the call (nothing is re-read or
        # consumed per sentence)
        rp.r_sentence_loop(repo, rep, 'R1.3', ti)
        rp.r_root_ids(repo, rep, 'R1.3', ti)            # every allowed root category gets an id, whether the tagger knows it or not
    rc.r_rule_ids(m, rep, 'R1.2')            # positions and ids an item carries are full-width integers: a packed field wraps for long sentences and the search works on other spans
    rp.r_score_buffers(repo, rep, 'R1.2')    # the matrices are read with the layout they really have
    rp.r_config_plumbing(repo, rep, 'R1.3')     # (includes config-once) the derivations searched are those over the supertags the caller's beam admits, scored with the caller's penalty
    from .c11 import r_state, r_chunks, r_gather
    r_state(repo, rep, 'R1.3')
    # "the first parse returned for a sentence": a large batch is cut into chunks for a pool of workers; the list that
    # comes back for sentence i must be the one computed from sentence i (shared with C11 R11.2 / R11.3)
    r_chunks(repo, rep, 'R1.3')
    r_gather(repo, rep, 'R1.3')
    rep.rule('R1.6', 'the set of admitted supertags is the one the property names: pruning_size best, beta filter when enabled (shared with C16)')
    if len(m.by_kind.get('leaf', [])) == 1:
        rc.r_beam(m, rep, 'R1.6')
    else:
        rep.violation('R1.6', 'depccg/parsing.h:%s parse_sentence' % m.ps.line, 'leaf:only-from-beam', 'leaf items are pushed from %d sites' % len(m.by_kind.get('leaf', [])))
    rep.rule('R1.7', 'the rule functions are functions of the two categories: the grammar modules keep no table that a call fills and a later call reads')
    from ..lints import r_module_state
    r_module_state(repo, rep, 'R1.7', ['depccg/grammar/en.py', 'depccg/grammar/ja.py'],
                   'an answer remembered from an earlier call (another sentence, another pair that shares the key) replaces what the rules give for this pair, so derivations '
                   'appear or vanish depending on what was parsed before')
    rep.floor('agenda push sites', len(m.sites), 5)
    rep.floor('binary push sites', len(m.by_kind.get('binary', [])), 2)
    rep.note('push_sites', [(s.kind, s.line) for s in m.sites])
    rep.note('roles', {'TAG': m.TAG, 'DEP': m.DEP, 'BT': m.BT, 'BD': m.BD, 'D_all': m.DALL,
                       'T_out': m.T_OUT, 'D_out': m.D_OUT, 'agenda': m.agenda, 'chart': m.chart, 'goal': m.goal})
