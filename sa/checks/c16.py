"""C16 -- the supertag beam is honoured."""
import ast

from .. import rules_cxx as rc
from .. import rules_pyx as rp
from ..parse_model import ParseModel
from ..core import src, AnalysisError

EXPLANATION = (
    'Static conformance to R16.1-R16.3: leaves enter the agenda only from the per-word candidate loop, which draws '
    'from a max-priority queue holding the whole tag row, takes at most pruning_size candidates (loop counter from 0, '
    '< pruning_size), removes one per iteration, and ends at the first candidate that fails the keep-test; the '
    'keep-test type-checks in a two-domain (log-probability / probability) typing and is one of the normal forms '
    'exp(s) > (use_beta ? exp(best)*beta : lowest) or s > (use_beta ? best+log(beta) : lowest), with `best` read '
    'before any pop; the option names pruning_size/beta/use_beta reach struct config unchanged from the CLI flags '
    '(use_beta = not --disable-beta). Float comparison at the exact threshold is not decided.'
    ' The per-word candidate queues must be max-heaps (top() is the best remaining tag).'
    ' Fourth round: in the probability domain the keep-test is strict; leaf items come from one site; the search expands every accepted entry (R16.4).'
    ' Fifth round: every in-process call of depccg._parsing.run passes the one option dictionary.'
    ' Sixth and seventh round: the fill loop takes every tag, the score buffers are contiguous, chunking / gather, each search option declared on one level of the command line.'
    ' Eighth round: an option dictionary built by name ({k: v for k, v in vars(args).items() if k in signature(run).parameters}) passes exactly the like-named options.'
    ' Eleventh round: R16.5 -- retrieve_tree rebuilds a terminal only for an item without children, so the supertag shown for a word is the one the search used.')
TRUSTED = ['clang-14 front end', 'CPython ast', 'sa/pyx.py normaliser', 'rule table DESIGN.md C16']


def r_cli_flags(repo, rep, R='R16.3'):
    from ..cli import cli_options
    from ..pysym import show
    mod, fn, options = cli_options(repo)
    w = '%s:%s parse_args' % (mod.rel, fn.lineno)
    langs = sorted({o.lang for o in options if o.lang in ('en', 'ja')})
    flags = {}
    for o in options:
        for nm in o.flags:
            if nm.startswith('--'):
                flags.setdefault(nm, []).append(o)
    desc = lambda os_: [{k: show(v)[:30] for k, v in o.kw.items() if k != 'help'} for o in os_]
    for flag, typ in (('--pruning-size', 'int'), ('--beta', 'float')):
        os_ = flags.get(flag, [])
        ok = bool(os_) and {o.lang for o in os_} >= set(langs) and all(o.kw.get('type') == ('name', typ) and 'dest' not in o.kw for o in os_)
        rep.check(ok, R, w, 'cli:' + flag, '%s is a %s option stored under its own name (for %s)' % (flag, typ, '/'.join(langs)),
                  '%s is declared as %s' % (flag, desc(os_)))
    # an option declared on the top-level parser AND on a sub-command: argparse copies the sub-command's namespace, defaults
    # included, over what the top-level parser read, so `depccg --pruning-size 1 en` silently runs with the default
    twice = sorted(f_ for f_, os_ in flags.items() if any(o.lang is None for o in os_) and any(o.lang in langs for o in os_)
                   and f_ in ('--pruning-size', '--beta', '--disable-beta', '--nbest', '--unary-penalty', '--max-length', '--max-step'))
    rep.check(not twice, R, w, 'cli:declared-once', 'each search option is declared at one level of the command line',
              'the option(s) %s are declared on the top-level parser and again on the language sub-commands: the value given in front of the sub-command is accepted and then '
              'overwritten by the sub-command\'s default -- the search runs with the default beam although another one was asked for' % twice)
    opts = {'disable_beta', 'beta', 'pruning_size'}
    for rel in ('depccg/argparse.py', 'depccg/__main__.py'):
        m_ = repo.module(rel)
        for n in ast.walk(m_.tree):
            tg = []
            if isinstance(n, ast.Assign):
                tg = n.targets
            elif isinstance(n, (ast.AugAssign, ast.AnnAssign)):
                tg = [n.target]
            elif isinstance(n, ast.Call) and src(n.func) == 'setattr' and len(n.args) >= 2 and isinstance(n.args[1], ast.Constant) and n.args[1].value in opts:
                rep.violation(R, '%s:%s' % (rel, n.lineno), '%s:option-overwritten:%s' % (rel, n.args[1].value), 'beam option %r is overwritten after parsing the command line' % n.args[1].value)
            for t in tg:
                if isinstance(t, ast.Attribute) and t.attr in opts:
                    rep.violation(R, '%s:%s' % (rel, n.lineno), '%s:option-overwritten:%s' % (rel, t.attr),
                                  'beam option `%s` is overwritten after the command line was parsed (`%s`): the user\'s setting does not reach the search' % (t.attr, src(n)[:60]))
    rep.ok(R, w, 'no code overwrites args.beta / args.pruning_size / args.disable_beta after parsing', nontrivial=False)
    os_ = flags.get('--disable-beta', [])
    from ..cli import switch_semantics
    sem = switch_semantics(repo, '--disable-beta')
    # a plain switch, for every language: what it stands for is judged together with how main reads it (main:kwargs:use_beta)
    ok = bool(os_) and {o.lang for o in os_} >= set(langs) and bool(sem) and all(s_ is not None and s_[2] != s_[3] for s_ in sem)
    rep.check(ok, R, w, 'cli:--disable-beta', '--disable-beta is a boolean switch (%s)' % sem,
              '--disable-beta is declared as %s' % desc(os_))
    opts |= {s_[1] for s_ in sem if s_ is not None}


def check(repo, rep, tier):
    m = ParseModel(repo)
    rep.rule('R16.1', 'candidate loop: whole tag row in a max-heap, <= pruning_size pops, one per iteration, early stop')
    rep.rule('R16.2', 'keep-test well-typed (LOG/PROB) and in normal form; best read before any pop')
    rep.rule('R16.3', 'option names reach struct config unchanged: CLI -> parsing.run -> kwargs -> init_config')
    leafs = m.by_kind.get('leaf', [])
    rep.check(len(leafs) == 1 and m.in_loop(leafs[0]) is m.leaf_loop, 'R16.1',
              leafs[0].where() if leafs else 'depccg/parsing.h:0 parse_sentence', 'leaf:only-from-beam',
              'leaf items enter the agenda only from the candidate loop',
              'leaf items are pushed from %d sites (%s): whether a tag inside the beam becomes available then depends on more than its rank and score'
              % (len(leafs), ', '.join('line %s' % s_.line for s_ in leafs)))
    if len(leafs) == 1:
        rc.r_beam(m, rep, 'R16.1')
        rc.r_best(m, rep, 'R16.1')
        rc.r_leaf_loop(m, rep, 'R16.1')
    elif not leafs:
        raise AnalysisError('depccg/parsing.h: no leaf push site found')
    rep.rule('R16.4', 'what the beam admitted stays available: the search expands every accepted entry and stops only for its budget, its n-best quota or an empty agenda')
    rc.r_expansion_unconditional(m, rep, 'R16.4')
    rep.rule('R16.5', 'the supertag a returned tree shows for a word is the one the search used: retrieve_tree rebuilds a terminal only for an item without children, and a unary item as a unary node')
    rp.r_retrieve_tree(repo, rep, 'R16.5', {'shape'})
    rp.r_config_plumbing(repo, rep, 'R16.3')
    from .c11 import r_chunks, r_gather
    r_chunks(repo, rep, 'R16.3')           # the beam of a sentence is taken over that sentence's own rows: the result handed back for sentence i is the one searched on its matrices
    r_gather(repo, rep, 'R16.3')
    rp.r_score_buffers(repo, rep, 'R16.1')     # the ranks and probabilities the beam is taken over are those of the caller's rows: the matrices are read with the layout they really have
    r_cli_flags(repo, rep)
    need = ['beta', 'use_beta', 'pruning_size']
    rep.check(all(f in m.config_fields for f in need), 'R16.3', 'depccg/parsing.h:%s config' % m.decls['config'].line,
              'config:fields', 'struct config has fields %s' % need, 'struct config fields are %s' % m.config_fields)
    rep.floor('candidate loops', 1, 1)
