"""C08 -- AUTO text written by depccg reads back to the same tree."""
import ast

from ..core import AnalysisError, src
from ..pysym import SymExec, show, subterms, str_parts, all_calls
from ..rules_pyx import N, C, A
from .. import codec
from .. import logic

EXPLANATION = (
    'Field-by-field agreement between the templates of auto_of and the cursor program of _AutoLineReader: R8.1 the leaf '
    'record has as many blank-separated fields as parse_leaf performs cursor reads, with category / POS / word taken '
    'from the positions where the writer puts them and the bracketing fields discarded; R8.2 the node record header '
    '(marker, category, head, arity) and the child loop up to the closing bracket; R8.3 the head flag polarity '
    '(writer 0 for head_is_left, reader head_is_left = (field == "0")); R8.4 the two fragment templates of conll_of are '
    'term-for-term the AUTO templates (same literals, same field expressions, same defaults) and are joined by a blank; '
    'R8.5 the word goes through denormalize in every AUTO-family writer, denormalize is idempotent on its own output '
    '(no output equals a rewritten key or contains a rewritten character), and the reader keeps the escaped spelling '
    'apart from deleting backslashes.  The round trip for arbitrary categories depends on C05 and is not decided here.'
    " read_auto may repair treebank glitches only on whole fields (never by whole-line replace / regex substitution), and the value of a leaf's last field -- truncated by next() when the leaf ends the line -- must not be used."
    ' Third round: read_auto hands the whole line to the reader (no cut at a marker); every node record read yields a node carrying its category.'
    ' Fourth round: normalize / denormalize may be table-driven, a membership test of the word in a text is a substring test; the line is handed to the reader as written (no conversion of the whole line).'
    ' Fifth round: read_auto yields every tree line it parses; all ways a writer formats one record kind are the same sequence of fields.'
    ' Sixth and seventh round: R8.6 templates / module state, R8.7 feature members on both feature classes, atoms built from the text read, the AUTO reader chosen by how the file name ends.'
    " Eighth round: every AUTO line pair is taken by itself (R8.5), the line reader's node factory asks the grammar with the children it stores (R8.3), children are found by identity (R8.4)."
    ' Ninth and tenth round: no AUTO line is refused by counting its brackets; the [conj] repair cuts only after a bracket; escaping driven by literal tables is read as the map it is, and a return from inside the loop over such a table is reported.')
TRUSTED = ['CPython ast', 'sa/pysym.py path walker', 'rule table DESIGN.md C08']

AUTO = 'depccg/printer/auto.py'
CONLL = 'depccg/printer/conll.py'
RD = 'depccg/tools/reader.py'


def writer_templates(mod, fname):
    rec = mod.get(fname + '.rec')
    p = rec.args.args[0].arg
    leaf = node = None
    seen = {'leaf': [], 'node': []}
    for st, ret in codec.returns_of(rec):
        if codec.path_has(st, A(N(p), 'is_leaf'), True):
            leaf = (st, ret)
            if ret not in seen['leaf']:
                seen['leaf'].append(ret)
        elif codec.path_has(st, A(N(p), 'is_leaf'), False):
            node = (st, ret)
            if ret not in seen['node']:
                seen['node'].append(ret)
    if leaf is None or node is None:
        raise AnalysisError('%s: %s.rec lacks a leaf or a node path' % (mod.rel, fname))
    # a record kind written in several ways (say unary and binary nodes formatted apart): every way must be the same
    # sequence of fields -- the rules below judge one of them
    for kind, rets in seen.items():
        if len(rets) > 1:
            shapes = []
            for r_ in rets:
                try:
                    shapes.append([(role_of(t, p)[0], role_of(t, p)[1]) for t in codec.fstr_tokens(r_)])
                except AnalysisError:
                    shapes.append(None)
            if any(s_ != shapes[-1] for s_ in shapes):
                from ..core import StructuralViolation
                raise StructuralViolation('R-codec', '%s:%s %s.rec' % (mod.rel, rec.lineno, fname), '%s:%s-records-differ' % (fname, kind),
                                          '%s records are written in %d different forms depending on the node: %s -- the reader knows one record layout'
                                          % (kind, len(rets), [[x[0] for x in s_] if s_ else '?' for s_ in shapes]))
    return p, leaf, node


def role_of(tok, p):
    """classify one writer token"""
    fields = [x for x in tok if not isinstance(x, str)]
    lits = ''.join(x for x in tok if isinstance(x, str))
    if not fields:
        return ('lit', lits)
    f = fields[0]
    txt = show(f)
    if f == A(N(p), 'cat'):
        return ('cat', lits)
    if A(N(p), 'word') in set(subterms(f)):
        return ('word', lits)
    if f[0] == 'call' and f[1][0] == 'attr' and f[1][2] == 'get' and f[2] and f[2][0] == C('pos'):
        return ('pos', lits)
    if f[0] == 'ifexp' and f[1] == A(N(p), 'head_is_left'):
        return ('head', lits)
    if f == ('call', N('len'), (A(N(p), 'children'),), ()):
        return ('arity', lits)
    if f[0] == 'call' and f[1][0] == 'attr' and f[1][2] == 'join':
        return ('children', lits)
    if f[0] == 'call' and f[1][0] == 'attr' and f[1][2] == 'get':
        return ('attr:' + str(f[2][0][1]) if f[2] and f[2][0][0] == 'const' else 'attr', lits)
    if f == A(N(p), 'op_string'):
        return ('rule', lits)
    return ('other:' + txt[:30], lits)


def r_read_auto(repo, rep, R='R8.5'):
    """read_auto repairs the two known treebank glitches field by field; what reaches the line reader is otherwise the
    line as written.  A repair applied to the whole line (str.replace / regex substitution) also rewrites every field
    that merely *contains* the glitch text -- three categories of the tag set start with the broken category."""
    rm = repo.module(RD)
    fn = rm.get('read_auto')
    w = '%s:%s read_auto' % (RD, fn.lineno)
    seen = False
    bad = []
    cut = []
    changed = []
    for st, o in SymExec(fn, unroll=1).run():
        for c_ in all_calls(st, N('_AutoLineReader')):
            seen = True
            if not c_[2]:
                continue
            arg = c_[2][0]

            def whole_line(t):
                if t[0] == 'elem':
                    return True
                if t[0] == 'call' and t[1][0] == 'attr' and t[1][2] in ('strip', 'rstrip', 'lstrip') and whole_line(t[1][1]):
                    return True
                if t[0] == 'ifexp':
                    return whole_line(t[2]) or whole_line(t[3])
                return False
            for s_ in subterms(arg):
                if s_[0] == 'call' and s_[1][0] == 'attr' and s_[1][2] in ('replace', 'translate') and (whole_line(s_[1][1]) or any(
                        x[0] == 'call' and x[1][0] == 'attr' and x[1][2] in ('replace', 'sub') for x in subterms(s_[1][1]))):
                    bad.append(show(s_)[:80])
                if s_[0] == 'call' and s_[1][0] == 'attr' and s_[1][2] in ('sub', 'subn') and len(s_[2]) >= 2 and (whole_line(s_[2][1]) or any(
                        x[0] == 'call' and x[1][0] == 'attr' and x[1][2] in ('replace', 'sub') for x in subterms(s_[2][1]))):
                    bad.append(show(s_)[:80])
                # a cut: line[:k], line.partition(..)[0], line.split('#')[0] ... -- words and tags may contain any printable
                # character, so no marker inside a line can be taken for the start of a comment
                def file_line(t):
                    if t[0] == 'elem':
                        return not any(x[0] == 'call' and x[1][0] == 'attr' and x[1][2] in ('split', 'rsplit') for x in subterms(t[1]))
                    return t[0] == 'call' and t[1][0] == 'attr' and t[1][2] in ('strip', 'rstrip', 'lstrip') and file_line(t[1][1])
                # any other function of the whole line (unicodedata.normalize, lower(), encode/decode, expandtabs ..): the
                # words of the file are then no longer the words that are read
                if s_[0] == 'call' and any(file_line(a_) for a_ in s_[2]) and not (s_[1][0] == 'attr' and s_[1][2] in ('join',)) \
                        and s_[1] not in (N('str'), N('_AutoLineReader')):
                    changed.append(show(s_)[:80])
                if s_[0] == 'call' and s_[1][0] == 'attr' and file_line(s_[1][1]) and s_[1][2] not in (
                        'strip', 'rstrip', 'lstrip', 'split', 'rsplit', 'partition', 'rpartition', 'replace', 'translate', 'startswith', 'endswith', 'splitlines'):
                    changed.append(show(s_)[:80])
                if s_[0] == 'sub' and file_line(s_[1]) and s_[2][0] == 'slice':
                    cut.append(show(s_)[:80])
                if s_[0] == 'sub' and s_[2][0] == 'const' and s_[1][0] == 'call' and s_[1][1][0] == 'attr' and file_line(s_[1][1][1]) \
                        and s_[1][1][2] in ('partition', 'rpartition', 'split', 'rsplit') and s_[1][2] and s_[1][2][0] != C(' '):
                    cut.append(show(s_)[:80])
    if not seen:
        raise AnalysisError('%s: read_auto never constructs the line reader' % RD)
    # every line that is parsed is handed on: one result per tree line of the file, whatever the tree is
    dropped, n_parsed = [], 0
    for st, o in SymExec(fn, unroll=1).run():
        if o == 'raise' or not all_calls(st, N('_AutoLineReader')):
            continue
        n_parsed += 1
        ys = [e for e in st.events if e[0] == 'expr' and isinstance(e[1], tuple) and e[1][0] == 'yield']
        ys += [e for e in st.events if e[0] == 'yield']
        if not ys:
            after = [show(c)[:60] for c, pol, _ in st.conds if any(x[0] == 'call' and x[1][0] == 'attr' and x[1][2] == 'parse' for x in subterms(c))
                     or any(x[0] == 'unpack' for x in subterms(c))]
            dropped.append(after[-1] if after else 'a path without yield')
    if n_parsed:
        rep.check(not dropped, R, w, 'read_auto:yields-every-tree', 'every tree line that is parsed is yielded (%d parsing paths)' % n_parsed,
                  'a parsed tree is skipped depending on its content (%s): the file reads back with fewer trees than were written, and later trees shift' % sorted(set(dropped))[:2])
    rep.check(not cut, R, w, 'read_auto:whole-line', 'the reader gets the whole line (only surrounding blanks removed)',
              'only a part of the line reaches the reader: %s -- a word or tag containing the marker is cut off' % sorted(set(cut))[:2])
    rep.check(not changed, R, w, 'read_auto:line-as-written', 'the text of the line is handed on as it is in the file (no case / encoding / normal-form conversion)',
              'the whole line goes through %s before it is read: tokens the conversion touches come back as other words' % sorted(set(changed))[:2])
    rep.check(not bad, R, w, 'read_auto:field-wise-repair', 'treebank glitches are repaired on whole fields only; every other field reaches the reader as written',
              'the line is rewritten as a whole before it is read: %s -- fields that only contain the pattern are changed too' % sorted(set(bad))[:2])


COUNT_REJECT_EXAMPLE = """
class Reader(object):
    def parse(self):
        if self.line.count('(') != self.line.count(')'):
            raise RuntimeError('failed to parse: ' + self.line)
        return self.next_node()
"""


def count_rejections(tree):
    """a line refused (raise / continue / return without a value) under a test that counts its brackets: the words of an AUTO line
    are written as they are -- `1)`, `:-)`, `(see` -- so the numbers of `(`, `)`, `<`, `>` in a line the printer wrote say nothing
    about whether it is complete.  -> [(if node, text of the counting call)]"""
    out = []
    for n in ast.walk(tree):
        if not isinstance(n, ast.If):
            continue
        counts = [c for c in ast.walk(n.test) if isinstance(c, ast.Call) and isinstance(c.func, ast.Attribute) and c.func.attr == 'count'
                  and len(c.args) == 1 and isinstance(c.args[0], ast.Constant) and c.args[0].value in ('(', ')', '<', '>', '{', '}')]
        if not counts:
            continue
        for branch in (n.body, n.orelse):
            if any(isinstance(x, (ast.Raise, ast.Continue)) or (isinstance(x, ast.Return) and (x.value is None or (isinstance(x.value, ast.Constant) and x.value.value is None)))
                   for st in branch for x in ast.walk(st)):
                out.append((n, src(counts[0])))
                break
    return out


def r_no_count_rejection(repo, rep, R='R8.5'):
    from ..core import attach_parents
    ex = attach_parents(ast.parse(COUNT_REJECT_EXAMPLE))
    if [h[0].lineno for h in count_rejections(ex)] != [4]:
        raise AnalysisError('the bracket-count rule does not match its positive example')
    rm = repo.module(RD)
    tree = ast.parse(repo.text(RD))
    targets = [n for n in tree.body if (isinstance(n, ast.ClassDef) and 'auto' in n.name.lower()) or (isinstance(n, ast.FunctionDef) and 'auto' in n.name.lower())]
    if not targets:
        raise AnalysisError('%s: the AUTO reader was not found' % RD)
    hits = [h for t in targets for h in count_rejections(t)]
    for node, txt in hits:
        rep.violation(R, '%s:%s' % (RD, node.lineno), 'read_auto:count-rejection',
                      'the AUTO reader refuses a line when `%s` (line %s): words are written verbatim and may contain brackets (`1)`, `:-)`), so a '
                      'line the printer wrote for such a sentence is not read back' % (src(node.test)[:80], node.lineno))
    if not hits:
        rep.ok(R, '%s' % RD, 'no line of an AUTO file is refused by counting its brackets (%d definitions inspected)' % len(targets))


def r_fix_narrow(repo, rep, R='R8.5'):
    """the per-field repair of read_auto cuts a trailing `[conj]` off only where CCGbank really has the glitch -- after a closing
    round bracket or after another feature -- never off an atom: NP[conj] is a category of its own, and a tree that contains it
    must read back with it."""
    rm = repo.module(RD)
    fn = rm.get('read_auto')
    inner = [n for n in ast.walk(fn) if isinstance(n, ast.FunctionDef) and n is not fn and len(n.args.args) == 1]
    judged = 0
    for f_ in inner:
        p_ = f_.args.args[0].arg
        for st, o in SymExec(f_, unroll=1).run():
            if o != 'return' or st.ret is None or st.ret == N(p_):
                continue
            r = st.ret
            if not (r[0] == 'sub' and r[1] == N(p_) and r[2][0] == 'slice'):
                continue
            judged += 1
            sufs = []

            def fold(t, depth=0):
                # the text(s) a small constant expression stands for: literals, tuples, `a + b`, once-bound locals of read_auto
                if depth > 6:
                    return None
                if t[0] == 'const' and isinstance(t[1], str):
                    return [t[1]]
                if t[0] == 'tuple':
                    out_ = []
                    for x in t[1]:
                        v = fold(x, depth + 1)
                        if v is None or len(v) != 1:
                            return None
                        out_ += v
                    return out_
                if t[0] == 'binop' and t[1] == '+':
                    a1, a2 = fold(t[2], depth + 1), fold(t[3], depth + 1)
                    return [a1[0] + a2[0]] if a1 and a2 and len(a1) == 1 and len(a2) == 1 else None
                if t[0] == 'name':
                    binds = [a for a in ast.walk(fn) if isinstance(a, ast.Assign) and len(a.targets) == 1 and isinstance(a.targets[0], ast.Name) and a.targets[0].id == t[1]]
                    if len(binds) == 1:
                        try:
                            return fold_ast(binds[0].value, depth + 1)
                        except ValueError:
                            return None
                return None

            def fold_ast(v, depth=0):
                if depth > 6:
                    raise ValueError
                if isinstance(v, ast.Constant) and isinstance(v.value, str):
                    return [v.value]
                if isinstance(v, ast.Tuple):
                    return [fold_ast(x, depth + 1)[0] for x in v.elts]
                if isinstance(v, ast.BinOp) and isinstance(v.op, ast.Add):
                    return [fold_ast(v.left, depth + 1)[0] + fold_ast(v.right, depth + 1)[0]]
                if isinstance(v, ast.Name):
                    r_ = fold(('name', v.id), depth + 1)
                    if r_:
                        return r_
                raise ValueError
            unknown = False
            for c_, pol, _n in st.conds:
                if pol and c_[0] == 'call' and c_[1] == A(N(p_), 'endswith') and len(c_[2]) == 1:
                    v_ = fold(c_[2][0])
                    if v_ is None:
                        unknown = True
                    else:
                        sufs += v_
            if unknown:
                rep.ok(R, '%s:%s read_auto.%s' % (RD, f_.lineno, f_.name), 'the suffixes of the [conj] repair are not literal here: not judged', nontrivial=False)
                continue
            ok = bool(sufs) and all(s_ is not None and s_.endswith('[conj]') and len(s_) > 6 and s_[-7] in ')]' for s_ in sufs)
            rep.check(ok, R, '%s:%s read_auto.%s' % (RD, f_.lineno, f_.name), 'read_auto:fix:narrow',
                      'the trailing [conj] is cut off only after a closing bracket or another feature (%s)' % sufs,
                      'read_auto.%s cuts the end off a category field when it ends with %s: an atom with the feature conj (NP[conj]) is a legal category and is '
                      'read back as NP -- the tree is not the one that was written' % (f_.name, sufs or 'anything'))
    return judged


def check(repo, rep, tier):
    rep.rule('R8.1', 'leaf record: writer fields vs parse_leaf cursor reads')
    rep.rule('R8.2', 'node record: header fields, child loop, closing bracket')
    rep.rule('R8.3', 'head flag polarity writer/reader')
    rep.rule('R8.4', 'conll fragments are the AUTO templates')
    rep.rule('R8.5', 'escaping discipline (denormalize in all writers, idempotent, reader keeps escaped spelling)')
    r_read_auto(repo, rep)
    rep.rule('R8.6', 'what the encoder returns is printed as it is: no str.format / % over the text of a tree')
    from ..lints import r_templates_constant
    r_templates_constant(repo, rep, 'R8.6', repo.py_files('depccg/printer'),
                         'a word that contains { or } (the escaped spelling of a brace is -LCB- / -RCB-, but read_auto keeps a raw one) makes the line raise or come out '
                         'with a field replaced, so the line that is printed is not the one the encoder produced')
    from ..lints import r_module_state
    r_module_state(repo, rep, 'R8.6', ['depccg/printer/auto.py', 'depccg/printer/conll.py', 'depccg/tools/reader.py', 'depccg/utils.py'],
                   'the line written for a tree (or the tree read from a line) then depends on what was written or read before it in the same process')
    rep.rule('R8.7', 'the reader labels every binary node by running the rules of the active grammar on its children (guess_combinator_by_triplet): those run on the '
             'categories of either language -- a member read on a feature exists on both feature classes or is guarded')
    from .c14 import r_feature_methods
    r_feature_methods(repo, rep, 'R8.7')
    from .c05 import r_atoms
    r_atoms(repo.module('depccg/cat.py'), rep, 'R8.7')      # the categories of a line are read by Category.parse: an atom keeps the feature that is written
    # which child a writer is at is decided by position, never by comparing child objects: the same Tree object may stand on
    # both sides of a node (a shared sub-tree), and `child is node.left_child` is then true for the right one as well
    for rel_ in (AUTO, 'depccg/printer/conll.py'):
        m_ = repo.module(rel_)
        for c_ in ast.walk(m_.tree):
            if isinstance(c_, ast.Compare) and len(c_.ops) == 1 and isinstance(c_.ops[0], (ast.Is, ast.IsNot, ast.Eq, ast.NotEq)) \
                    and any(isinstance(x_, ast.Attribute) and x_.attr in ('left_child', 'right_child', 'child') for x_ in [c_.left, c_.comparators[0]]) \
                    and not any(isinstance(x_, ast.Constant) for x_ in [c_.left, c_.comparators[0]]):
                rep.check(False, 'R8.4', '%s:%s' % (rel_, c_.lineno), '%s:child-by-identity' % rel_, '',
                          'the position of a child is decided by `%s`: when one Tree object is both children of a node the second occurrence is taken for the first, and the fragments written for it are those of the left child' % src(c_)[:60])
    from .c15 import r_extension_dispatch_text
    r_extension_dispatch_text(repo, rep, 'R8.7', 'read_auto')
    from .c20 import r_ptb_lines
    r_ptb_lines(repo, rep, 'R8.5', reader='read_auto', what='AUTO')
    r_no_count_rejection(repo, rep, 'R8.5')
    r_fix_narrow(repo, rep, 'R8.5')
    from .c12 import r_same_result
    r_same_result(repo, rep, 'R8.3')         # the head flag a node gets is the one read from its own record (not a value kept on the reader between nodes)
    am = repo.module(AUTO)
    p, (lst, leaf), (nst, node) = writer_templates(am, 'auto_of')
    ltoks = codec.fstr_tokens(leaf)
    lroles = [role_of(t, p) for t in ltoks]
    w = '%s:%s auto_of.rec' % (AUTO, am.get('auto_of').lineno)
    rep.check([r[0] for r in lroles] == ['lit', 'cat', 'pos', 'pos', 'word', 'cat'] and lroles[0][1] == '(<L' and lroles[5][1] == '>)',
              'R8.1', w, 'auto_of:leaf-template', 'leaf record is "(<L cat pos pos word cat>)": %s' % [codec.tok_text(t) for t in ltoks],
              'leaf record fields are %s' % [codec.tok_text(t) for t in ltoks])
    rm = repo.module(RD)
    # all paths through "read one node" of the line reader, however it is divided into methods (codec.ReaderPaths)
    rdp = codec.ReaderPaths(rm, '_AutoLineReader')
    wr = '%s:%s _AutoLineReader (leaf records)' % (RD, rdp.entry.lineno)
    ok_paths = rdp.by_kind['leaf']
    for st, o in ok_paths:
        nreads = st.data.get('k', 0)
        rep.check(nreads == len(ltoks), 'R8.1', wr, 'parse_leaf:field-count',
                  'parse_leaf performs %d cursor reads for the %d fields of the leaf record' % (nreads, len(ltoks)),
                  'parse_leaf performs %d cursor reads but the writer emits %d blank-separated fields' % (nreads, len(ltoks)))
        mk = [e[1] for e in st.events if e[0] == 'call' and e[1][1] == A(N('Tree'), 'make_terminal')]
        tokc = [e[1] for e in st.events if e[0] == 'call' and e[1][1] == N('Token')]
        catp = [e[1] for e in st.events if e[0] == 'call' and e[1][1] == A(N('Category'), 'parse')]
        ok = len(mk) == 1 and len(tokc) == 1 and len(catp) == 1
        if ok:
            cat_from = codec.field_ids(catp[0])
            kw = dict(tokc[0][3])
            word_from = codec.field_ids(kw.get('word', C(None)))
            pos_from = codec.field_ids(kw.get('pos', C(None)))
            want_cat = [i for i, r in enumerate(lroles) if r[0] == 'cat' and not r[1]]
            want_word = [i for i, r in enumerate(lroles) if r[0] == 'word']
            want_pos = [i for i, r in enumerate(lroles) if r[0] == 'pos']
            rep.check(cat_from == want_cat[:1] and mk[0][2][1] == catp[0], 'R8.1', wr, 'parse_leaf:cat-field',
                      'the leaf category is parsed from field %s (where the writer puts it)' % cat_from,
                      'the leaf category is parsed from field %s, the writer puts it in field %s' % (cat_from, want_cat))
            rep.check(word_from == want_word, 'R8.1', wr, 'parse_leaf:word-field', 'the word is read from field %s' % word_from,
                      'the word is read from field %s, the writer puts it in field %s' % (word_from, want_word))
            rep.check(len(pos_from) == 1 and pos_from[0] in want_pos, 'R8.1', wr, 'parse_leaf:pos-field', 'the POS tag is read from field %s' % pos_from,
                      'the POS tag is read from field %s, the writer puts it in fields %s' % (pos_from, want_pos))
            wt = kw.get('word', C(None))
            base, pairs = codec.replace_chain(wt)
            rep.check(base == ('sym', 'field', want_word[0]) and pairs in ([], [('\\', '')]), 'R8.5', wr, 'parse_leaf:word-verbatim',
                      'the reader keeps the escaped spelling of the word (only backslashes are deleted)', 'the reader transforms the word: %s' % show(wt)[:80])
            later = [e for e in st.events if (e[0] in ('setitem', 'setattr') and e[1] == tokc[0]) or
                     (e[0] == 'call' and e[1][1][0] == 'attr' and e[1][1][1] == tokc[0] and e[1][1][2] in ('update', 'pop', 'setdefault', '__setitem__'))]
            rep.check(not later, 'R8.5', wr, 'parse_leaf:token-final', 'the token is not modified after it was built from the record',
                      'the token is modified after construction: %s' % [src(e[-1])[:50] for e in later])
            rep.check(mk[0][2][0] == tokc[0] or (mk[0][2][0][0] == 'call' and mk[0][2][0][1] == N('Token')), 'R8.1', wr, 'parse_leaf:token',
                      'the leaf carries the token built from these fields', 'the leaf is built from %s' % show(mk[0][2][0])[:60])
        else:
            rep.violation('R8.1', wr, 'parse_leaf:shape', 'parse_leaf does not build exactly one token / category / terminal per record')
        checks = {(show(e[1][2][0]), show(e[1][2][1]) if len(e[1][2]) > 1 else '0') for e in st.events
                  if e[0] == 'call' and e[1][1] == A(N('self'), 'check')}
        # ... a character the dispatch has already compared counts as verified
        for c_, pol_, _n in st.conds:
            if pol_ and c_[0] == 'cmp' and c_[1] == '==' and c_[3][0] == 'const' and c_[2][0] == 'sub' and c_[2][1] == A(N('self'), 'line'):
                i_ = c_[2][2]
                off = '0' if i_ == A(N('self'), 'index') else (show(i_[3]) if i_[0] == 'binop' and i_[1] == '+' and i_[2] == A(N('self'), 'index') else None)
                if off is not None:
                    checks.add((show(c_[3]), off))
        checks = sorted(checks)
        rep.check(set(checks) >= {("'('", '0'), ("'<'", '1'), ("'L'", '2')}, 'R8.1', wr, 'parse_leaf:marker',
                  'the leaf reader verifies the marker "(<L" the writer emits', 'the leaf reader checks %s' % checks)
    # next() cuts a field at the next blank; the record that ends the line has none after its last field (find() gives -1 and
    # the slice drops the field's last character).  A leaf can be the whole line, so the value of its last field must not
    # decide anything.
    for st, o in ok_paths:
        k = st.data.get('k', 0)
        if not k:
            continue
        last = ('sym', 'field', k - 1)
        used = []
        for c, pol, cnode in st.conds:
            if last in set(subterms(c)):
                used.append('test `%s`' % src(cnode.test if hasattr(cnode, 'test') else cnode)[:60])
        for e in st.events:
            if e[0] in ('call', 'setattr', 'setitem', 'return', 'raise') and any(last in set(subterms(x)) for x in e[1:-1] if isinstance(x, tuple)):
                used.append('%s `%s`' % (e[0], src(e[-1])[:60]))
        if st.ret is not None and last in set(subterms(st.ret)):
            used.append('returned value')
        rep.check(not used, 'R8.1', wr, 'parse_leaf:last-field-unused',
                  'the value of the leaf\'s last field (truncated by next() when the leaf ends the line) is not used',
                  'the value of the leaf\'s last field is used (%s): for a tree that is one leaf next() returns it without its last character' % '; '.join(sorted(set(used))[:2]))
    rep.floor('returning paths of parse_leaf', len(ok_paths), 1)
    # node record
    ntoks = codec.fstr_tokens(node)
    nroles = [role_of(t, p) for t in ntoks]
    rep.check([r[0] for r in nroles] == ['lit', 'cat', 'head', 'arity', 'children', 'lit'] and nroles[0][1] == '(<T' and nroles[3][1] == '>' and nroles[5][1] == ')',
              'R8.2', w, 'auto_of:node-template', 'node record is "(<T cat head arity> children )": %s' % [codec.tok_text(t)[:40] for t in ntoks],
              'node record fields are %s' % [codec.tok_text(t)[:40] for t in ntoks])
    ch = [t for t, r in zip(ntoks, nroles) if r[0] == 'children']
    if ch:
        j = [x for x in ch[0] if not isinstance(x, str)][0]
        sep_ok = j[1][1] == C(' ')
        g = j[2][0] if j[2] else None
        rec_ok = g is not None and g[0] in ('genexp', 'listcomp') and g[2][0][0] == A(N(p), 'children') and not g[2][0][1] and \
            g[1][0] == 'call' and g[1][2] and g[1][2][0][0] == 'elem'
        rep.check(sep_ok and rec_ok, 'R8.2', w, 'auto_of:children', 'children are rendered recursively, all of node.children in order, separated by one blank',
                  'children field is %s' % show(j)[:100])
    wt_ = '%s:%s _AutoLineReader (node records)' % (RD, rdp.entry.lineno)
    seen_bin = seen_un = False
    # (returning paths that read a node record without building a node of their own are judged too: 'other')
    for st, o in rdp.node_paths() + [(st_, o_) for st_, o_ in rdp.by_kind['other'] if o_ == 'return']:
        if o != 'return':
            continue
        mkb = [e[1] for e in st.events if e[0] == 'call' and e[1][1] == A(N('Tree'), 'make_binary')]
        mku = [e[1] for e in st.events if e[0] == 'call' and e[1][1] == A(N('Tree'), 'make_unary')]
        catp = [e[1] for e in st.events if e[0] == 'call' and e[1][1] == A(N('Category'), 'parse')]
        if not catp:
            continue
        # header reads happen before the child loop
        loop_i = [i for i, e in enumerate(st.events) if e[0] in ('loop-enter', 'loop-skip')]
        hdr = [e for e in st.events[:loop_i[0]] if e[0] == 'call' and (e[1][1] == A(N('self'), 'next') or (e[1][1][0] == 'attr' and e[1][1][1] == N('self') and e[1][1][2] in rdp.movers))] if loop_i else []
        rep.check(len(hdr) == 4 and codec.field_ids(catp[0]) == [1], 'R8.2', wt_, 'parse_tree:header',
                  'parse_tree reads the 4 header fields (marker, category, head, arity) and parses the category from field 1',
                  'parse_tree reads %d header fields, category from %s' % (len(hdr), codec.field_ids(catp[0])))
        if mkb:
            seen_bin = True
            h = mkb[0][2][5] if len(mkb[0][2]) > 5 else dict(mkb[0][3]).get('head_is_left')
            okh = h is not None and h[0] == 'cmp' and h[1] == '==' and h[2] == ('sym', 'field', 2) and h[3] == C('0')
            # writer: 0 if head_is_left else 1
            hw = [x for x in ntoks[2] if not isinstance(x, str)][0]
            okw = hw[0] == 'ifexp' and hw[2] == C(0) and hw[3] != C(0) and hw[3][0] == 'const'
            rep.check(okh and okw, 'R8.3', wt_, 'parse_tree:head-polarity',
                      'writer prints 0 for a left head and the reader sets head_is_left = (field 2 == "0")',
                      'head flag: writer %s, reader %s' % (show(hw), show(h) if h else None))
            rep.check(mkb[0][2][0] == catp[0], 'R8.2', wt_, 'parse_tree:binary-cat', 'the node category is the parsed field', 'node category is %s' % show(mkb[0][2][0])[:60])
        if mku:
            seen_un = True
        r_ = codec.ReaderPaths.value_of(st)
        built = r_ is not None and r_[0] == 'call' and r_[1] in (A(N('Tree'), 'make_binary'), A(N('Tree'), 'make_unary')) and \
            (r_[2][0] if r_[2] else dict(r_[3]).get('cat')) == catp[0]
        rep.check(built, 'R8.2', wt_, 'parse_tree:node-kept', 'every node record read yields a node of its own, carrying the category of the record',
                  'a node record is read but the value returned is %s: the node (and its category) disappears from the tree' % (show(r_)[:60] if r_ else None))
    rep.check(seen_bin and seen_un, 'R8.2', wt_, 'parse_tree:arity', 'both unary and binary nodes are rebuilt', 'binary path: %s, unary path: %s' % (seen_bin, seen_un))
    # child loop: read children until the closing bracket, then consume it
    loop_ok = False
    for st, o in rdp.node_paths():
        if o != 'return':
            continue
        enter = [i for i, e in enumerate(st.events) if e[0] == 'loop-enter']
        exit_ = [i for i, e in enumerate(st.events) if e[0] == 'loop-exit']
        if not enter or not exit_:
            continue
        c = st.events[enter[0]][1]
        test_ok = c in (('cmp', '!=', ('call', A(N('self'), 'peek'), (), ()), C(')')),)
        inside = st.events[enter[0]:exit_[0]]
        # the child is read by the reader's own "read one node": a call of the dispatch / of the leaf or node reader
        # (with a dispatch that only chooses, the choice is visible as one value calling one of the alternatives)
        appended = [e for e in inside if e[0] == 'call' and e[1][1][0] == 'attr' and e[1][1][2] == 'append']
        child = appended if len(appended) == 1 else [e for e in inside if e[0] == 'call' and e[1][1][0] == 'attr' and e[1][1][1] == N('self')
                                                      and e[1][1][2] not in ('next', 'peek', 'check')]
        nexts_in = [e for e in inside if e[0] == 'call' and (e[1][1] == A(N('self'), 'next') or (e[1][1][0] == 'attr' and e[1][1][1] == N('self') and e[1][1][2] in rdp.movers))]
        nexts_after = [e for e in st.events[exit_[0]:] if e[0] == 'call' and (e[1][1] == A(N('self'), 'next') or (e[1][1][0] == 'attr' and e[1][1][1] == N('self') and e[1][1][2] in rdp.movers))]
        if test_ok and len(child) == 1 and not nexts_in and len(nexts_after) == 1:
            loop_ok = True
    rep.check(loop_ok, 'R8.2', wt_, 'parse_tree:child-loop', 'children are read with next_node() until the closing bracket, which is then consumed by one cursor read',
              'child loop is not `while self.peek() != ")": next_node()` followed by exactly one cursor read')
    # dispatch on the marker: leaf paths have established line[index+2] == 'L', node paths == 'T', everything else fails
    marker = ('sub', A(N('self'), 'line'), ('binop', '+', A(N('self'), 'index'), C(2)))

    def letter(st):
        conds = [(c, pol) for c, pol, _ in st.conds]
        return {ch for ch in ('L', 'T') if logic.implied(conds, logic.formula(('cmp', '==', marker, C(ch))))}
    okd = bool(rdp.by_kind['leaf']) and bool(rdp.node_paths()) and all(letter(st) == {'L'} for st, o in rdp.by_kind['leaf']) and \
        all(letter(st) == {'T'} for st, o in rdp.node_paths())
    rep.check(okd, 'R8.2', '%s:%s _AutoLineReader' % (RD, rdp.entry.lineno), 'next_node:dispatch',
              'records are dispatched on the marker letter at offset 2: L -> leaf, T -> node',
              'leaf / node records are not told apart by the marker letter at offset 2 (leaf paths saw %s, node paths %s)'
              % (sorted({x for st, o in rdp.by_kind['leaf'] for x in letter(st)}), sorted({x for st, o in rdp.node_paths() for x in letter(st)})))
    # conll fragments
    cm = repo.module(CONLL)
    crec = cm.get('conll_of.rec')
    cp = crec.args.args[0].arg
    cl = cn = None
    for st, o in SymExec(crec, unroll=1).run():
        apps = [e[1] for e in st.events if e[0] == 'call' and e[1][1][0] == 'attr' and e[1][1][2] == 'append']
        if codec.path_has(st, A(N(cp), 'is_leaf'), True) and apps:
            cl = (st, apps[0][2][0])
        elif codec.path_has(st, A(N(cp), 'is_leaf'), False) and apps:
            cn = (st, apps[0][2][0], st.ret)
    if cl is None:
        # the leaf fragment is not pushed on the pending list but joined to it where the row is made: it is the one
        # "(<L ..>)" text the leaf path builds
        from ..pysym import terms_of
        for st, o in SymExec(crec, unroll=1).run():
            if not codec.path_has(st, A(N(cp), 'is_leaf'), True):
                continue
            frs = []
            for t0 in terms_of(st):
                for x in subterms(t0):
                    if x[0] == 'fstr' and x not in frs:
                        ps_ = str_parts(x)
                        if ps_ and isinstance(ps_[0], str) and ps_[0].startswith('(<L'):
                            frs.append(x)
            if len(frs) == 1:
                cl = (st, frs[0])
    wc = '%s:%s conll_of.rec' % (CONLL, crec.lineno)
    if cl is None or cn is None:
        raise AnalysisError('%s: conll_of.rec fragments not found' % CONLL)
    ren = lambda t: _rename(t, cp, p)
    rep.check(ren(cl[1]) == leaf, 'R8.4', wc, 'conll_of:leaf-fragment', 'the conll leaf fragment is the AUTO leaf record, field for field',
              'conll leaf fragment %s differs from the AUTO leaf record %s' % (show(cl[1])[:150], show(leaf)[:150]))
    ct = codec.fstr_tokens(ren(cn[1]))
    rep.check(ct == ntoks[:4], 'R8.4', wc, 'conll_of:node-fragment', 'the conll node fragment is the AUTO node header "(<T cat head arity>"',
              'conll node fragment %s differs from the AUTO node header %s' % ([codec.tok_text(t) for t in ct], [codec.tok_text(t) for t in ntoks[:4]]))
    r = cn[2]
    rparts = str_parts(r) if r is not None else None
    rep.check(bool(rparts) and len(rparts) >= 2 and rparts[-1] == ' )' and not any(isinstance(x, str) and ')' in x for x in rparts[:-1]),
              'R8.4', wc, 'conll_of:closing',
              'the closing " )" of a node is appended after its last child', 'conll node result is %s' % (show(r)[:80] if r else None))
    sub = [e[1] for e in cl[0].events if e[0] == 'call' and e[1][1][0] == 'attr' and e[1][1][2] == 'join' and e[1][1][1] == C(' ')]
    rep.check(bool(sub), 'R8.4', wc, 'conll_of:join', 'pending fragments are joined with a blank', 'pending fragments are not joined with a blank')
    # escaping
    um = repo.module('depccg/utils.py')
    whole, repl = codec.whole_word_map(um.get('denormalize'))
    outs = list(whole.values()) + [b for _, b in repl]
    keys = set(whole) | {a for a, _ in repl}
    bad = [o for o in outs if o in whole or any(a in o for a, _ in repl)]
    rep.check(not bad and len(whole) >= 6 and len(repl) >= 2, 'R8.5', 'depccg/utils.py:%s denormalize' % um.get('denormalize').lineno, 'denormalize:idempotent',
              'no output of denormalize is rewritten by denormalize again (%d whole-word keys, %d replacements)' % (len(whole), len(repl)),
              'denormalize rewrites its own outputs %s' % bad)
    for mod_, fname in ((am, 'auto_of'), (am, 'auto_extended_of'), (cm, 'conll_of')):
        rec_ = mod_.get(fname + '.rec')
        pp = rec_.args.args[0].arg
        uses = any(e[0] == 'call' and e[1] == ('call', N('denormalize'), (A(N(pp), 'word'),), ())
                   for st, o in SymExec(rec_, unroll=1).run() for e in st.events)
        rep.check(uses, 'R8.5', '%s:%s %s.rec' % (mod_.rel, rec_.lineno, fname), '%s:word-escaped' % fname,
                  '%s writes the word through denormalize' % fname, '%s does not escape the word with denormalize' % fname)


def _rename(t, a, b):
    if not isinstance(t, tuple):
        return t
    if t == ('name', a):
        return ('name', b)
    return tuple(_rename(x, a, b) for x in t)
