"""C12 -- rule labels and head directions on trees are those the grammar assigned."""
import ast

from .. import rules_cxx as rc
from .. import rules_pyx as rp
from ..parse_model import ParseModel
from .. import logic
from ..core import AnalysisError, enclosing_function, qualname_of, src
from ..pysym import SymExec, show, argof, subterms
from ..rules_pyx import bind_args, N, C, A

EXPLANATION = (
    'Static conformance to R12.1-R12.4: the rule index travels unchanged from the grammar result to the tree '
    'node (C++ push sites store r.rule_id; both Python callbacks number results by list position from 0 without '
    'filtering; scaffold copies id/position/head/label/symbol from one tuple; the cache returns the stored vector; '
    'retrieve_tree indexes cache[(child ids)][item.rule_id] and takes label, symbol and head flag from that one '
    'result); every Tree.make_binary call site in the readers / Tree.of_nltk_tree that labels a node from a rule '
    'result takes symbol and head direction from the same result (or a head flag parsed from the file), and that '
    'result is guess_combinator_by_triplet(rules, node cat, left.cat, right.cat) of the very children passed; '
    'guess_combinator_by_triplet returns the loop variable on a category match and <unk> only after exhaustion.'
    " The rule cache stores the callback's result vector untouched (positions are rule ids); no default argument of the readers evaluates the language at import time."
    ' Fourth round: when binary nodes are built through a shared helper that takes the head direction as a parameter, the helper is read in place at every reader routine calling it (a constant head direction is reported).'
    ' Fifth round: ids and positions carried by items are full-width integers; label recovery is total over any three categories; the rule cache never shrinks.'
    " Sixth and seventh round: R12.5 -- the language selection is one setting of the process, Tree's own pickling carries every field, the rule cache is a local of run(); the XML readers keep the order of the children (R12.3)."
    ' Eighth round: the label recovery always asks the grammar (R12.4); the readers use the rule table of the selected language (R12.3).')
TRUSTED = ['clang-14 front end', 'CPython ast', 'sa/pyx.py normaliser', 'rule table DESIGN.md C12']

READER_FILES = ['depccg/tree.py', 'depccg/tools/reader.py']


def r_label_recovery(repo, rep, R='R12.4'):
    mod = repo.module('depccg/grammar/__init__.py')
    fn = mod.get('guess_combinator_by_triplet')
    ps = [a.arg for a in fn.args.args]
    if len(ps) != 4:
        raise AnalysisError('guess_combinator_by_triplet has %d parameters' % len(ps))
    rules, target, x, y = ps
    w = '%s:%s %s' % (mod.rel, fn.lineno, fn.name)
    paths = SymExec(fn, unroll=1).run()
    it = ('call', N(rules), (N(x), N(y)), ())
    match_ret = []
    unk_early = []
    n_match = 0
    for st, out in paths:
        entered = [e for e in st.events if e[0] == 'loop-enter']
        exited = [e for e in st.events if e[0] == 'loop-exit']
        if entered:
            if entered[0][1] != it:
                rep.violation(R, w, 'guess:iter', 'the candidates are %s, expected %s' % (show(entered[0][1]), show(it)))
                return
            elem = ('elem', it, entered[0][2].lineno)
            matched = [pol for c, pol, _ in st.conds if c in (('cmp', '==', A(elem, 'cat'), N(target)),
                                                               ('cmp', '==', N(target), A(elem, 'cat')))]
            if matched and matched[0]:
                n_match += 1
                match_ret.append(out == 'return' and st.ret == elem)
            elif out == 'return' and not exited:
                unk_early.append(show(st.ret))
    if n_match == 0:
        # the same search spelt with next(): rule = next((r for r in rules(x, y) if r.cat == target), None)
        for st, out in paths:
            if out != 'return' or st.ret is None:
                continue
            r = st.ret
            if r[0] == 'call' and r[1] == N('next') and len(r[2]) == 2 and r[2][1] == C(None) and r[2][0][0] in ('genexp', 'listcomp') and len(r[2][0][2]) == 1:
                g = r[2][0]
                it_, filt = g[2][0]
                el = g[1]
                okf = it_ == it and el[0] == 'elem' and el[1] == it_ and len(filt) == 1 and filt[0] in (
                    ('cmp', '==', A(el, 'cat'), N(target)), ('cmp', '==', N(target), A(el, 'cat')))
                found_ = logic.implied([(c, pol) for c, pol, _ in st.conds], logic.neg(('atom', ('isnone', r))))
                if okf and found_:
                    n_match += 1
                    match_ret.append(True)
                elif okf:
                    n_match += 1
                    match_ret.append(False)
    rep.check(n_match >= 1 and all(match_ret), R, w, 'guess:return-match',
              'when a rule result has the target category that very result is returned',
              'a matching rule result is not returned (paths with a match: %d, returning it: %d)'
              % (n_match, sum(1 for m in match_ret if m)))
    rep.check(not unk_early, R, w, 'guess:unk-after-loop', 'the unknown label is produced only after all results were tried',
              'returns %s before the loop is exhausted' % unk_early)
    # ... and the grammar is asked on every path: no returning path gives its answer without having called rules(x, y) -- a
    # "cannot combine anyway" pre-filter written here knows less than the grammar (quotes, coordination of atoms, SSEQ)
    unasked = []
    for st, out in paths:
        if out != 'return':
            continue
        asked = any(e[0] in ('loop-enter', 'loop-skip') and e[1] == it for e in st.events) or any(x_ == it for t_ in ([st.ret] if st.ret else []) for x_ in subterms(t_)) \
            or any(e[0] == 'call' and e[1] == it for e in st.events) \
            or any(x_ == it for c_, _p, _n in st.conds for x_ in subterms(c_))       # the answer depends on a test of what the rules returned
        if not asked:
            unasked.append('; '.join('%s%s' % ('' if pol else 'not ', show(c)[:40]) for c, pol, _ in st.conds[-2:]))
    rep.check(not unasked, R, w, 'guess:always-asks', 'every answer is given after asking the rules for this pair',
              'a path answers without asking the grammar (when %s): nodes the active grammar derives are labelled unknown' % unasked[:1])
    # label recovery is a pure function of (rules, target, x, y): nothing is remembered between calls
    from .. import rules_unif as ru
    pur = ru.Purity(repo, rep, R)
    mutated = pur.analyse(mod, fn)
    deco = [src(d) for d in fn.decorator_list]
    rep.check(not mutated and not deco, R, w, 'guess:pure', 'guess_combinator_by_triplet keeps no state between calls (no memo, no decorator)',
              'guess_combinator_by_triplet modifies %s / is decorated with %s: the label of a node would depend on earlier calls' % (sorted(mutated), deco))
    # ... and total: the readers call it for every binary node of a file, whatever the categories are (an atom has no
    # .left / .right / .slash)
    ru.r_shape_safety(repo, rep, mod, fn, R)
    unk = [st.ret for st, out in paths if out == 'return' and st.ret and st.ret[0] == 'call' and st.ret[1] == N('CombinatorResult')]
    ok = bool(unk) and all(argof(u, 'cat', 0) == N(target) for u in unk)
    rep.check(ok, R, w, 'guess:unk-cat', 'the unknown result keeps the node\'s own category', 'the <unk> result does not carry the target category')


def tree_factory_sites(repo, files, names=('make_binary', 'make_unary', 'make_terminal')):
    """-> [(mod, enclosing fn, call node)] for Tree.<name>(...) calls."""
    out = []
    for rel in files:
        mod = repo.module(rel)
        for n in ast.walk(mod.tree):
            if isinstance(n, ast.Call) and isinstance(n.func, ast.Attribute) and n.func.attr in names \
                    and isinstance(n.func.value, ast.Name) and n.func.value.id == 'Tree':
                fn = enclosing_function(n)
                if fn is None or (fn.name in names and isinstance(getattr(fn, '_parent', None), ast.ClassDef)):
                    continue    # the factory's own body
                out.append((mod, fn, n))
    return out


def call_terms(fn, node):
    """symbolic terms of one call node on every path that reaches it."""
    out = []
    for st, o in SymExec(fn, unroll=1).run():
        for e in st.events:
            if e[0] == 'call' and e[2] is node:
                out.append((st, e[1]))
    return out


def r_same_result(repo, rep, R='R12.3'):
    tree_mod = repo.module('depccg/tree.py')
    mk = tree_mod.get('Tree.make_binary')
    sites = tree_factory_sites(repo, READER_FILES, ('make_binary',))
    n = 0
    for mod, fn, node in sites:
        w = '%s:%s %s' % (mod.rel, node.lineno, qualname_of(fn))
        key = '%s:%s:make_binary' % (mod.rel, qualname_of(fn))
        terms = call_terms(fn, node)
        if not terms:
            raise AnalysisError('%s: no path reaches the make_binary call' % w)
        seen = set()
        for st, t in terms:
            if t in seen:
                continue
            seen.add(t)
            n += 1
            try:
                b = bind_args(t, mk)
            except AnalysisError as e:
                rep.violation(R, w, key + ':signature', 'call does not bind to Tree.make_binary%s: %s'
                              % (tuple(a.arg for a in mk.args.args), e))
                continue
            ops = b['op_string']
            if ops[0] == 'attr' and ops[2] == 'op_string':
                X = ops[1]
                rep.check(b['op_symbol'] == A(X, 'op_symbol'), R, w, key + ':symbol',
                          'label and symbol come from the same rule result', 'op_symbol is %s but op_string is %s'
                          % (show(b['op_symbol']), show(ops)))
                h = b['head_is_left']
                rep.check(h[0] != 'default', R, w, key + ':head',
                          'the head direction is passed explicitly (%s)' % show(h)[:80],
                          'head_is_left is left to its default although a rule result is in scope')
                if h[0] == 'name' and h[1] in [a_.arg for a_ in fn.args.args]:
                    # the head direction is handed to a shared node builder: judged at every routine that calls it, with
                    # the builder read in place -- a file format without a head field must pass the rule's own direction
                    for c_ in ast.walk(mod.tree):
                        if isinstance(c_, ast.Call) and isinstance(c_.func, ast.Name) and c_.func.id == fn.name:
                            caller = enclosing_function(c_)
                            if caller is None or caller is fn:
                                continue
                            wc = '%s:%s %s' % (mod.rel, c_.lineno, qualname_of(caller))
                            for st2, t2 in call_terms(caller, node):
                                try:
                                    b2 = bind_args(t2, mk)
                                except AnalysisError:
                                    continue
                                h2 = b2['head_is_left']
                                X2 = b2['op_string'][1] if b2['op_string'][0] == 'attr' else None
                                okh = h2[0] not in ('default', 'const') and (h2[0] != 'attr' or h2[2] != 'head_is_left' or h2[1] == X2)
                                rep.check(okh, R, wc, '%s:%s:head-through-%s' % (mod.rel, qualname_of(caller), fn.name),
                                          'the head direction handed to %s is the one read from the file or the recovered rule\'s (%s)' % (fn.name, show(h2)[:60]),
                                          '%s builds its binary nodes through %s with head_is_left = %s: a constant, although the recovered rule knows the direction '
                                          '(head-final grammars get every node wrong)' % (qualname_of(caller), fn.name, show(h2)[:40]))
                if h[0] != 'default' and h[0] == 'attr' and h[2] == 'head_is_left':
                    rep.check(h[1] == X, R, w, key + ':head-same', 'the head direction comes from the same rule result',
                              'head_is_left comes from %s, label from %s' % (show(h[1])[:60], show(X)[:60]))
                # the result is guess(rules, cat, left.cat, right.cat) of these very children
                if X[0] == 'call' and X[1] == N('guess_combinator_by_triplet'):
                    a = X[2]
                    ok = (len(a) == 4 and a[1] == b['cat'] and a[2] == A(b['left'], 'cat') and a[3] == A(b['right'], 'cat'))
                    rep.check(ok, R, w, key + ':triplet',
                              'the rule is recovered from (node category, left child category, right child category) of this node',
                              'guess_combinator_by_triplet is asked about (%s) for node (%s, %s, %s)'
                              % (', '.join(show(x)[:40] for x in a[1:]), show(b['cat'])[:40], show(b['left'])[:40], show(b['right'])[:40]))
                elif X[0] == 'name' and X[1] in [a_.arg for a_ in fn.args.args] and isinstance(getattr(fn, '_parent', None), ast.Module):
                    # the rule result is handed to a shared node builder: judged at every routine that calls it, with the
                    # builder read in place
                    n_callers = 0
                    for c_ in ast.walk(mod.tree):
                        if isinstance(c_, ast.Call) and isinstance(c_.func, ast.Name) and c_.func.id == fn.name:
                            caller = enclosing_function(c_)
                            if caller is None or caller is fn:
                                continue
                            wc = '%s:%s %s' % (mod.rel, c_.lineno, qualname_of(caller))
                            for st2, t2 in call_terms(caller, node):
                                try:
                                    b2 = bind_args(t2, mk)
                                except AnalysisError:
                                    continue
                                o2 = b2['op_string']
                                X2 = o2[1] if o2[0] == 'attr' and o2[2] == 'op_string' else None
                                n_callers += 1
                                okr = X2 is not None and X2[0] == 'call' and X2[1] == N('guess_combinator_by_triplet') and len(X2[2]) == 4 and \
                                    X2[2][1] == b2['cat'] and X2[2][2] == A(b2['left'], 'cat') and X2[2][3] == A(b2['right'], 'cat')
                                rep.check(okr, R, wc, '%s:%s:rule-through-%s' % (mod.rel, qualname_of(caller), fn.name),
                                          'the rule handed to %s is recovered from (node category, left child category, right child category) of that node' % fn.name,
                                          '%s hands %s to %s: not the rule recovered for this very node' % (qualname_of(caller), show(X2 or o2)[:60], fn.name))
                    if not n_callers:
                        rep.violation(R, w, key + ':recovery', 'the rule result %s is not recovered with guess_combinator_by_triplet' % show(X)[:80])
                else:
                    rep.violation(R, w, key + ':recovery', 'the rule result %s is not recovered with guess_combinator_by_triplet' % show(X)[:80])
            elif ops[0] in ('const',):
                rep.violation(R, w, key + ':constant-label', 'binary node is labelled with the constant %s' % show(ops))
            else:
                rep.violation(R, w, key + ':label', 'binary node label %s is not taken from a rule result' % show(ops)[:80])
    # instances: one per reader routine that builds binary nodes -- a node builder shared by several routines counts once
    # for each routine calling it
    routes = 0
    for mod, fn, node in sites:
        callers = set()
        if isinstance(getattr(fn, '_parent', None), ast.Module):
            for c in ast.walk(mod.tree):
                if isinstance(c, ast.Call) and isinstance(c.func, ast.Name) and c.func.id == fn.name:
                    ef = enclosing_function(c)
                    if ef is not None and ef is not fn:
                        callers.add(id(ef))
        routes += max(1, len(callers))
    rep.floor('reader routines building binary nodes through Tree.make_binary', routes, 5)
    # readers select the active grammar's rule function
    for rel in READER_FILES:
        mod = repo.module(rel)
        tbl = mod.assign('BINARY_RULES')
        ok = isinstance(tbl, ast.Dict) and {src(k): src(v) for k, v in zip(tbl.keys, tbl.values)} == \
            {"'en'": 'en.apply_binary_rules', "'ja'": 'ja.apply_binary_rules'}
        rep.check(ok, R, '%s:%s <module>' % (rel, getattr(tbl, 'lineno', 1)), '%s:BINARY_RULES' % rel,
                  'label recovery uses the active language\'s apply_binary_rules', 'BINARY_RULES is %s' % src(tbl))


def check(repo, rep, tier):
    from ..lints import r_import_time_language
    n_lang = r_import_time_language(repo, rep, 'R12.3', READER_FILES)
    rep.floor('reader functions scanned for import-time language defaults', n_lang, 30)
    m = ParseModel(repo)
    rep.rule('R12.1', 'C++ push sites store the rule index of the grammar result (binary r.rule_id, unary u.rule_id, goal copies)')
    rep.rule('R12.2', 'glue: enumerate from 0 without filter; scaffold copies one tuple; cache stores vector unchanged; retrieve_tree indexes cache[key][rule_id]')
    rep.rule('R12.3', 'Tree.make_binary sites: symbol/head from the same result; result = guess(rules, cat, left.cat, right.cat)')
    rep.rule('R12.4', 'guess_combinator_by_triplet returns the matching loop variable; <unk> only after exhaustion')
    rc.r_rule_ids(m, rep, 'R12.1')
    rc.r_items_immutable(m, rep, 'R12.1')
    rc.r_cache(m, rep, 'R12.2')
    rc.r_backpointers(m, rep, 'R12.1')
    ti = rp.r_category_table(repo, rep, 'R12.2')
    if ti:
        rp.r_callbacks(repo, rep, 'R12.2')
    rp.r_retrieve_tree(repo, rep, 'R12.2', {'labels', 'shape'})
    r_same_result(repo, rep)
    rp.r_tree_factories(repo, rep, 'R12.3')
    r_label_recovery(repo, rep)
    from ..lints import r_no_reordering
    r_no_reordering(repo, rep, 'R12.3', [('depccg/tools/reader.py', 'read_xml'), ('depccg/tools/reader.py', 'read_jigg_xml')],
                    'the children of a node (the label is looked up for the pair left, right as the file lists them)')
    odd = []
    n_sel = 0
    for rel_ in READER_FILES:
        m_ = repo.module(rel_)
        for s_ in ast.walk(m_.tree):
            if isinstance(s_, ast.Subscript) and isinstance(s_.value, ast.Name) and s_.value.id == 'BINARY_RULES' and isinstance(s_.ctx, ast.Load):
                n_sel += 1
                if src(s_.slice).replace(' ', '') != 'get_global_language()':
                    odd.append('%s:%s BINARY_RULES[%s]' % (rel_, s_.lineno, src(s_.slice)[:30]))
    rep.check(not odd and n_sel >= 1, 'R12.3', '%s:1' % READER_FILES[1], 'readers:active-grammar', 'every reader takes its rules as BINARY_RULES[get_global_language()] (%d places)' % n_sel,
              'a reader picks its rule set by something other than the active language: %s' % odd[:2])
    rep.rule('R12.5', 'the active grammar is the one selected for the process; the rule cache and the id-keyed containers live as long as one call')
    from ..lints import r_language_setting
    r_language_setting(repo, rep, 'R12.5', 'the readers pick the rule set by get_global_language() when they are called, so files read there are labelled with the '
                       'other grammar: derivable nodes come out unknown and left-headed')
    from ..lints import r_serialisation_complete
    r_serialisation_complete(repo, rep, 'R12.5', [('depccg/tree.py', 'Tree')],
                             'parsing.run returns the trees of the worker processes through pickle: every node comes back with the default label / head direction '
                             'instead of the one the grammar result gave it')
    rp.r_call_locals(repo, rep, 'R12.5')      # rule_id indexes cache[(ids)]: ids are positions in this call's category table
    rep.floor('agenda push sites', len(m.sites), 5)
