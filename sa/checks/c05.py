"""C05 -- category text and category values round-trip (structural necessary conditions)."""
import ast
import re

from ..core import AnalysisError, src
from ..pysym import SymExec, show, subterms, str_parts, path_values, terms_of, all_calls
from ..rules_pyx import N, C, A
from .. import codec
from .. import logic

EXPLANATION = (
    'Three structural necessary conditions of the round trip, decided from the code of depccg/cat.py: R5.1 delimiter '
    'agreement -- every structural character the printers can emit ([ ] from Atom.__str__, ( ) from Functor.__str__, the '
    'slashes the constructors / the reader can store) belongs to the character class of the tokeniser cat_split (read '
    'with the regex parser), and the reader\'s dispatch tests cover that whole class; R5.2 feature separators -- '
    'TernaryFeature.__str__ joins three key=value pairs with exactly the separators Feature.parse splits on, and '
    'Feature.parse builds the three-part feature only when both separators occur; R5.3 associativity is never guessed -- '
    'a Functor is built in exactly two places of Category.parse, each from exactly three stack entries; a closing bracket '
    'pops either one operand or exactly operand-slash-operand and then requires an opening bracket (assert / raise); the '
    'end of input returns a single entry or unpacks exactly three inside the handler that turns a mismatch into '
    'RuntimeError; there is no loop folding several operators at one bracket level.  The round-trip equalities themselves '
    'quantify over all values and are not decided (that would be symbolic execution of the stack machine).'
    ' The tokeniser regex is the one Category.parse uses (found by role); Feature.parse must build the three pairs exactly in the order written (an in-place sort of the pair list is a change of value); the stack machine is walked with symbolic pops wherever the closing-bracket reduction lives (inline, helper function).'
    ' Third round: every category string of the shipped model files is well-formed text (R5.4, independent reader of sa/datafiles.py).'
    ' Fourth round: the tokeniser is the pattern applied to the whole text; an operand stack kept in a module-level list is reported.'
    ' Fifth round: the tokeniser is applied to the text as given (only blanks removed); a blank inside an atom or feature of a model-file category is ill-formed.'
    ' Sixth and seventh round: Feature.parse keeps the text on every path; every atom the reader pushes is built from the tokens as read (parse:atom-as-read); a second stack next to the operand stack must be balanced (parse:aux-stack-unbalanced); an opening round bracket and the slashes are pushed as read (parse:marks).'
    ' Eighth round: no __post_init__ / __new__ of a value class rewrites a field; an atom prints its feature by value, not by identity with a default object.')
TRUSTED = ['CPython ast', 're._parser (sre_parse) for the tokeniser regex', 'sa/pysym.py path walker']

REL = 'depccg/cat.py'


def regex_class(pattern):
    """-> (delimiter characters, style, swallowed) for the tokeniser regex.
    style 'split': one (capturing) character class, used with sub + split;
    style 'findall': alternation of a single-character delimiter class and a run of a negated class; `swallowed` are the
    delimiters the negated class fails to exclude (they would be glued onto atoms)."""
    try:
        import re._parser as sp
    except ImportError:      # pragma: no cover
        import sre_parse as sp
    p = sp.parse(pattern)

    def in_chars(av):
        chars, negate, cats = set(), False, set()
        for o2, a2 in av:
            n2 = str(o2)
            if n2 == 'LITERAL':
                chars.add(chr(a2))
            elif n2 == 'NEGATE':
                negate = True
            elif n2 == 'CATEGORY':
                cats.add(str(a2))
            else:
                raise AnalysisError('tokeniser character class contains %s' % n2)
        return chars, negate, cats
    items = list(p)
    if len(items) == 1 and str(items[0][0]) == 'SUBPATTERN':
        items = list(items[0][1][3])
    if len(items) == 1 and str(items[0][0]) == 'IN':
        chars, negate, cats = in_chars(items[0][1])
        if negate or cats:
            raise AnalysisError('tokeniser class is negated / uses categories')
        return chars, 'split', set()
    if len(items) == 1 and str(items[0][0]) == 'BRANCH':
        alts = items[0][1][1]
        delim = run = None
        for alt in alts:
            alt = list(alt)
            if len(alt) == 1 and str(alt[0][0]) == 'IN':
                delim = in_chars(alt[0][1])
            elif len(alt) == 1 and str(alt[0][0]) in ('MAX_REPEAT', 'MIN_REPEAT'):
                inner = list(alt[0][1][2])
                if len(inner) == 1 and str(inner[0][0]) == 'IN':
                    run = in_chars(inner[0][1])
        if delim is not None and run is not None and not delim[1] and run[1]:
            swallowed = delim[0] - run[0]
            return delim[0], 'findall', swallowed
    raise AnalysisError('tokeniser regex %r is neither a delimiter class nor delimiter|run alternation' % pattern)


def _literal_chars(parts):
    out = set()
    for p_ in parts:
        if isinstance(p_, str):
            out |= set(p_)
    return out


class ParseWalk(object):
    """Category.parse run by the path walker with the two work lists modelled: a .pop() on the list created empty in
    parse (the operand stack) yields ('sym','popped',k); a .pop() on the token list yields ('sym','token',k)."""

    def __init__(self, mod):
        self.fn = fn = mod.get('Category.parse')
        self.text = [a.arg for a in fn.args.args][-1]

        def on_call(st, t, node):
            f = t[1]
            if f[0] == 'attr' and f[2] in ('pop', 'popleft') and not t[2] and not t[3]:
                kind = 'popped' if (f[1][0] == 'alloc' and f[1][1] == 'list') else 'token'
                k = st.data.get(kind, 0)
                st.data[kind] = k + 1
                return ('sym', kind, k)
            return None
        self.paths = SymExec(fn, unroll=1, on_call=on_call).run()
        allocs = {t for st, o in self.paths for e in st.events if e[0] == 'call' and e[1][1][0] == 'attr' and e[1][1][2] == 'append'
                  for t in [e[1][1][1]] if t[0] == 'alloc'}
        if not allocs:
            shared = {t[1] for st, o in self.paths for e in st.events if e[0] == 'call' and e[1][1][0] == 'attr' and e[1][1][2] == 'append'
                      for t in [e[1][1][1]] if t[0] == 'name'}
            module_lists = {t.id for s_ in mod.tree.body if isinstance(s_, ast.Assign) and isinstance(s_.value, (ast.List, ast.Call))
                            for t in s_.targets if isinstance(t, ast.Name)}
            if len(shared & module_lists) == 1:
                from ..core import StructuralViolation
                nm = next(iter(shared & module_lists))
                raise StructuralViolation('R5.2', '%s:%s Category.parse' % (REL, fn.lineno), 'parse:shared-stack',
                                          'Category.parse keeps its operand stack in the module-level list `%s`: what a rejected text left on it (an exception raised inside the '
                                          'token loop) is read as part of the next text, so a well-formed category is then misread or rejected' % nm)
        if len(allocs) > 1:
            # the operand stack is the list the categories are pushed on; another list kept next to it (the closing
            # brackets still expected, a depth count) is bookkeeping -- sound only when it is popped on every path that
            # consumes a closing bracket, as it is pushed on every path that consumes an opening one
            operand = {e[1][1][1] for st, o in self.paths for e in st.events if e[0] == 'call' and e[1][1][0] == 'attr' and e[1][1][2] == 'append'
                       and e[1][1][1][0] == 'alloc' and e[1][2] and e[1][2][0][0] == 'call' and e[1][2][0][1] in (N('Atom'), N('Functor'))}
            if len(operand) == 1:
                main = next(iter(operand))
                aux = allocs - operand

                def on_call2(st, t, node):
                    f = t[1]
                    if f[0] == 'attr' and f[2] in ('pop', 'popleft') and not t[2] and not t[3]:
                        if f[1] in aux:
                            st.data.setdefault('auxpop', []).append(f[1])
                            return ('sym', 'aux-popped', len(st.data['auxpop']))
                        kind = 'popped' if f[1] == main else 'token'
                        k = st.data.get(kind, 0)
                        st.data[kind] = k + 1
                        return ('sym', kind, k)
                    return None
                self.paths = SymExec(fn, unroll=1, on_call=on_call2).run()
                self.stack = main
                for L in sorted(aux):
                    pushes, pops, tested = {}, {}, False
                    for st, o in self.paths:
                        tc = self.token_chars(st)
                        n_push = sum(1 for e in st.events if e[0] == 'call' and e[1][1][0] == 'attr' and e[1][1][2] == 'append' and e[1][1][1] == L)
                        n_pop = sum(1 for x in st.data.get('auxpop', []) if x == L)
                        tested = tested or any(x == L or (x[0] == 'sym' and x[1] == 'aux-popped') for c, _p, _ in st.conds for x in subterms(c))
                        if tc and tc <= set('(<'):
                            pushes.setdefault(n_push, 0)
                            pushes[n_push] += 1
                        if tc and tc <= set(')>') and o != 'raise':
                            pops.setdefault(n_pop, 0)
                            pops[n_pop] += 1
                    if tested and set(pushes) == {1} and set(pops) != {1}:
                        from ..core import StructuralViolation
                        raise StructuralViolation('R5.2', '%s:%s Category.parse' % (REL, fn.lineno), 'parse:aux-stack-unbalanced',
                                                  'Category.parse keeps a second list next to its operand stack that takes an entry for every opening bracket and is tested, '
                                                  'but it is popped on only some of the paths that consume a closing bracket (pops per path: %s): what a redundant pair of '
                                                  'brackets leaves behind is compared with a later bracket, and a well-formed text is rejected' % sorted(pops))
                allocs = operand
        if len(allocs) != 1:
            raise AnalysisError('%s: Category.parse: expected one operand stack created as an empty list, found %d' % (REL, len(allocs)))
        self.stack = next(iter(allocs))
        self.loops = [n for n in ast.walk(fn) if isinstance(n, (ast.While, ast.For))]

    def token_term(self, st):
        """the term the reader dispatches on in this iteration (what token_chars found tested against delimiters)"""
        for c, p_, _ in st.conds:
            f = logic.formula(c)
            if not p_:
                f = logic.neg(f)
            if f[0] != 'atom':
                continue
            if f[1][0] == 'in' and ((f[1][2][0] == 'const' and isinstance(f[1][2][1], str) and f[1][2][1] and set(f[1][2][1]) <= set('()<>/\\|[]')) or
                                    (f[1][2][0] in ('tuple', 'list', 'set') and f[1][2][1] and all(x[0] == 'const' and isinstance(x[1], str) and x[1] in tuple('()<>/\\|[]') for x in f[1][2][1]))):
                return f[1][1]
            if f[1][0] == 'eq':
                consts = [x for x in f[1][1:] if x[0] == 'const' and isinstance(x[1], str) and x[1] in tuple('()<>/\\|[]')]
                if len(consts) == 1 and st.conds and c is st.conds[0][0]:
                    return [x for x in f[1][1:] if x is not consts[0]][0]
        return None

    def token_chars(self, st, pol=True):
        """characters the token of the iteration is known to be among on this path (the first positive membership /
        equality test of one term against delimiter characters), or None.  The token is whatever term the reader
        dispatches on: a value popped from the token list, an element read through a cursor, ..."""
        for c, p_, _ in st.conds:
            f = logic.formula(c)
            if not p_:
                f = logic.neg(f)
            if f[0] != 'atom':
                continue
            if f[1][0] == 'in' and f[1][2][0] == 'const' and isinstance(f[1][2][1], str) and f[1][2][1] and set(f[1][2][1]) <= set('()<>/\\|[]'):
                return set(f[1][2][1])
            if f[1][0] == 'in' and f[1][2][0] in ('tuple', 'list', 'set') and f[1][2][1] and all(
                    x[0] == 'const' and isinstance(x[1], str) and x[1] in tuple('()<>/\\|[]') for x in f[1][2][1]):
                return {x[1] for x in f[1][2][1]}
            if f[1][0] == 'in' and f[1][2][0] == 'dict' and f[1][2][1] and all(
                    k is not None and k[0] == 'const' and isinstance(k[1], str) and k[1] in tuple('()<>/\\|[]') for k, _v in f[1][2][1]):
                return {k[1] for k, _v in f[1][2][1]}
            if f[1][0] == 'eq':
                consts = [x for x in f[1][1:] if x[0] == 'const' and isinstance(x[1], str) and x[1] in tuple('()<>/\\|[]')]
                if len(consts) == 1 and st.conds and c is st.conds[0][0]:
                    return {consts[0][1]}
        return None


def r_delimiters(mod, rep, R='R5.1'):
    # the tokeniser: the module-level compiled regex that Category.parse (or a helper it calls) uses
    from ..core import closure_walk
    from ..rules_grammar import _const_text
    regexes = {}
    patterns = {}
    for s_ in mod.tree.body:
        if isinstance(s_, ast.Assign) and isinstance(s_.value, ast.Call) and src(s_.value.func) == 're.compile' and s_.value.args:
            pt_ = _const_text(mod, s_.value.args[0], {})       # a literal, or a text put together from module constants
            if pt_ is not None:
                for t in s_.targets:
                    if isinstance(t, ast.Name):
                        regexes[t.id] = s_.value
                        patterns[t.id] = pt_
    used = [n.id for n in closure_walk(mod.get('Category.parse')) if isinstance(n, ast.Name) and n.id in regexes]
    used = list(dict.fromkeys(used))
    if len(used) > 1:
        # the tokeniser is the one applied to the text as a whole (sub / split / findall / finditer); a pattern that only
        # tests one token (match / fullmatch / search) validates, it does not cut
        cutting = []
        for n in closure_walk(mod.get('Category.parse')):
            if isinstance(n, ast.Call) and isinstance(n.func, ast.Attribute) and isinstance(n.func.value, ast.Name) and n.func.value.id in regexes \
                    and n.func.attr in ('sub', 'split', 'findall', 'finditer') and n.func.value.id not in cutting:
                cutting.append(n.func.value.id)
        if len(cutting) == 1:
            used = cutting
    if len(used) != 1:
        raise AnalysisError('%s: cannot identify the tokeniser regex used by Category.parse (candidates: %s)' % (REL, used))
    TOK = used[0]
    cs = regexes[TOK]
    pat = patterns[TOK]
    cls, style, swallowed = regex_class(pat)
    w = '%s:%s <module>' % (REL, cs.lineno)
    if style == 'split':
        grouped = pat.startswith('(') and pat.endswith(')')
        rep.check(grouped, R, w, 'cat_split:capturing', 'the tokeniser keeps the delimiters (capturing group, re-inserted with blanks)',
                  'cat_split does not capture its delimiters')
    else:
        rep.check(not swallowed, R, w, 'cat_split:run-excludes-delimiters', 'the atom-run alternative excludes every delimiter, so each delimiter is a token of its own',
                  'the atom-run alternative of the tokeniser does not exclude the delimiter(s) %s: they are glued onto the preceding atom' % sorted(swallowed))
    # the tokeniser sees the whole text it was given: nothing is cut off or rewritten before (a category is every character
    # of its text -- "[conj]" at the end of NP[conj] is a feature like any other)
    pfn = mod.get('Category.parse')
    pparams = [a.arg for a in pfn.args.args if a.arg not in ('cls', 'self')]
    subjects = []
    for st, o in SymExec(pfn, unroll=1).run():
        for c_ in all_calls(st):
            if c_[1][0] == 'attr' and c_[1][1] == N(TOK) and c_[1][2] in ('sub', 'split', 'findall', 'finditer'):
                sub_ = c_[2][1] if c_[1][2] == 'sub' and len(c_[2]) > 1 else (c_[2][0] if c_[2] else None)
                if sub_ is not None and sub_ not in subjects:
                    subjects.append(sub_)

    def whole(t):
        while t[0] == 'call' and t[1][0] == 'attr' and ((t[1][2] in ('strip', 'lstrip', 'rstrip') and not t[2]) or (
                t[1][2] == 'replace' and len(t[2]) == 2 and t[2][0][0] == 'const' and isinstance(t[2][0][1], str) and t[2][0][1].strip() == '' and t[2][1] == C(''))):
            t = t[1][1]
        if t[0] == 'ifexp':
            return whole(t[2]) and whole(t[3])
        return t[0] == 'name' and t[1] in pparams
    if subjects and pparams:
        cut = [show(t)[:60] for t in subjects if not whole(t)]
        rep.check(not cut, R, '%s:%s Category.parse' % (REL, pfn.lineno), 'parse:whole-text',
                  'the tokeniser is applied to the text as given (only blanks are removed)',
                  'the text is changed before it is tokenised: %s -- a category whose text has that form reads back as a different category' % cut[:2])
    # what the printers emit: literal characters of every text the two __str__ can return (helpers inlined)
    emitted = set()
    for q in ('Atom.__str__', 'Functor.__str__'):
        for conds, v in path_values(SymExec(mod.get(q), unroll=1).run()):
            parts = str_parts(v)
            if parts is not None:
                emitted |= _literal_chars(parts)
    slashes = set()
    for q in ('Category.__truediv__', 'Category.__or__'):
        for conds, ret in path_values(SymExec(mod.get(q), unroll=1).run()):
            if ret[0] == 'call' and ret[1] == N('Functor'):
                args = list(ret[2]) + [v for k, v in ret[3] if k == 'slash']
                for a_ in args:
                    if a_[0] == 'const' and isinstance(a_[1], str) and set(a_[1]) <= set('/\\|') and a_[1]:
                        slashes.add(a_[1])
    pw = ParseWalk(mod)
    parse = pw.fn
    tested = set()
    slash_tests = set()
    for st, o in pw.paths:
        for c, p_, _ in st.conds:
            f = logic.formula(c)
            if f[0] == 'not':
                f = f[1]
            if f[0] != 'atom':
                continue
            if f[1][0] == 'in' and f[1][2][0] == 'const' and isinstance(f[1][2][1], str):
                tested |= set(f[1][2][1])
                if len(f[1][2][1]) > 1 and set(f[1][2][1]) <= set('/\\|'):
                    slash_tests |= set(f[1][2][1])
            if f[1][0] == 'in' and f[1][2][0] in ('tuple', 'list', 'set') and all(x[0] == 'const' and isinstance(x[1], str) and len(x[1]) == 1 for x in f[1][2][1]):
                tested |= {x[1] for x in f[1][2][1]}
                if len(f[1][2][1]) > 1 and {x[1] for x in f[1][2][1]} <= set('/\\|'):
                    slash_tests |= {x[1] for x in f[1][2][1]}
            if f[1][0] == 'in' and f[1][2][0] == 'dict' and all(k is not None and k[0] == 'const' and isinstance(k[1], str) and len(k[1]) == 1 for k, _ in f[1][2][1]):
                tested |= {k[1] for k, _ in f[1][2][1]}       # membership in a table keyed by the characters
            if f[1][0] == 'eq':
                for x in f[1][1:]:
                    if x[0] == 'const' and isinstance(x[1], str) and len(x[1]) == 1:
                        tested.add(x[1])
    slashes |= slash_tests
    emitted |= slashes
    rep.check(emitted <= cls and {'[', ']', '(', ')'} <= emitted and len(slashes) >= 2, R, w, 'delimiters:emitted-in-class',
              'every structural character the printers emit %s is a tokeniser delimiter %s' % (sorted(emitted), sorted(cls)),
              'the printers emit %s, the tokeniser only splits on %s' % (sorted(emitted - cls), sorted(cls)))
    rep.check(cls <= tested, R, '%s:%s Category.parse' % (REL, parse.lineno), 'delimiters:dispatch-covers-class',
              'the reader has a case for every delimiter the tokeniser produces', 'delimiters without a case in Category.parse: %s' % sorted(cls - tested))
    # the text is tokenised with the delimiter regex
    text = N(pw.text)
    ok = False

    def _subject(t):
        # the text itself, possibly with the blanks at its ends removed
        while t[0] == 'call' and t[1][0] == 'attr' and t[1][2] in ('strip', 'lstrip', 'rstrip') and not t[2]:
            t = t[1][1]
        return t == text
    for st, o in pw.paths:
        for t in terms_of(st):
            for s_ in subterms(t):
                # the delimiters are cut out by the regex (kept, thanks to its capturing group) and the rest is cut at blanks:
                # either the padded text as a whole, or each chunk between delimiters
                if style == 'split' and s_[0] == 'call' and s_[1][0] == 'attr' and s_[1][2] == 'split' and s_[2] in ((C(' '),), ()):
                    recv = s_[1][1]
                    if recv[0] == 'call' and recv[1] == A(N(TOK), 'sub') and len(recv[2]) == 2 and recv[2][0] == C(' \\1 ') and _subject(recv[2][1]) and not recv[3]:
                        ok = True
                    if recv[0] == 'elem' and recv[1][0] == 'call' and recv[1][1] == A(N(TOK), 'split') and len(recv[1][2]) == 1 and _subject(recv[1][2][0]):
                        ok = True
                if style != 'split' and s_[0] == 'call' and s_[1] == A(N(TOK), 'findall') and len(s_[2]) == 1 and _subject(s_[2][0]) and not s_[3]:
                    ok = True
    rep.check(ok, R, '%s:%s Category.parse' % (REL, parse.lineno), 'delimiters:tokenise',
              'the text is tokenised with the delimiter regex (%s style): blanks never matter' % style,
              'Category.parse does not tokenise its text with cat_split in the %s style' % style)
    return cls


def r_feature(mod, rep, R='R5.2'):
    ts = mod.get('TernaryFeature.__str__')
    w = '%s:%s TernaryFeature.__str__' % (REL, ts.lineno)
    rets = codec.returns_of(ts)
    ok = False
    if len(rets) == 1:
        r = rets[0][1]
        if r[0] == 'call' and r[1][0] == 'attr' and r[1][2] == 'join' and r[1][1] == C(','):
            g = r[2][0]
            parts = str_parts(g[1]) if g[0] in ('genexp', 'listcomp') else None
            ok = parts is not None and [p for p in parts if isinstance(p, str)] == ['='] and len(parts) == 3 \
                and g[2][0][0] == ('call', A(N('self'), 'items'), (), ())
    rep.check(ok, R, w, 'feature:print', 'a three-part feature prints as k=v,k=v,k=v', 'TernaryFeature.__str__ returns %s' % (show(rets[0][1])[:80] if rets else None))
    items = mod.get('TernaryFeature.items')
    ir = codec.returns_of(items)
    rep.check(len(ir) == 1 and ir[0][1] == ('tuple', (A(N('self'), 'kv1'), A(N('self'), 'kv2'), A(N('self'), 'kv3'))), R,
              '%s:%s TernaryFeature.items' % (REL, items.lineno), 'feature:items', 'items() yields the three pairs in field order',
              'items() returns %s' % (show(ir[0][1]) if ir else None))
    fp = mod.get('Feature.parse')
    p = fp.args.args[1].arg
    wf = '%s:%s Feature.parse' % (REL, fp.lineno)
    tern = unary = False
    unary_seen = None
    for st, ret in codec.returns_of(fp):
        conds = [(c, pol) for c, pol, _ in st.conds]
        both_f = ('and', (logic.formula(('cmp', 'in', C('='), N(p))), logic.formula(('cmp', 'in', C(','), N(p)))))
        if logic.implied(conds, both_f):
            # exactly TernaryFeature(*(tuple(kv.split('=')) for kv in text.split(','))): the pairs in the order written
            t = ret
            tern = False
            if t[0] == 'call' and t[1] == N('TernaryFeature') and len(t[2]) == 1 and not t[3] and t[2][0][0] == 'star':
                comp = t[2][0][1]
                if comp[0] in ('listcomp', 'genexp') and len(comp[2]) == 1:
                    it, filt = comp[2][0]
                    el = comp[1]
                    is_elem = lambda x: x[0] == 'elem' and x[1] == it
                    pair = el[2][0] if (el[0] == 'call' and el[1] == N('tuple') and len(el[2]) == 1) else el
                    tern = it == ('call', A(N(p), 'split'), (C(','),), ()) and not filt and pair[0] == 'call' and pair[1][0] == 'attr' \
                        and pair[1][2] == 'split' and is_elem(pair[1][1]) and pair[2] == (C('='),)
        elif logic.excluded(conds, both_f):
            ok_u = ret == ('call', N('UnaryFeature'), (N(p),), ())
            unary = ok_u if unary_seen is None else (unary and ok_u)        # on every such path: the text as given, unchanged
            unary_seen = True
    rep.check(tern, R, wf, 'feature:parse-ternary', 'text with both separators is split on , and = into a three-part feature', 'Feature.parse does not split on , and = for the three-part form')
    rep.check(unary, R, wf, 'feature:parse-unary', 'any other text becomes a plain feature with that text', 'Feature.parse does not fall back to UnaryFeature(text)')
    # atom: base, or base[feature]
    a_str = mod.get('Atom.__str__')
    vals = path_values(SymExec(a_str, unroll=1).run())
    feat = (A(N('self'), 'feature'), ('call', N('str'), (A(N('self'), 'feature'),), ()))
    ok = any(str_parts(v) is not None and len(str_parts(v)) == 4 and str_parts(v)[0] == A(N('self'), 'base') and str_parts(v)[1] == '['
             and str_parts(v)[2] in feat and str_parts(v)[3] == ']' for _, v in vals)
    other = [v for _, v in vals if not (str_parts(v) is not None and len(str_parts(v)) == 4)]
    ok = ok and all(v == A(N('self'), 'base') or str_parts(v) == [A(N('self'), 'base')] for v in other)
    # whether the brackets are written is decided by the feature's text (empty or not) or by its value (== the absent feature),
    # never by which object it is: equal atoms print alike
    by_identity = [show(c)[:60] for st_, o_ in SymExec(a_str, unroll=1).run() for c, pol_, _ in st_.conds if c[0] == 'cmp' and c[1] in ('is', 'is not') and c[3] != C(None) and c[2] != C(None)]
    rep.check(not by_identity, R, '%s:%s Atom.__str__' % (REL, a_str.lineno), 'atom:print:by-value', 'whether an atom prints its brackets depends on the value of its feature',
              'Atom.__str__ decides by object identity (%s): an atom whose feature is equal to, but not the same object as, the default (a copy, an unpickled value, an explicit UnaryFeature()) prints `base[]`' % by_identity[:1])
    rep.check(ok, R, '%s:%s Atom.__str__' % (REL, a_str.lineno), 'atom:print', 'an atom with a feature prints as base[feature], without one as base',
              'Atom.__str__ returns %s' % [show(v)[:60] for _, v in vals])
    # functor: left slash right, every operand that is a functor in brackets
    fs = mod.get('Functor.__str__')
    vals = path_values(SymExec(fs, unroll=1).run())
    S_ = N('self')
    good = bool(vals)
    why = []

    def operand(parts, i, x, conds):
        """consume one operand at parts[i:], -> new index or None"""
        if parts[i:i + 3] == ['(', x, ')']:
            return i + 3
        if i < len(parts) and parts[i] == x:
            # unbracketed: only when x is known not to be a functor here
            nf = logic.implied(conds, logic.neg(logic.formula(('call', N('isinstance'), (x, N('Functor')), ())))) or \
                logic.implied(conds, logic.neg(logic.formula(A(x, 'is_functor')))) or logic.implied(conds, logic.formula(A(x, 'is_atomic')))
            return i + 1 if nf else None
        return None
    for conds, v in vals:
        parts = str_parts(v)
        if parts is None:
            good = False
            why.append('returns %s' % show(v)[:80])
            continue
        # literal pieces may have been merged with neighbours: split brackets off again
        flat_parts = []
        for p_ in parts:
            if isinstance(p_, str):
                flat_parts.extend(list(p_))
            else:
                flat_parts.append(p_)
        i = operand(flat_parts, 0, A(S_, 'left'), conds)
        ok1 = i is not None and i < len(flat_parts) and flat_parts[i] == A(S_, 'slash')
        j = operand(flat_parts, i + 1, A(S_, 'right'), conds) if ok1 else None
        if not (ok1 and j == len(flat_parts)):
            good = False
            why.append('%s when %s' % (show(v)[:80], [(show(c)[:40], p_) for c, p_ in conds]))
    rep.check(good, R, '%s:%s Functor.__str__' % (REL, fs.lineno), 'functor:print',
              'a functor prints left slash right and brackets (at least) every operand that is itself a functor',
              'Functor.__str__ leaves a functor operand unbracketed or changes the layout: the text becomes ambiguous (%s)' % '; '.join(why[:2]))


def r_associativity(mod, rep, R='R5.3'):
    pw = ParseWalk(mod)
    parse = pw.fn
    w = '%s:%s Category.parse' % (REL, parse.lineno)
    rep.check(len(pw.loops) == 1, R, w, 'parse:single-loop',
              'the only loop is the token loop: no folding of several operators at one bracket level', 'Category.parse has %d loops' % len(pw.loops))
    stack = pw.stack
    P = lambda k: ('sym', 'popped', k)
    seen = set()
    n_simple = n_functor = 0
    functor_forms = set()
    closing_seen = False
    for st, o in pw.paths:
        entered = any(e[0] == 'loop-enter' for e in st.events)
        # every Functor(...) built anywhere on the path
        for c_ in all_calls(st, N('Functor')):
            functor_forms.add(c_[2])
        if not entered:
            continue
        chars = pw.token_chars(st)
        if not chars or not chars <= set(')>'):
            continue
        closing_seen = True
        i_exit = [i for i, e in enumerate(st.events) if e[0] == 'loop-exit']
        seg = st.events[:i_exit[0]] if i_exit else st.events
        pops = max([x[2] + 1 for e in seg for t in e[1:-1] if isinstance(t, tuple) for x in subterms(t) if x[0] == 'sym' and x[1] == 'popped'] or [0])
        asserts = [(e[1], True) for e in seg if e[0] == 'assert']
        pushed = [e[1][2][0] for e in seg if e[0] == 'call' and e[1][1] == A(stack, 'append')]
        sig = (pops, tuple(pushed), tuple(asserts))
        if sig in seen:
            continue
        seen.add(sig)
        built = [p_ for p_ in pushed if p_[0] == 'call' and p_[1] == N('Functor')]

        def bracket_checked(k):
            for a_, _ in asserts:
                f = logic.formula(a_)
                if f[0] == 'atom' and f[1][0] == 'in' and f[1][1] == P(k) and f[1][2][0] == 'const' and isinstance(f[1][2][1], str) and set(f[1][2][1]) <= set('(<'):
                    return True
                if f[0] == 'atom' and f[1][0] == 'eq' and P(k) in f[1][1:] and any(x[0] == 'const' and x[1] in ('(', '<') for x in f[1][1:]):
                    return True
            return False
        if o == 'raise' and not pushed:
            continue        # a failed assertion / explicit error
        if built:
            n_functor += 1
            f = built[0]
            ok = pops == 4 and bracket_checked(3) and f[2] == (P(2), P(1), P(0)) and not f[3] and len(pushed) == 1
            rep.check(ok, R, w, 'parse:closing:functor', 'closing a bracket over "x slash y" pops exactly y, slash, x, then requires the opening bracket',
                      'functor-closing path pops %d entries, opening bracket required: %s, builds %s' % (pops, bracket_checked(3), show(f)[:60]))
        elif pushed:
            n_simple += 1
            ok = pops == 2 and bracket_checked(1) and pushed == [P(0)]
            rep.check(ok, R, w, 'parse:closing:redundant', 'closing a redundant bracket pops the operand and requires the opening bracket, value unchanged',
                      'redundant-bracket path pops %d entries, opening bracket required: %s, pushes %s' % (pops, bracket_checked(1), [show(x)[:40] for x in pushed]))
        else:
            rep.violation(R, w, 'parse:closing:drops', 'a closing bracket can pop %d entries and push nothing back' % pops)
    if not closing_seen:
        rep.violation(R, w, 'parse:closing', 'no case for closing brackets')
        return
    rep.check(n_functor >= 1 and n_simple >= 1, R, w, 'parse:closing:cases', 'both closing cases exist (redundant bracket / operand-slash-operand)',
              'closing cases: functor %d, redundant %d' % (n_functor, n_simple))
    # the opening case: the bracket the printers write ("(") is pushed as the mark the closing cases ask for -- as a text, not
    # as an atom -- and so are the slashes
    marks = {'(': False, '/': False, '\\': False}
    for st, o in pw.paths:
        if o == 'raise' or not any(e[0] == 'loop-enter' for e in st.events):
            continue
        chars = pw.token_chars(st)
        if not chars:
            continue
        i_exit = [i for i, e in enumerate(st.events) if e[0] == 'loop-exit']
        seg = st.events[:i_exit[0]] if i_exit else st.events
        pushed = [e[1][2][0] for e in seg if e[0] == 'call' and e[1][1] == A(stack, 'append')]
        verbatim = len(pushed) == 1 and ((pushed[0][0] == 'sym' and pushed[0][1] == 'token') or pushed[0] == pw.token_term(st))
        for ch in marks:
            if ch in chars and verbatim:
                marks[ch] = True
    missing = sorted(ch for ch, ok_ in marks.items() if not ok_)
    rep.check(not missing, R, w, 'parse:marks', 'an opening round bracket and the two slashes are pushed as they are read (the closing cases look for them)',
              'the characters %s have no case that pushes them as read: the text the printers write for a functor does not read back' % missing)
    # end of input: one entry is returned as is, or exactly three are combined
    U = lambda k: ('unpack', stack, k)
    single = three = False
    other = []
    for st, o in pw.paths:
        if o != 'return' or st.ret is None or any(e[0] == 'loop-enter' for e in st.events):
            continue
        conds = [(c, p_) for c, p_, _ in st.conds]
        r = st.ret
        if r == ('sub', stack, C(0)) and logic.implied(conds, logic.formula(('cmp', '==', ('call', N('len'), (stack,), ()), C(1)))):
            single = True
        elif r[0] == 'call' and r[1] == N('Functor') and r[2] == (U(0), U(1), U(2)) and not r[3]:
            three = True
        else:
            other.append(show(r)[:60])
    starred = [n for n in ast.walk(parse) if isinstance(n, ast.Starred) and isinstance(getattr(n, 'ctx', None), ast.Store)]
    rep.check(single and three and not other and not starred, R, w, 'parse:end',
              'at the end one entry is returned, or exactly three are combined; any other count is an error',
              'end of input does not enforce one entry or exactly three (single: %s, exactly-three: %s, other results: %s, starred unpacking: %d)'
              % (single, three, other, len(starred)))
    legal = {(P(2), P(1), P(0)), (U(0), U(1), U(2))}
    rep.check(functor_forms <= legal and len(functor_forms) == 2, R, w, 'parse:functor-sites',
              'a functor is built only from exactly three stack entries (at a closing bracket, or at the end)',
              'Functor(...) is also built from %s' % [[show(a)[:30] for a in f] for f in sorted(functor_forms - legal)])


def r_atoms(mod, rep, R='R5.2'):
    """what the reader pushes for `base[f]` is Atom(base, Feature.parse(f)) with f the text between the brackets, for a
    bare token Atom(token): the feature an atom gets is the parsed text, on every path (a feature swapped for another
    value under some test on it prints back as a different text)"""
    pm = ParseWalk(mod)
    n = 0
    bad = []
    TEXT = N(pm.text)

    def as_read(t):
        # a token as it stands: popped from the token list, or picked out of it by position (subscript / element / unpacking
        # of something computed from the text) -- not the result of a call applied to it, and not a value written in the source
        if t[0] == 'sym' and t[1] == 'token':
            return True
        if t[0] in ('sub', 'elem', 'unpack') or (t[0] == 'name'):
            return any(x == TEXT or (x[0] == 'sym' and x[1] == 'token') for x in subterms(t)) or t[0] == 'name'
        return False
    for st, o in pm.paths:
        if o == 'raise':
            continue
        for e in st.events:
            if not (e[0] == 'call' and e[1][1][0] == 'attr' and e[1][1][2] == 'append' and e[1][1][1] == pm.stack and e[1][2]):
                continue
            v = e[1][2][0]
            if not (v[0] == 'call' and v[1] == N('Atom')):
                continue
            n += 1
            args = list(v[2]) + [val for k, val in v[3] if k is not None]
            if len(args) >= 2:
                f = args[1]
                ok = f[0] == 'call' and f[1] == A(N('Feature'), 'parse') and len(f[2]) == 1 and as_read(f[2][0])
                if not ok and f == ('call', N('UnaryFeature'), (), ()):
                    # "no feature" written out (the default of the field) on a path that read no feature text
                    ok = not any(e2[0] == 'call' and e2[1][1] == A(N('Feature'), 'parse') for e2 in st.events)
                if not ok:
                    conds = '; '.join('%s%s' % ('' if pol else 'not ', show(c)[:50]) for c, pol, _ in st.conds[-2:])
                    bad.append('Atom(.., %s) under %s' % (show(f)[:50], conds))
            base = args[0] if args else None
            if base is not None and not as_read(base):
                bad.append('Atom(%s, ..)' % show(base)[:50])
    if not n:
        raise AnalysisError('%s: Category.parse: no path pushes an Atom' % REL)
    rep.check(not bad, R, '%s:%s Category.parse' % (REL, pm.fn.lineno), 'parse:atom-as-read',
              'every atom pushed by the reader is Atom(<token>) or Atom(<token>, Feature.parse(<token>)) (%d pushes on the paths of one token)' % n,
              'the reader builds an atom from something other than the text it read: %s -- the category prints back as a different text' % sorted(set(bad))[:2])


def check(repo, rep, tier):
    mod = repo.module(REL)
    rep.rule('R5.1', 'delimiters emitted by printers are tokeniser delimiters; the reader handles every delimiter')
    rep.rule('R5.2', 'feature / atom / functor print templates agree with what the reader splits on')
    rep.rule('R5.3', 'associativity never guessed: exact pops per bracket, exactly three at the end, no folding loop')
    cls = r_delimiters(mod, rep)
    r_feature(mod, rep)
    r_atoms(mod, rep)
    from . import c13
    c13.r_dataclass(mod, rep, 'R5.2')        # what a text is read into is stored as given (no field rewritten on construction)
    r_associativity(mod, rep)
    rep.rule('R5.4', 'every category string of the shipped model files is well-formed text (read by an independent reader of the same grammar)')
    from .c17 import r_data
    n = r_data(repo, rep, 'R5.4', only_well_formed=True)
    rep.floor('shipped category strings read', n, 1000)
    rep.floor('tokeniser delimiters', len(cls), 9)
