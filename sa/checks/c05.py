"""C05 -- category text and category values round-trip (structural necessary conditions)."""
import ast
import re

from ..core import AnalysisError, src
from ..pysym import SymExec, show, subterms
from ..rules_pyx import N, C, A
from .. import codec
from .. import logic

EXPLANATION = (
    'Three structural necessary conditions of the round trip, decided from the code of depccg/cat.py: R5.1 delimiter '
    'agreement -- every structural character the printers can emit ([ ] from Atom.__str__, ( ) from Functor.__str__, the '
    'slashes the constructors / the reader can store) belongs to the character class of the tokeniser cat_split (read '
    'with the regex parser), and the reader\'s dispatch tests cover that whole class; R5.2 feature separators -- '
    'TernaryFeature.__str__ joins three key=value pairs with exactly the separators Feature.parse splits on, and '
    'Feature.parse builds the three-part feature only when both separators occur; R5.3 associativity is never guessed -- '
    'a Functor is built in exactly two places of Category.parse, each from exactly three stack entries; a closing bracket '
    'pops either one operand or exactly operand-slash-operand and then requires an opening bracket (assert / raise); the '
    'end of input returns a single entry or unpacks exactly three inside the handler that turns a mismatch into '
    'RuntimeError; there is no loop folding several operators at one bracket level.  The round-trip equalities themselves '
    'quantify over all values and are not decided (that would be symbolic execution of the stack machine).')
TRUSTED = ['CPython ast', 're._parser (sre_parse) for the tokeniser regex', 'sa/pysym.py path walker']

REL = 'depccg/cat.py'


def regex_class(pattern):
    """-> (delimiter characters, style, swallowed) for the tokeniser regex.
    style 'split': one (capturing) character class, used with sub + split;
    style 'findall': alternation of a single-character delimiter class and a run of a negated class; `swallowed` are the
    delimiters the negated class fails to exclude (they would be glued onto atoms)."""
    try:
        import re._parser as sp
    except ImportError:      # pragma: no cover
        import sre_parse as sp
    p = sp.parse(pattern)

    def in_chars(av):
        chars, negate, cats = set(), False, set()
        for o2, a2 in av:
            n2 = str(o2)
            if n2 == 'LITERAL':
                chars.add(chr(a2))
            elif n2 == 'NEGATE':
                negate = True
            elif n2 == 'CATEGORY':
                cats.add(str(a2))
            else:
                raise AnalysisError('tokeniser character class contains %s' % n2)
        return chars, negate, cats
    items = list(p)
    if len(items) == 1 and str(items[0][0]) == 'SUBPATTERN':
        items = list(items[0][1][3])
    if len(items) == 1 and str(items[0][0]) == 'IN':
        chars, negate, cats = in_chars(items[0][1])
        if negate or cats:
            raise AnalysisError('tokeniser class is negated / uses categories')
        return chars, 'split', set()
    if len(items) == 1 and str(items[0][0]) == 'BRANCH':
        alts = items[0][1][1]
        delim = run = None
        for alt in alts:
            alt = list(alt)
            if len(alt) == 1 and str(alt[0][0]) == 'IN':
                delim = in_chars(alt[0][1])
            elif len(alt) == 1 and str(alt[0][0]) in ('MAX_REPEAT', 'MIN_REPEAT'):
                inner = list(alt[0][1][2])
                if len(inner) == 1 and str(inner[0][0]) == 'IN':
                    run = in_chars(inner[0][1])
        if delim is not None and run is not None and not delim[1] and run[1]:
            swallowed = delim[0] - run[0]
            return delim[0], 'findall', swallowed
    raise AnalysisError('tokeniser regex %r is neither a delimiter class nor delimiter|run alternation' % pattern)


def r_delimiters(mod, rep, R='R5.1'):
    cs = mod.assign('cat_split')
    if not (isinstance(cs, ast.Call) and src(cs.func) == 're.compile' and isinstance(cs.args[0], ast.Constant)):
        raise AnalysisError('%s: cat_split is not re.compile(<literal>)' % REL)
    pat = cs.args[0].value
    cls, style, swallowed = regex_class(pat)
    w = '%s:%s <module>' % (REL, cs.lineno)
    if style == 'split':
        grouped = pat.startswith('(') and pat.endswith(')')
        rep.check(grouped, R, w, 'cat_split:capturing', 'the tokeniser keeps the delimiters (capturing group, re-inserted with blanks)',
                  'cat_split does not capture its delimiters')
    else:
        rep.check(not swallowed, R, w, 'cat_split:run-excludes-delimiters', 'the atom-run alternative excludes every delimiter, so each delimiter is a token of its own',
                  'the atom-run alternative of the tokeniser does not exclude the delimiter(s) %s: they are glued onto the preceding atom' % sorted(swallowed))
    # what the printers emit
    emitted = set()
    a_str = mod.get('Atom.__str__')
    for st, ret in codec.returns_of(a_str):
        if ret[0] == 'fstr':
            for p in ret[1]:
                if isinstance(p, str):
                    emitted |= set(p)
    f_str = mod.get('Functor.__str__')
    inner = mod.get('Functor.__str__._str')
    for st, ret in codec.returns_of(inner):
        if ret[0] == 'fstr':
            for p in ret[1]:
                if isinstance(p, str):
                    emitted |= set(p)
    slashes = set()
    for q, want in (('Category.__truediv__', None), ('Category.__or__', None)):
        fn = mod.get(q)
        for st, ret in codec.returns_of(fn):
            if ret[0] == 'call' and ret[1] == N('Functor') and ret[2][1][0] == 'const':
                slashes.add(ret[2][1][1])
    parse = mod.get('Category.parse')
    consts = [n.value for n in ast.walk(parse) if isinstance(n, ast.Constant) and isinstance(n.value, str)]
    slash_tests = [c for c in consts if c and set(c) <= set('/\\|') and len(c) > 1]
    for c in slash_tests:
        slashes |= set(c)
    emitted |= slashes
    rep.check(emitted <= cls and {'[', ']', '(', ')'} <= emitted and len(slashes) >= 2, R, w, 'delimiters:emitted-in-class',
              'every structural character the printers emit %s is a tokeniser delimiter %s' % (sorted(emitted), sorted(cls)),
              'the printers emit %s, the tokeniser only splits on %s' % (sorted(emitted - cls), sorted(cls)))
    # the reader's dispatch covers the class
    tested = set()
    for n in ast.walk(parse):
        if isinstance(n, ast.Compare) and len(n.ops) == 1:
            c = n.comparators[0]
            if isinstance(n.ops[0], ast.In) and isinstance(c, ast.Constant) and isinstance(c.value, str) and src(n.left) == 'item':
                tested |= set(c.value)
            if isinstance(n.ops[0], ast.Eq) and isinstance(c, ast.Constant) and isinstance(c.value, str) and len(c.value) == 1:
                tested.add(c.value)
    rep.check(cls <= tested, R, '%s:%s Category.parse' % (REL, parse.lineno), 'delimiters:dispatch-covers-class',
              'the reader has a case for every delimiter the tokeniser produces', 'delimiters without a case in Category.parse: %s' % sorted(cls - tested))
    sub = [n for n in ast.walk(parse) if isinstance(n, ast.Call) and src(n.func) == 'cat_split.sub']
    fa = [n for n in ast.walk(parse) if isinstance(n, ast.Call) and src(n.func) == 'cat_split.findall']
    if style == 'split':
        ok = bool(sub) and isinstance(sub[0].args[0], ast.Constant) and sub[0].args[0].value == ' \\1 ' and "split(' ')" in src(parse)
    else:
        ok = bool(fa) and len(fa[0].args) == 1 and src(fa[0].args[0]) == parse.args.args[1].arg
    rep.check(ok, R, '%s:%s Category.parse' % (REL, parse.lineno), 'delimiters:tokenise',
              'the text is tokenised with the delimiter regex (%s style): blanks never matter' % style,
              'Category.parse does not tokenise its text with cat_split in the %s style' % style)
    return cls


def r_feature(mod, rep, R='R5.2'):
    ts = mod.get('TernaryFeature.__str__')
    w = '%s:%s TernaryFeature.__str__' % (REL, ts.lineno)
    rets = codec.returns_of(ts)
    ok = False
    if len(rets) == 1:
        r = rets[0][1]
        if r[0] == 'call' and r[1][0] == 'attr' and r[1][2] == 'join' and r[1][1] == C(','):
            g = r[2][0]
            ok = g[0] in ('genexp', 'listcomp') and g[1][0] == 'fstr' and [p for p in g[1][1] if isinstance(p, str)] == ['='] and len(g[1][1]) == 3 \
                and g[2][0][0] == ('call', A(N('self'), 'items'), (), ())
    rep.check(ok, R, w, 'feature:print', 'a three-part feature prints as k=v,k=v,k=v', 'TernaryFeature.__str__ returns %s' % (show(rets[0][1])[:80] if rets else None))
    items = mod.get('TernaryFeature.items')
    ir = codec.returns_of(items)
    rep.check(len(ir) == 1 and ir[0][1] == ('tuple', (A(N('self'), 'kv1'), A(N('self'), 'kv2'), A(N('self'), 'kv3'))), R,
              '%s:%s TernaryFeature.items' % (REL, items.lineno), 'feature:items', 'items() yields the three pairs in field order',
              'items() returns %s' % (show(ir[0][1]) if ir else None))
    fp = mod.get('Feature.parse')
    p = fp.args.args[1].arg
    wf = '%s:%s Feature.parse' % (REL, fp.lineno)
    tern = unary = False
    for st, ret in codec.returns_of(fp):
        conds = [(c, pol) for c, pol, _ in st.conds]
        both_f = ('and', (logic.formula(('cmp', 'in', C('='), N(p))), logic.formula(('cmp', 'in', C(','), N(p)))))
        if logic.implied(conds, both_f):
            t = ret
            tern = t[0] == 'call' and t[1] == N('TernaryFeature') and "split(',')" in show(t).replace('"', "'") and "split('=')" in show(t).replace('"', "'")
        elif logic.excluded(conds, both_f):
            unary = ret == ('call', N('UnaryFeature'), (N(p),), ())
    rep.check(tern, R, wf, 'feature:parse-ternary', 'text with both separators is split on , and = into a three-part feature', 'Feature.parse does not split on , and = for the three-part form')
    rep.check(unary, R, wf, 'feature:parse-unary', 'any other text becomes a plain feature with that text', 'Feature.parse does not fall back to UnaryFeature(text)')
    a_str = mod.get('Atom.__str__')
    ok = False
    for st, ret in codec.returns_of(a_str):
        if ret[0] == 'fstr':
            ok = [p_ if isinstance(p_, str) else '{}' for p_ in ret[1]] == ['{}', '[', '{}', ']']
    rep.check(ok, R, '%s:%s Atom.__str__' % (REL, a_str.lineno), 'atom:print', 'an atom with a feature prints as base[feature]', 'Atom.__str__ template changed')
    inner = mod.get('Functor.__str__._str')
    paren = plain = False
    q = inner.args.args[0].arg
    for st, ret in codec.returns_of(inner):
        conds = [(c, pol) for c, pol, _ in st.conds]
        isf = [(c, pol) for c, pol in conds if c == ('call', N('isinstance'), (N(q), N('Functor')), ()) or c == A(N(q), 'is_functor')]
        bracketed = ret[0] == 'fstr' and [p_ if isinstance(p_, str) else '{}' for p_ in ret[1]] == ['(', '{}', ')']
        if isf and isf[0][1]:
            paren = bracketed
        elif isf:
            plain = ret == ('call', N('str'), (N(q),), ()) or bracketed      # redundant brackets never change the value
        else:
            paren = plain = bracketed       # unconditional bracketing is also unambiguous
    fs = mod.get('Functor.__str__')
    top = [r for st, r in codec.returns_of(fs)]
    oktop = len(top) == 1 and show(top[0]).replace(' ', '').count('self.slash') == 1 and 'self.left' in show(top[0]) and 'self.right' in show(top[0]) and \
        show(top[0]).index('self.left') < show(top[0]).index('self.slash') < show(top[0]).index('self.right')
    rep.check(paren and plain and oktop, R, '%s:%s Functor.__str__' % (REL, fs.lineno), 'functor:print',
              'a functor prints left slash right and brackets (at least) every operand that is itself a functor', 'Functor.__str__ leaves a functor operand unbracketed: the text becomes ambiguous')


def r_associativity(mod, rep, R='R5.3'):
    parse = mod.get('Category.parse')
    w = '%s:%s Category.parse' % (REL, parse.lineno)
    fcalls = [n for n in ast.walk(parse) if isinstance(n, ast.Call) and src(n.func) == 'Functor']
    rep.check(len(fcalls) == 2 and all(len(c.args) == 3 for c in fcalls), R, w, 'parse:functor-sites', 'a functor is built in exactly two places, each from (left, slash, right)',
              'Functor(...) is built at %d places' % len(fcalls))
    loops = [n for n in ast.walk(parse) if isinstance(n, (ast.While, ast.For))]
    rep.check(len(loops) == 1 and src(loops[0].test).replace(' ', '') in ('len(buffer)', 'buffer', 'len(buffer)>0'), R, w, 'parse:single-loop',
              'the only loop is the token loop: no folding of several operators at one bracket level', 'Category.parse has %d loops' % len(loops))
    # closing-bracket branch
    closing = None
    for n in ast.walk(parse):
        if isinstance(n, ast.If) and isinstance(n.test, ast.Compare) and src(n.test.left) == 'item' and isinstance(n.test.comparators[0], ast.Constant) \
                and set(n.test.comparators[0].value) == set(')>'):
            closing = n
    if closing is None:
        rep.violation(R, w, 'parse:closing', 'no case for closing brackets')
        return
    body = ast.Module(body=closing.body, type_ignores=[])
    fn = ast.FunctionDef(name='closing', args=ast.arguments(posonlyargs=[], args=[], kwonlyargs=[], kw_defaults=[], defaults=[]), body=closing.body,
                         decorator_list=[], lineno=closing.lineno, col_offset=0)
    pops_by_path = []

    def on_call(st, t, node):
        if t[1] == A(N('stack'), 'pop') and not t[2]:
            k = st.data.get('pops', 0)
            st.data['pops'] = k + 1
            return ('sym', 'popped', k)
        return None
    n_simple = n_functor = 0
    for st, o in SymExec(fn, on_call=on_call).run():
        pops = st.data.get('pops', 0)
        asserts = [e[1] for e in st.events if e[0] == 'assert']
        pushed = [e[1][2][0] for e in st.events if e[0] == 'call' and e[1][1] == A(N('stack'), 'append')]
        built = [p for p in pushed if p[0] == 'call' and p[1] == N('Functor')]
        bracket_checked = any(a[0] == 'cmp' and a[1] == 'in' and a[2][0] == 'sym' and a[2][1] == 'popped' and a[3][0] == 'const' and set(a[3][1]) == set('(<') for a in asserts)
        if built:
            n_functor += 1
            f = built[0]
            ok = pops == 4 and bracket_checked and f[2] == (('sym', 'popped', 2), ('sym', 'popped', 1), ('sym', 'popped', 0))
            rep.check(ok, R, w, 'parse:closing:functor', 'closing a bracket over "x slash y" pops exactly y, slash, x, then requires the opening bracket',
                      'functor-closing path pops %d entries, bracket checked: %s, builds %s' % (pops, bracket_checked, show(f)[:60]))
        elif pushed:
            n_simple += 1
            ok = pops == 2 and bracket_checked and pushed[0] == ('sym', 'popped', 0)
            rep.check(ok, R, w, 'parse:closing:redundant', 'closing a redundant bracket pops the operand and requires the opening bracket, value unchanged',
                      'redundant-bracket path pops %d entries, bracket checked: %s' % (pops, bracket_checked))
    rep.check(n_functor >= 1 and n_simple >= 1, R, w, 'parse:closing:cases', 'both closing cases exist (redundant bracket / operand-slash-operand)',
              'closing cases: functor %d, redundant %d' % (n_functor, n_simple))
    # end of input
    tail = parse.body[parse.body.index(loops[0]) + 1:] if loops and loops[0] in parse.body else []
    t = ' '.join(src(s) for s in tail).replace('\n', ' ')
    single = any(isinstance(s, ast.If) and src(s.test).replace(' ', '') == 'len(stack)==1' and src(s.body[0]).replace(' ', '') == 'returnstack[0]' for s in tail)
    tr = [s for s in tail if isinstance(s, ast.Try)]
    three = False
    if tr:
        unpack = [s for s in tr[0].body if isinstance(s, ast.Assign) and isinstance(s.targets[0], ast.Tuple) and len(s.targets[0].elts) == 3 and src(s.value) == 'stack'
                  and not any(isinstance(e, ast.Starred) for e in s.targets[0].elts)]
        handlers = [h for h in tr[0].handlers if h.type is not None and 'ValueError' in src(h.type) and any(isinstance(x, ast.Raise) for x in h.body)]
        three = bool(unpack) and bool(handlers)
    rep.check(single and three, R, w, 'parse:end', 'at the end one entry is returned, or exactly three are combined; any other count is an error',
              'end of input does not enforce one entry or exactly three (single: %s, exactly-three-or-error: %s)' % (single, three))


def check(repo, rep, tier):
    mod = repo.module(REL)
    rep.rule('R5.1', 'delimiters emitted by printers are tokeniser delimiters; the reader handles every delimiter')
    rep.rule('R5.2', 'feature / atom / functor print templates agree with what the reader splits on')
    rep.rule('R5.3', 'associativity never guessed: exact pops per bracket, exactly three at the end, no folding loop')
    cls = r_delimiters(mod, rep)
    r_feature(mod, rep)
    r_associativity(mod, rep)
    rep.floor('tokeniser delimiters', len(cls), 9)
