"""C13 -- categories behave as values."""
import ast

from ..core import AnalysisError, src
from ..pysym import SymExec, show, path_values, subterms
from ..rules_pyx import N, C, A
from .. import boolfn as bf
from .. import logic

EXPLANATION = (
    'Static conformance of depccg/cat.py to R13.1-R13.4: Atom, Functor, UnaryFeature, TernaryFeature are '
    '@dataclass(frozen=True) with eq enabled and no explicit __hash__, so the generated hash covers exactly the '
    'declared fields; each hand-written __eq__ compares, for same-class operands, exactly the declared fields with '
    '==, answers False for other classes, and for str operands compares with the canonical text (categories) / the '
    'parsed feature (features); __xor__ is __eq__ minus the feature, recursing with ^ and comparing the slash; '
    'clear_features drops exactly the feature on atoms and rebuilds functors with the same slash from the '
    'recursive results.  For classes of this shape these facts are the whole value algebra (equality is an '
    'equivalence, equal values hash equally, ^ is coarser than ==, erasure is idempotent).'
    ' The names to erase must reach every atom as a re-iterable collection (not a map / filter / generator) when clear_features forwards to per-class methods.'
    ' Eighth round: a value class without an __eq__ of its own has the generated one (no string branch); grammar rules return category objects, never the text of one (R13.5); no erasure memo in the grammar modules (R13.4).')
TRUSTED = ['CPython ast', 'semantics of dataclasses (frozen, eq, generated __hash__)', 'rule table DESIGN.md C13']

REL = 'depccg/cat.py'
CLASSES = {'Atom': 'Category', 'Functor': 'Category', 'UnaryFeature': 'Feature', 'TernaryFeature': 'Feature'}


def dataclass_fields(cls):
    out = []
    for s in cls.body:
        if isinstance(s, ast.AnnAssign) and isinstance(s.target, ast.Name) and 'ClassVar' not in src(s.annotation):
            out.append(s.target.id)
    return out


def conj(t):
    if t[0] == 'bool' and t[1] == 'and':
        out = []
        for x in t[2]:
            out += conj(x)
        return out
    return [t]


def r_dataclass(mod, rep, R='R13.1'):
    for name in CLASSES:
        cls = mod.get(name)
        w = '%s:%s %s' % (REL, cls.lineno, name)
        deco = [d for d in cls.decorator_list if 'dataclass' in src(d)]
        ok = len(deco) == 1 and isinstance(deco[0], ast.Call)
        kw = {k.arg: k.value for k in deco[0].keywords} if ok else {}
        frozen = ok and isinstance(kw.get('frozen'), ast.Constant) and kw['frozen'].value is True
        eq_on = 'eq' not in kw or (isinstance(kw['eq'], ast.Constant) and kw['eq'].value is True)
        unsafe = 'unsafe_hash' in kw and not (isinstance(kw['unsafe_hash'], ast.Constant) and kw['unsafe_hash'].value is False)
        rep.check(frozen and eq_on and not unsafe, R, w, name + ':frozen-dataclass',
                  '%s is @dataclass(frozen=True) with eq enabled: instances are immutable and the generated hash covers its fields' % name,
                  '%s is decorated with %s' % (name, [src(d) for d in cls.decorator_list]))
        explicit = [s for s in cls.body if (isinstance(s, ast.FunctionDef) and s.name in ('__setattr__', '__delattr__'))
                    or (isinstance(s, ast.Assign) and any(isinstance(t, ast.Name) and t.id == '__hash__' for t in s.targets))]
        rep.check(not explicit, R, w, name + ':no-setattr', '%s defines no __setattr__/__delattr__/__hash__ = ... of its own' % name,
                  '%s overrides %s' % (name, [getattr(s, 'name', '__hash__') for s in explicit]))
        rewriters = [s.name for s in cls.body if isinstance(s, ast.FunctionDef) and s.name in ('__post_init__', '__new__')
                     and any((isinstance(c_, ast.Call) and src(c_.func) in ('object.__setattr__', 'setattr', 'super().__setattr__'))
                             or (isinstance(c_, ast.Attribute) and isinstance(c_.ctx, ast.Store) and isinstance(c_.value, ast.Name) and c_.value.id == 'self')
                             for c_ in ast.walk(s))]
        rep.check(not rewriters, R, w, name + ':fields-as-given', '%s keeps the field values it is constructed with' % name,
                  '%s.%s stores other values into its fields than those given: a value read from a text prints as another text' % (name, rewriters[0] if rewriters else ''))
        hs = [s for s in cls.body if isinstance(s, ast.FunctionDef) and s.name == '__hash__']
        if hs:
            # a hand-written hash is fine iff it depends only on fields that equality compares
            body_nodes = [n for st_ in hs[0].body for n in ast.walk(st_)]      # (annotations of the signature are not part of the value)
            used = {n.attr for n in body_nodes if isinstance(n, ast.Attribute) and isinstance(n.value, ast.Name) and n.value.id == 'self'}
            other = {n.id for n in body_nodes if isinstance(n, ast.Name)} - {'self', 'hash', 'tuple', 'str'}
            fields = set(dataclass_fields(cls))
            rep.check(used <= fields and not other, R, w, name + ':explicit-hash', '%s.__hash__ depends only on fields compared by equality (%s)' % (name, sorted(used)),
                      '%s.__hash__ uses %s, equality compares %s' % (name, sorted(used | other), sorted(fields)))
        else:
            rep.ok(R, w, '%s has no hand-written __hash__: dataclass generates hash(fields)' % name)
        base_ok = [src(b) for b in cls.bases] == [CLASSES[name]]
        rep.check(base_ok, R, w, name + ':base', '%s derives from %s only' % (name, CLASSES[name]), '%s bases are %s' % (name, [src(b) for b in cls.bases]))
        for b in cls.bases:
            bc = mod.get(src(b), required=False)
            if bc is not None:
                bad = [s.name for s in bc.body if isinstance(s, ast.FunctionDef) and s.name in ('__hash__', '__eq__', '__setattr__')]
                rep.check(not bad, R, '%s:%s %s' % (REL, bc.lineno, bc.name), bc.name + ':no-eq-hash',
                          'base class %s defines no __eq__/__hash__' % bc.name, 'base class %s defines %s' % (bc.name, bad))


def r_eq(mod, rep, R='R13.2'):
    for name, base in CLASSES.items():
        cls = mod.get(name)
        fields = dataclass_fields(cls)
        fn = mod.get(name + '.__eq__', required=False)
        if fn is None:
            # no __eq__ of its own: the dataclass generates the field-wise one, which has no branch for a text -- the value no
            # longer equals its own canonical text (erasing a feature by name, `cat == "NP"`, the tables keyed by texts)
            rep.check(False, R, '%s:%s %s' % (REL, cls.lineno, name), name + ':__eq__', '',
                      '%s has no __eq__ of its own: the generated one compares fields only, so a value is no longer equal to its canonical text' % name)
            continue
        w = '%s:%s %s.__eq__' % (REL, fn.lineno, name)
        o = fn.args.args[1].arg
        is_str = bf.T(('call', N('isinstance'), (N(o), N('str')), ()))
        is_cls = bf.T(('call', N('isinstance'), (N(o), N(name)), ()))
        if base == 'Category':
            text_eq = bf.T(('cmp', '==', ('call', N('str'), (N('self'),), ()), N(o)))
        else:
            text_eq = bf.T(('cmp', '==', N('self'), ('call', A(N('Feature'), 'parse'), (N(o),), ())))
        same = bf.AND(*[bf.T(('cmp', '==', A(N('self'), f), A(N(o), f))) for f in fields])
        # a str is never an instance of the class: rows claiming both are not possible inputs
        cons0 = lambda sigma: not (sigma.get(is_str[1], False) and sigma.get(is_cls[1], False)) if is_str[0] == 'atom' and is_cls[0] == 'atom' else True
        ident = logic.formula(('cmp', 'is', N(o), N('self')))[1]
        field_atoms = [logic.formula(('cmp', '==', A(N('self'), f), A(N(o), f)))[1] for f in fields]

        def cons(sigma, cons0=cons0, ident=ident, field_atoms=field_atoms, is_str=is_str, is_cls=is_cls):
            # `other is self` (an identity shortcut): then other is of this class, is no text, and every field equals itself
            if sigma.get(ident, False):
                if sigma.get(is_str[1], False) or not sigma.get(is_cls[1], True) or any(not sigma.get(fa, True) for fa in field_atoms):
                    return False
            return cons0(sigma)
        ok, detail = bf.matches(fn, bf.ITE(is_str, text_eq, bf.AND(is_cls, same)), cons, inline_also=('items', 'values', 'keys'))
        if not ok and base != 'Category':
            # the same comparison with a text operand parsed in place (`other = parse(other) if isinstance(other, str)
            # else other`, then the class / field tests on that value) instead of re-dispatching `self == parse(other)`
            P_ = ('call', A(N('Feature'), 'parse'), (N(o),), ())
            is_cls_p = bf.T(('call', N('isinstance'), (P_, N(name)), ()))
            same_p = bf.AND(*[bf.T(('cmp', '==', A(N('self'), f), A(P_, f))) for f in fields])
            ok2, detail2 = bf.matches(fn, bf.ITE(is_str, bf.AND(is_cls_p, same_p), bf.AND(is_cls, same)), cons, inline_also=('items', 'values', 'keys'))
            if ok2:
                ok, detail = ok2, detail2 + '; text operand parsed in place'
        rep.check(ok, R, w, name + ':eq:fields',
                  '%s equality: a str compares with %s, another class is unequal, the same class compares exactly the declared (hashed) fields %s (%s)'
                  % (name, 'the canonical text str(self)' if base == 'Category' else 'the parsed feature', fields, detail),
                  '%s.__eq__ is not {str: canonical text; other class: False; same class: all of %s equal}: %s' % (name, fields, detail))


def r_xor(mod, rep, R='R13.3'):
    """`^` (equal up to features): same class, and for atoms equal base, for functors equal slash and both sides `^`"""
    spec = {'Atom': lambda s, o: [('cmp', '==', A(s, 'base'), A(o, 'base'))],
            'Functor': lambda s, o: [('binop', '^', A(s, 'left'), A(o, 'left')), ('cmp', '==', A(s, 'slash'), A(o, 'slash')),
                                     ('binop', '^', A(s, 'right'), A(o, 'right'))]}
    for name, mk in spec.items():
        fn = mod.get(name + '.__xor__')
        w = '%s:%s %s.__xor__' % (REL, fn.lineno, name)
        o = fn.args.args[1].arg
        is_cls = bf.T(('call', N('isinstance'), (N(o), N(name)), ()))
        want = bf.AND(is_cls, *[bf.T(t) for t in mk(N('self'), N(o))])
        ok, detail = bf.matches(fn, want)
        rep.check(ok, R, w, name + ':xor:fields', '%s ^ other: other is a %s and %s (%s)' % (name, name, ' and '.join(show(t) for t in mk(N('self'), N(o))), detail),
                  '%s ^ other is not {same class and %s}: %s' % (name, ' and '.join(show(t) for t in mk(N('self'), N(o))), detail))


def _erasure_impl(mod, rep, R):
    """-> (method name, how the names are passed: 'star' | 'one', names parameter) of the per-class erasure methods.
    Either Atom / Functor define clear_features(*names) themselves, or Category.clear_features(*names) forwards the names
    to one method that both define; then the names must arrive as something that can be searched more than once."""
    direct = all(mod.get(c + '.clear_features', required=False) is not None and
                 any(isinstance(s_, ast.FunctionDef) and s_.name == 'clear_features' for s_ in mod.get(c).body) for c in ('Atom', 'Functor'))
    if direct:
        return 'clear_features', 'star'
    base = None
    for s_ in mod.get('Category').body:
        if isinstance(s_, ast.FunctionDef) and s_.name == 'clear_features':
            base = s_
    if base is None or base.args.vararg is None:
        raise AnalysisError('%s: clear_features(*names) is defined neither on Atom and Functor nor on Category' % REL)
    va = base.args.vararg.arg
    w = '%s:%s Category.clear_features' % (REL, base.lineno)
    vals = path_values(SymExec(base, inline=False).run())
    meth = how = None
    ok = bool(vals)
    for conds, v in vals:
        if v[0] == 'call' and v[1][0] == 'attr' and v[1][1] == N('self') and len(v[2]) == 1 and not v[3]:
            arg = v[2][0]
            names = arg[1] if arg[0] == 'star' else arg
            meth, how = v[1][2], ('star' if arg[0] == 'star' else 'one')
            # a tuple (the varargs themselves) or a collection made from them can be searched at every leaf; a map / filter /
            # generator / iterator is used up by the first leaf that looks at it
            reiterable = names == N(va) or (names[0] == 'call' and names[1] in (N('tuple'), N('frozenset'), N('set'), N('list')) and names[2] and N(va) in set(subterms(names[2][0])))
            one_shot = names[0] == 'genexp' or (names[0] == 'call' and names[1] in (N('map'), N('filter'), N('iter'), N('zip')))
            rep.check(reiterable and not one_shot, R, w, 'Category:clear_features:names',
                      'the names to erase reach every atom as a collection that can be searched repeatedly (%s)' % show(names)[:50],
                      'the names to erase are handed down as %s: a one-shot iterator is consumed by the first atom that searches it, later atoms keep their features' % show(names)[:70])
        else:
            ok = False
    if not ok or meth is None:
        raise AnalysisError('%s: Category.clear_features does not forward to one per-class method' % REL)
    return meth, how


def r_clear(mod, rep, R='R13.4'):
    meth, how = _erasure_impl(mod, rep, R)
    fn = mod.get('Atom.' + meth)
    w = '%s:%s Atom.%s' % (REL, fn.lineno, meth)
    va = fn.args.vararg.arg if fn.args.vararg else (fn.args.args[1].arg if len(fn.args.args) > 1 else None)
    hit = miss = None
    test = logic.formula(('cmp', 'in', A(N('self'), 'feature'), N(va)))
    for conds, v in path_values(SymExec(fn).run()):
        if logic.implied(conds, test):
            ok_ = v in (('call', N('Atom'), (A(N('self'), 'base'),), ()), ('call', N('Atom'), (), (('base', A(N('self'), 'base')),)))
            hit = ok_ if hit is None else (hit and ok_)
        elif logic.excluded(conds, test):
            ok_ = v == N('self')
            miss = ok_ if miss is None else (miss and ok_)
        else:
            hit = miss = False
    rep.check(bool(hit) and bool(miss), R, w, 'Atom:clear_features',
              'an atom drops its feature exactly when the feature is among the names to erase, and is otherwise returned unchanged',
              'Atom.%s does not return Atom(base) / self on the membership test of its feature' % meth)
    fn = mod.get('Functor.' + meth)
    w = '%s:%s Functor.%s' % (REL, fn.lineno, meth)
    va = fn.args.vararg.arg if fn.args.vararg else (fn.args.args[1].arg if len(fn.args.args) > 1 else None)
    ps = SymExec(fn, no_inline=(meth,)).run()
    arg = ('star', N(va)) if fn.args.vararg else N(va)
    rec = lambda side: ('call', A(A(N('self'), side), meth), (arg,), ())
    wants = [('call', A(N('self'), 'functor'), (rec('left'), rec('right')), ()),
             ('call', N('Functor'), (rec('left'), A(N('self'), 'slash'), rec('right')), ())]
    ok = len(ps) == 1 and ps[0][0].ret in wants
    if not ok and ps:
        # (a) the functor itself is handed back when both sides came back as the very objects they were
        def same_side(conds, side):
            return any(c == ('cmp', 'is', rec(side), A(N('self'), side)) and pol for c, pol, _ in conds)
        ok = all((st_.ret in wants) or (st_.ret == N('self') and same_side(st_.conds, 'left') and same_side(st_.conds, 'right'))
                 for st_, o_ in ps if o_ == 'return') and any(st_.ret in wants for st_, o_ in ps)
    if not ok and len(ps) == 1 and ps[0][0].ret is not None:
        # (b) through a structural map shared with other walks: self.map(lambda atom: atom.clear_features(*args)), where
        # Atom.map(f) is f(self) and Functor.map(f) rebuilds the functor from left.map(f) and right.map(f)
        import re as _re
        r_ = ps[0][0].ret
        if r_[0] == 'call' and r_[1] == A(N('self'), 'functor') and len(r_[2]) == 2 and all(x[0] == 'call' and x[1][0] == 'attr' and len(x[2]) == 1 and x[2][0][0] == 'lambda' for x in r_[2]):
            l_, rr_ = r_[2]
            m2 = l_[1][2]
            lam = l_[2][0]
            txt = lam[1].replace(' ', '')
            okl = l_[1] == A(A(N('self'), 'left'), m2) and rr_[1] == A(A(N('self'), 'right'), m2) and rr_[2] == l_[2] and \
                bool(_re.match(r'^lambda(\w+):\1\.%s\(%s%s\)$' % (_re.escape(meth), '\\*' if fn.args.vararg else '', _re.escape(va)), txt))
            am, fm = mod.get('Atom.' + m2, required=False), mod.get('Functor.' + m2, required=False)
            if okl and am is not None and fm is not None and len(am.args.args) == 2 and len(fm.args.args) == 2:
                fa, ff = am.args.args[1].arg, fm.args.args[1].arg
                pa = [st_.ret for st_, o_ in SymExec(am).run() if o_ == 'return']
                pf = [st_.ret for st_, o_ in SymExec(fm, no_inline=(m2,)).run() if o_ == 'return']
                ok = pa == [('call', N(fa), (N('self'),), ())] and pf == [('call', A(N('self'), 'functor'), (
                    ('call', A(A(N('self'), 'left'), m2), (N(ff),), ()), ('call', A(A(N('self'), 'right'), m2), (N(ff),), ())), ())]
    rep.check(ok, R, w, 'Functor:clear_features', 'a functor is rebuilt with the same slash from the erased left and right sides',
              'Functor.%s returns %s' % (meth, show(ps[0][0].ret) if ps and ps[0][0].ret else '?'))
    r_functor_builders(mod, rep, R)


def r_functor_builders(mod, rep, R='R13.4'):
    """the two ways the package rebuilds a functor: x.functor(l, r) keeps x's own slash; the operators / and | build the
    forward and the backward functor"""
    fn = mod.get('Functor.functor')
    w = '%s:%s Functor.functor' % (REL, fn.lineno)
    lam = [n for n in ast.walk(fn) if isinstance(n, ast.Lambda)]
    ok = len(lam) == 1 and len(lam[0].args.args) == 2
    if ok:
        a, b = [x.arg for x in lam[0].args.args]
        body_ = src(lam[0].body).replace(' ', '')
        ok = body_ in ('Functor(%s,self.slash,%s)' % (a, b), 'replace(self,left=%s,right=%s)' % (a, b), 'dataclasses.replace(self,left=%s,right=%s)' % (a, b),
                       'replace(self,right=%s,left=%s)' % (b, a), 'Functor(left=%s,slash=self.slash,right=%s)' % (a, b)) and \
            any('property' in src(d) for d in fn.decorator_list)
    if not ok and not lam and not fn.decorator_list and len(fn.args.args) == 3:
        # a plain method: def functor(self, l, r): return Functor(l, self.slash, r)
        me, a, b = [x.arg for x in fn.args.args]
        rets = [r_ for r_ in ast.walk(fn) if isinstance(r_, ast.Return) and r_.value is not None]
        body_ = src(rets[0].value).replace(' ', '') if len(rets) == 1 else ''
        ok = body_ in ('Functor(%s,%s.slash,%s)' % (a, me, b), 'Functor(left=%s,slash=%s.slash,right=%s)' % (a, me, b),
                       'replace(%s,left=%s,right=%s)' % (me, a, b), 'dataclasses.replace(%s,left=%s,right=%s)' % (me, a, b))
    rep.check(ok, R, w, 'Functor:functor', 'x.functor(l, r) builds Functor(l, x.slash, r)', 'Functor.functor is %s' % (src(lam[0]) if lam else '?'))
    # the slash operators used throughout the grammars
    for op, slash in (('__truediv__', '/'), ('__or__', '\\')):
        fn = mod.get('Category.' + op)
        o = fn.args.args[1].arg
        ps = SymExec(fn).run()
        ok = len(ps) == 1 and ps[0][0].ret == ('call', N('Functor'), (N('self'), C(slash), N(o)), ())
        rep.check(ok, R, '%s:%s Category.%s' % (REL, fn.lineno, op), 'Category:' + op, 'Category.%s builds Functor(self, %r, other)' % (op, slash),
                  'Category.%s returns %s' % (op, show(ps[0][0].ret) if ps and ps[0][0].ret else '?'))


def r_shape_predicates(mod, rep, R='R13.2'):
    """is_atomic / is_functor are complementary constants per class: stated by a property that returns the constant or by
    a plain class constant (not an annotated one: that would be a dataclass field), or derived in the base class as the
    negation of the other one"""
    def own(cls_name, prop):
        cls = mod.get(cls_name)
        for s_ in cls.body:
            if isinstance(s_, ast.FunctionDef) and s_.name == prop:
                ps = SymExec(s_).run()
                if len(ps) == 1 and ps[0][0].ret is not None and any('property' in src(d) for d in s_.decorator_list):
                    return ps[0][0].ret, s_
                return ('sym', 'unreadable'), s_
            if isinstance(s_, ast.Assign) and any(isinstance(t, ast.Name) and t.id == prop for t in s_.targets) and isinstance(s_.value, ast.Constant):
                return C(s_.value.value), s_
            if isinstance(s_, ast.AnnAssign) and isinstance(s_.target, ast.Name) and s_.target.id == prop:
                if 'ClassVar' in src(s_.annotation) and isinstance(s_.value, ast.Constant):
                    return C(s_.value.value), s_
                return ('sym', 'field'), s_
        return None, None

    def value(cls_name, prop, depth=0):
        v, node = own(cls_name, prop)
        if v is None and depth < 3:
            bv, bnode = own('Category', prop)
            if bv is not None and bv[0] == 'unop' and bv[1] == 'not' and bv[2][0] == 'attr' and bv[2][1] == N('self'):
                inner, _ = value(cls_name, bv[2][2], depth + 1)
                if inner is not None and inner[0] == 'const' and isinstance(inner[1], bool):
                    return C(not inner[1]), bnode
            return bv, bnode
        return v, node
    for cls, want in (('Atom', {'is_atomic': True, 'is_functor': False}), ('Functor', {'is_atomic': False, 'is_functor': True})):
        for prop, val in want.items():
            v, node = value(cls, prop)
            rep.check(v == C(val), R, '%s:%s %s.%s' % (REL, getattr(node, 'lineno', mod.get(cls).lineno), cls, prop), '%s:%s' % (cls, prop),
                      '%s.%s is the constant %s' % (cls, prop, val), '%s.%s is not the constant %s (%s)' % (cls, prop, val, show(v) if v else 'undefined'))
    for prop, other in (('is_functor', 'is_atomic'), ('is_atomic', 'is_functor')):
        fn = mod.get('Category.' + prop)
        ps = SymExec(fn).run()
        ok = len(ps) == 1 and ps[0][0].ret == ('unop', 'not', A(N('self'), other))
        rep.check(ok, R, '%s:%s Category.%s' % (REL, fn.lineno, prop), 'Category:' + prop, 'Category.%s is not self.%s' % (prop, other),
                  'Category.%s is %s' % (prop, show(ps[0][0].ret) if ps and ps[0][0].ret else '?'))


def r_results_are_values(repo, rep, R='R13.5'):
    """what a grammar rule hands back is a category object, not its text: a str equals the category (== falls back to the canonical
    text) but hashes differently and has none of its methods, so the id table gives the "same" category a second id and the
    next combination raises."""
    from .. import symcat as sc, rules_grammar as rg
    from ..pygrammar import combinator_functions
    from ..pysym import show
    n = 0
    for grel in (rg.EN, rg.JA):
        g = repo.module(grel)
        for name, fn in combinator_functions(g):
            for o in sc.outcomes(fn):
                if not isinstance(o.result, dict):
                    continue
                t = o.result['cat']
                text = None
                if t[0] == 'const' and isinstance(t[1], str):
                    text = t[1]
                elif t[0] == 'name':
                    a = g.assign(t[1], required=False)
                    if a is not None and isinstance(getattr(a, 'value', None), ast.Constant) and isinstance(a.value.value, str):
                        text = a.value.value
                n += 1
                rep.check(text is None, R, '%s:%s %s' % (grel, getattr(o.node, 'lineno', fn.lineno), name), '%s:%s:result-is-category' % (grel, name),
                          '%s: the result category is a category object (%s)' % (name, show(t)[:40]),
                          '%s: the result category is the text %r, not a category object: it compares equal to the category but hashes as a '
                          'str (a second id in the parser\'s table) and has no clear_features / left / right' % (name, text))
    return n


def check(repo, rep, tier):
    mod = repo.module(REL)
    rep.rule('R13.1', 'frozen dataclasses, eq enabled, no explicit __hash__: generated hash covers exactly the declared fields')
    rep.rule('R13.2', '__eq__: same class -> exactly the declared fields; other class -> False; str -> canonical text / parsed feature')
    rep.rule('R13.3', '__xor__ = __eq__ components minus feature, recursing with ^, slash compared with ==')
    rep.rule('R13.4', 'clear_features: Atom(base) iff feature in args else self; Functor rebuilt with same slash from both recursive results')
    r_dataclass(mod, rep)
    r_eq(mod, rep)
    r_xor(mod, rep)
    r_clear(mod, rep)
    r_shape_predicates(mod, rep)
    from ..lints import r_module_state
    r_module_state(repo, rep, 'R13.4', ['depccg/cat.py', 'depccg/grammar/en.py'],
                   'an erasure remembered under the category alone answers a later request for other feature names')
    rep.rule('R13.5', 'grammar rules return category objects, never the text of one (equal by ==, but a different hash and no methods)')
    rep.floor('rule results that are category objects', r_results_are_values(repo, rep), 30)
    rep.floor('value classes', len(CLASSES), 4)
