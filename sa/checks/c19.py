"""C19 -- whatever the parser can return can be rendered in every offered format."""
import ast

from ..core import AnalysisError, src, qualname_of, closure_walk
from ..pysym import SymExec, show, subterms, subterms_guarded, all_calls, guards_of
from .. import logic
from ..rules_pyx import N, C, A
from ..pygrammar import combinator_functions, returned_strings
from .. import symcat as sc
from .. import rules_grammar as rg
from .. import rules_unif as ru
from .. import rules_pyx as rp

EXPLANATION = (
    'Closure and totality rules over the printers: R19.1 every label the rule functions can return (string constants of '
    'the CombinatorResult constructions of both grammars, the English unary labels, every return of the Japanese unary '
    'label function) is a key of the Prolog table that is indexed with it, at the attribute the index expression reads, '
    'on the node kinds that reach the index; R19.2 every format in either CLI choices list is dispatched by to_string; '
    'R19.3 printers read token fields other than `word` only through .get / iteration / membership-guarded access (the '
    'failure placeholder token has only `word`, and Token.__getattr__ raises KeyError); R19.4 feature members used on '
    '`.feature` values exist on every feature class or are guarded by a type test, and shape-specific attribute reads on '
    'category parameters are shape-guarded (the placeholder category is a plain NP).  Value-dependent failures (e.g. '
    'XML-illegal characters) and the ccg2lambda pipeline (needs nltk) are not decided.'
    ' Failure is reported exactly when no tree was found (no empty result list reaches a printer); no default argument of the printers evaluates the language at import time.'
    ' Third round: elements taken off token work lists (tokens.pop(0), next(tokens)) are tokens for the placeholder-safe-access rule.'
    ' Fourth round: one-shot iterators bound before a loop and used inside it (R19.5, with an embedded example); the keys of the Prolog tables are read through comprehension entries; the gather rule of C11.'
    ' Fifth round: R19.6 reads of unassigned locals (path-confirmed), the label rule of retrieve_tree and the conll head rule.'
    ' Sixth and seventh round: R19.6 also requires that printers leave the results alone and format only templates; every tree of an n-best list is built from token 0 on (R19.3).'
    ' Eighth round: R19.4 -- where a printer reads .cat.left / .right under nothing but a label test, every rule that emits the label returns a functor.')
TRUSTED = ['CPython ast', 'sa/pysym.py path walker', 'label extraction shared with C03/C04']

PROLOG = 'depccg/printer/prolog.py'
DICT_METHODS = {'get', 'items', 'keys', 'values', 'pop', 'copy', 'update', 'setdefault', '__contains__'}


def grammar_labels(repo):
    """-> {'en': {'binary': {(string, symbol)}, 'unary': {...}}, 'ja': ...}"""
    out = {}
    for lang, rel in (('en', rg.EN), ('ja', rg.JA)):
        mod = repo.module(rel)
        b = set()
        for name, fn in combinator_functions(mod):
            for o in sc.outcomes(fn):
                if isinstance(o.result, dict):
                    s, y = o.result['op_string'], o.result['op_symbol']
                    if s[0] != 'const' or y[0] != 'const':
                        raise AnalysisError('%s:%s label is not a constant' % (rel, name))
                    b.add((s[1], y[1]))
        u = set()
        au = mod.get('apply_unary_rules')
        for st, o in SymExec(au, unroll=1).run():
            for call in all_calls(st, N('CombinatorResult')):
                if True:
                    kw = dict(call[3])
                    pos = list(call[2])
                    ss = kw.get('op_string', pos[1] if len(pos) > 1 else None)
                    yy = kw.get('op_symbol', pos[2] if len(pos) > 2 else None)
                    u |= {(a, b_) for a in label_values(mod, ss) for b_ in label_values(mod, yy)}
        out[lang] = {'binary': b, 'unary': u}
    return out


def label_values(mod, t):
    if t[0] == 'const':
        return {t[1]}
    if t[0] == 'ifexp':
        return label_values(mod, t[2]) | label_values(mod, t[3])
    if t[0] == 'call' and t[1][0] == 'name':
        fn = mod.get(t[1][1], required=False)
        if fn is not None:
            return {v for v, _ in returned_strings(fn)}
    raise AnalysisError('%s: cannot enumerate label values of %s' % (mod.rel, show(t)))


def table_uses(mod, table):
    """-> [(fn, subscript node, index attribute)]"""
    out = []
    for n in ast.walk(mod.tree):
        if isinstance(n, ast.Subscript) and isinstance(n.value, ast.Name) and n.value.id == table:
            fn = None
            from ..core import enclosing_function
            fn = enclosing_function(n)
            idx = n.slice
            attr = idx.attr if isinstance(idx, ast.Attribute) else None
            if attr is None and isinstance(idx, ast.Name) and fn is not None:
                # a local that holds the attribute: `op_string = node.op_string` ... TABLE[op_string]
                binds = [a_ for a_ in ast.walk(fn) if isinstance(a_, ast.Assign) and any(isinstance(t_, ast.Name) and t_.id == idx.id for t_ in a_.targets)]
                if len(binds) == 1 and isinstance(binds[0].value, ast.Attribute):
                    attr = binds[0].value.attr
            out.append((fn, n, attr))
    return out


def r_label_closure(repo, rep, R='R19.1'):
    labels = grammar_labels(repo)
    mod = repo.module(PROLOG)
    # the two label tables by what they are indexed with: the English printer looks rule names (op_string) up, the Japanese one
    # rule symbols (op_symbol) -- whatever the tables are called
    by_role = {}
    for st_ in mod.tree.body:
        if isinstance(st_, (ast.Assign, ast.AnnAssign)) and getattr(st_, 'value', None) is not None:
            for t_ in (st_.targets if isinstance(st_, ast.Assign) else [st_.target]):
                if isinstance(t_, ast.Name):
                    attrs_ = {a_ for _f, _n, a_ in table_uses(mod, t_.id)}
                    if attrs_ == {'op_string'}:
                        by_role.setdefault('en', []).append(t_.id)
                    elif attrs_ == {'op_symbol'}:
                        by_role.setdefault('ja', []).append(t_.id)
    for lang, table in (('en', '_op_mapping'), ('ja', '_ja_combinators')):
        if mod.assign(table, required=False) is None and len(by_role.get(lang, [])) == 1:
            table = by_role[lang][0]
        val = mod.assign(table)
        from ..rules_grammar import const_dict_keys
        klist = const_dict_keys(mod, val) if val is not None else None
        if klist is None:
            raise AnalysisError('%s: %s is not a dictionary whose keys can be read off the source' % (PROLOG, table))
        keys = set(klist)
        uses = table_uses(mod, table)
        if not uses:
            raise AnalysisError('%s: table %s is never indexed' % (PROLOG, table))
        for fn, node, attr in uses:
            w = '%s:%s %s' % (PROLOG, node.lineno, qualname_of(fn))
            if attr not in ('op_string', 'op_symbol'):
                raise AnalysisError('%s: %s is indexed with %s' % (w, table, src(node.slice)))
            pick = 0 if attr == 'op_string' else 1
            # which node kinds reach this index?  (paths of the enclosing function that evaluate it)
            reach_unary = True
            p0 = fn.args.args[0].arg
            for st, o in SymExec(fn, unroll=1, watch_attrs=(attr,)).run():
                hit = [e for e in st.events if e[0] == 'getattr' and e[2] == attr]
                if not hit:
                    continue
                conds = [(e[1], e[2]) for e in st.events if e[0] == 'branch']
                # conditions before the first read
                i = st.events.index(hit[0])
                before = [(e[1], e[2]) for e in st.events[:i] if e[0] == 'branch']
                if (A(N(p0), 'is_unary'), False) in before:
                    reach_unary = False
                else:
                    reach_unary = True
                    break
            need = {l[pick] for l in labels[lang]['binary']}
            if reach_unary:
                need |= {l[pick] for l in labels[lang]['unary']}
            missing = sorted(need - keys)
            rep.check(not missing, R, w, '%s:%s:closure' % (PROLOG, table),
                      '%s[node.%s] is defined for all %d labels the %s grammar can put on %s nodes'
                      % (table, attr, len(need), lang, 'binary and unary' if reach_unary else 'binary'),
                      '%s[node.%s] raises KeyError for the labels %s which the %s grammar can emit' % (table, attr, missing, lang))
    rep.note('labels', {k: {kk: sorted(vv) for kk, vv in v.items()} for k, v in labels.items()})
    return labels


def r_dispatch(repo, rep, R='R19.2'):
    from ..cli import cli_options
    am, fn, options = cli_options(repo)
    choices = {}
    for o in options:
        if '--format' in o.flags:
            chs = o.strings('choices', am)
            if chs is None:
                raise AnalysisError('depccg/argparse.py:%s the --format choices cannot be read off the source' % getattr(o.node, 'lineno', '?'))
            choices[o.lang or show(o.receiver)[:40]] = (chs, o.kw.get('default'), o.node)
    if len(choices) != 2:
        raise AnalysisError('depccg/argparse.py: expected two --format options, found %d' % len(choices))
    pm = repo.module('depccg/printer/__init__.py')
    ts = pm.get('to_string')
    fparam = 'format'
    handled = set()
    for n in ast.walk(ts):
        if isinstance(n, ast.Compare) and isinstance(n.left, ast.Name) and n.left.id == fparam and len(n.ops) == 1:
            c = n.comparators[0]
            if isinstance(n.ops[0], ast.Eq) and isinstance(c, ast.Constant):
                handled.add(c.value)
            elif isinstance(n.ops[0], ast.In) and isinstance(c, (ast.Tuple, ast.List, ast.Set)):
                # membership tests that only prepare something do not dispatch
                pass
    # a format counts as dispatched when an `== 'fmt'` branch returns, or it is a key of the formatter table
    returning = set()
    for st, o in SymExec(ts, unroll=1).run():
        if o != 'return':
            continue
        for c, pol, _ in st.conds:
            f = logic.formula(c)
            if not pol:
                f = logic.neg(f)
            if f[0] != 'atom':
                continue
            if f[1][0] == 'eq' and N(fparam) in f[1][1:]:
                other = [x for x in f[1][1:] if x != N(fparam)]
                if other and other[0][0] == 'const':
                    returning.add(other[0][1])
            if f[1][0] == 'in' and f[1][1] == N(fparam) and f[1][2][0] in ('tuple', 'list', 'set') and \
                    all(x[0] == 'const' for x in f[1][2][1]):
                # a membership test leading to a return dispatches each member -- unless a later equality test on the
                # same path narrows it (then that test is what is recorded above)
                if not any(logic.formula(c2)[0] == 'atom' and logic.formula(c2)[1][0] == 'eq' and N(fparam) in logic.formula(c2)[1][1:]
                           for c2, p2, _ in st.conds if p2):
                    returning |= {x[1] for x in f[1][2][1]}
    fm = pm.assign('_formatters')
    fkeys = {k.value for k in fm.keys if isinstance(k, ast.Constant)} if isinstance(fm, ast.Dict) else set()
    uses_table = any(isinstance(n, ast.Subscript) and src(n.value) == '_formatters' and src(n.slice) == fparam for n in closure_walk(ts)) or \
        any(isinstance(n, ast.Call) and src(n.func) == '_formatters.get' and n.args and src(n.args[0]) == fparam for n in closure_walk(ts))
    ok_formats = returning | (fkeys if uses_table else set())
    for parser, (chs, default, node) in sorted(choices.items()):
        missing = [c for c in chs if c not in ok_formats]
        rep.check(not missing, R, 'depccg/argparse.py:%s parse_args' % node.lineno, 'argparse:%s:formats' % parser,
                  'every --format choice of %s (%d) is dispatched by to_string' % (parser, len(chs)),
                  '--format choices %s of %s are not handled by to_string (KeyError: unsupported format)' % (missing, parser))
        d = default[1] if default is not None and default[0] == 'const' else None
        rep.check(d in chs, R, 'depccg/argparse.py:%s parse_args' % node.lineno, 'argparse:%s:default' % parser,
                  'the default format %r of %s is one of its choices' % (d, parser), 'default format %r is not among the choices' % d)
    # the failure placeholder's score is -inf: serialisers of the score must accept non-finite floats
    for n in ast.walk(pm.tree):
        if isinstance(n, ast.Call) and src(n.func) in ('json.dumps', 'json.dump'):
            kw = {k.arg: k.value for k in n.keywords}
            strict = 'allow_nan' in kw and not (isinstance(kw['allow_nan'], ast.Constant) and kw['allow_nan'].value is True)
            rep.check(not strict, R, '%s:%s to_string' % (pm.rel, n.lineno), 'to_string:json:non-finite',
                      'the json format can serialise the placeholder\'s score (-inf)', 'json serialisation refuses non-finite floats (allow_nan=%s): a failed sentence (score -inf) aborts the whole batch' % src(kw['allow_nan']) if strict else '')
    # imported encoders exist
    for k, v in zip(fm.keys, fm.values):
        rep.check(isinstance(v, ast.Name), R, '%s:%s <module>' % (pm.rel, v.lineno), 'formatters:%s' % src(k), 'formatter %s is a named encoder' % src(k),
                  'formatter %s is %s' % (src(k), src(v)))
    return choices


def tokens_like(t):
    """a sequence of the tree's tokens (possibly wrapped: list(enumerate(tree.tokens)), a work list named tokens)"""
    if t[0] == 'attr' and t[2] == 'tokens':
        return True
    if t[0] == 'name' and 'tokens' in t[1]:
        return True
    if t[0] == 'call' and t[1][0] == 'name' and t[1][1] in ('zip', 'enumerate', 'list', 'iter', 'reversed', 'sorted', 'tuple', 'deque'):
        return any(tokens_like(a) for a in t[2])
    if t[0] == 'mutated':
        return tokens_like(t[1])
    return False


def token_like(t):
    if t[0] == 'attr' and t[2] == 'token':
        return True
    if t[0] in ('elem', 'unpack'):
        inner = t[1]
        if token_like(inner) or tokens_like(inner):
            return True
        # an element taken off a token work list: tokens.pop(0), next(tokens)
        if inner[0] == 'call' and inner[1][0] == 'attr' and inner[1][2] in ('pop', 'popleft') and tokens_like(inner[1][1]):
            return True
        if inner[0] == 'call' and inner[1] == ('name', 'next') and inner[2] and tokens_like(inner[2][0]):
            return True
        return False
    if t[0] == 'call' and t[1][0] == 'attr' and t[1][2] in ('pop', 'popleft') and tokens_like(t[1][1]):
        return True
    if t[0] == 'sub' and tokens_like(t[1]) and not (t[2][0] == 'const' and isinstance(t[2][1], str)):
        return True
    return False


def token_reads(fn):
    """-> (unguarded {(receiver, key): term}, number of direct reads)"""
    bad = {}
    reads = 0
    for st, o in SymExec(fn, unroll=1).run():
        trace = [(e[1], e[2]) for e in st.events if e[0] == 'branch']
        terms = []
        for e in st.events:
            terms += [x for x in e[1:-1] if isinstance(x, tuple)]
        if st.ret is not None:
            terms.append(st.ret)
        for t in terms:
            for s_, inner in subterms_guarded(t):
                key = None
                if s_[0] == 'attr' and token_like(s_[1]) and s_[2] not in DICT_METHODS and not s_[2].startswith('__'):
                    key = s_[2]
                elif s_[0] == 'sub' and token_like(s_[1]) and s_[2][0] == 'const' and isinstance(s_[2][1], str):
                    key = s_[2][1]
                if key is None:
                    continue
                reads += 1
                if key == 'word':
                    continue
                guarded = any(pol and c == ('cmp', 'in', C(key), s_[1]) for c, pol in ru.flatten_guards(trace + list(inner)))
                if not guarded:
                    bad[(show(s_[1]), key)] = s_
    return bad, reads


TOKEN_EXAMPLE = """
def encode(node):
    token = node.token
    a = token.get('chunk', 'XX') + token['word']
    if 'entity' in token:
        a += token['entity']
    return a + token.lemma + token['pos']
"""


def r_token_access(repo, rep, R='R19.3'):
    from ..core import attach_parents
    ex = attach_parents(ast.parse(TOKEN_EXAMPLE))
    bad, reads = token_reads(ex.body[0])
    if sorted(k for _, k in bad) != ['lemma', 'pos']:
        raise AnalysisError('embedded positive example for R19.3: expected unguarded reads of lemma and pos, analysis reports %s' % sorted(bad))
    rep.ok(R, 'sa/checks/c19.py TOKEN_EXAMPLE', 'the analysis flags token.lemma / token[\'pos\'] and accepts .get(), token[\'word\'] and membership-guarded reads')
    n = 0
    for rel in repo.py_files('depccg/printer'):
        mod = repo.module(rel)
        for fn in [x for x in ast.walk(mod.tree) if isinstance(x, ast.FunctionDef)]:
            bad, reads = token_reads(fn)
            n += 1
            w = '%s:%s %s' % (rel, fn.lineno, qualname_of(fn))
            for (recv, key), s_ in sorted(bad.items()):
                rep.violation(R, w, '%s:%s:token-field:%s' % (rel, qualname_of(fn), key),
                              '%s reads token field %r directly (`%s`): the failure placeholder token has only `word`, so this raises KeyError and aborts the batch'
                              % (qualname_of(fn), key, show(s_)))
            if not bad:
                rep.ok(R, w, '%s reads token fields only through .get()/iteration/guarded access (%d direct reads, all of `word`)' % (qualname_of(fn), reads),
                       nontrivial=reads > 0)
    return n


def r_feature_and_shape(repo, rep, R='R19.4'):
    cat = repo.module('depccg/cat.py')
    members = {}
    for c in ('UnaryFeature', 'TernaryFeature'):
        ms = set()
        for s in cat.get(c).body + cat.get('Feature').body:
            if isinstance(s, ast.FunctionDef):
                ms.add(s.name)
            if isinstance(s, ast.AnnAssign) and isinstance(s.target, ast.Name):
                ms.add(s.target.id)
        members[c] = ms
    allm = tuple(sorted(set().union(*members.values()) | {'items', 'values', 'keys', 'value'}))
    nfeat = nshape = 0
    for rel in repo.py_files('depccg/printer'):
        mod = repo.module(rel)
        for fn in [x for x in ast.walk(mod.tree) if isinstance(x, ast.FunctionDef)]:
            seen = set()
            for st, o in SymExec(fn, unroll=1, watch_attrs=allm).run():
                conds = [(e[1], e[2]) for e in st.events if e[0] == 'branch']
                for e in st.events:
                    if e[0] != 'getattr' or id(e[3]) in seen:
                        continue
                    recv, attr, node = e[1], e[2], e[3]
                    if not (recv[0] == 'attr' and recv[2] == 'feature'):
                        continue
                    seen.add(id(node))
                    nfeat += 1
                    lacking = [c for c, ms in members.items() if attr not in ms]
                    guards = ru.flatten_guards(list(guards_of(st, e)) + conds)
                    guarded = any(pol and g[0] == 'call' and g[1] in (N('isinstance'), N('hasattr')) and g[2] and g[2][0] == recv for g, pol in guards)
                    rep.check(not lacking or guarded, R, '%s:%s %s' % (rel, node.lineno, qualname_of(fn)),
                              '%s:%s:feature-member:%s' % (rel, qualname_of(fn), attr),
                              '%s: `.feature.%s` is available for every feature class%s' % (qualname_of(fn), attr, ' (guarded by a type test)' if lacking else ''),
                              '%s: `.feature.%s` does not exist on %s (e.g. the placeholder\'s plain NP) and is not guarded by a type test' % (qualname_of(fn), attr, lacking))
            # shape safety for functions over categories
            ann = {a.arg for a in fn.args.args if a.annotation is not None and 'Category' in src(a.annotation)}
            parent = getattr(fn, '_parent', None)
            if not ann and isinstance(parent, ast.FunctionDef) and any(a.annotation is not None and 'Category' in src(a.annotation) for a in parent.args.args):
                ann = {a.arg for a in fn.args.args}
            if fn.name in ('traverse_cat',):
                ann = {a.arg for a in fn.args.args}
            if ann and isinstance(parent, ast.Module) and fn.name.startswith('_') and not fn.name.endswith('__'):
                # a private helper split off a function over categories: the walker inlines it into its callers, and
                # its shape-specific reads are judged there, under the shape tests of the caller
                uses = [x for x in ast.walk(mod.tree) if isinstance(x, ast.Name) and x.id == fn.name and isinstance(x.ctx, ast.Load)]
                callers = set()
                only_called = bool(uses)
                from ..core import enclosing_function
                for x in uses:
                    p_ = getattr(x, '_parent', None)
                    if not (isinstance(p_, ast.Call) and p_.func is x):
                        only_called = False
                    c_ = enclosing_function(x)
                    if c_ is None:
                        only_called = False
                    elif c_ is not fn:
                        callers.add(c_)
                typed = lambda f_: any(a.annotation is not None and 'Category' in src(a.annotation) for a in f_.args.args)
                if only_called and callers and all(typed(c_) for c_ in callers):
                    rep.ok(R, '%s:%s %s' % (rel, fn.lineno, fn.name), '%s: private helper, shape-specific reads judged in its callers %s' % (fn.name, sorted(c_.name for c_ in callers)), nontrivial=False)
                    continue
            if ann:
                nshape += ru.r_shape_safety(repo, rep, mod, fn, R, typed_params=ann)
    return nfeat, nshape


LABEL_SHAPE_EXAMPLE = """
def write(node, out):
    label = node.op_string
    if label == 'conj':
        out.write(show(node.cat.left))
    elif node.op_string in ('lp', 'gbx') and node.is_binary:
        out.write(node.cat.slash)
    else:
        out.write(show(node.cat))
"""


def label_guarded_shape_reads(tree):
    """-> [(label, attribute node)]: `X.cat.left` / `.right` / `.slash` read where the only thing known about X is its rule
    label (`if X.op_string == 'conj':`): the printer relies on every rule with that label returning a functor category."""
    out = []
    for n in ast.walk(tree):
        if not (isinstance(n, ast.Attribute) and n.attr in ('left', 'right', 'slash') and isinstance(n.value, ast.Attribute) and n.value.attr == 'cat'):
            continue
        base = src(n.value.value)
        fn_ = None
        x_ = n
        while getattr(x_, '_parent', None) is not None:
            x_ = x_._parent
            if isinstance(x_, ast.FunctionDef):
                fn_ = x_
                break
        # a local that holds the label:  op_string = node.op_string
        alias = set()
        if fn_ is not None:
            for a_ in ast.walk(fn_):
                if isinstance(a_, ast.Assign) and len(a_.targets) == 1 and isinstance(a_.targets[0], ast.Name) and src(a_.value) == base + '.op_string':
                    nm_ = a_.targets[0].id
                    if sum(1 for b_ in ast.walk(fn_) if isinstance(b_, ast.Name) and b_.id == nm_ and isinstance(b_.ctx, ast.Store)) == 1:
                        alias.add(nm_)
        cur = n
        while getattr(cur, '_parent', None) is not None and not isinstance(cur, (ast.FunctionDef, ast.Lambda)):
            par = cur._parent
            if isinstance(par, (ast.If, ast.IfExp)) and (cur in par.body if isinstance(par, ast.If) else cur is par.body):
                for t in ([par.test] if not (isinstance(par.test, ast.BoolOp) and isinstance(par.test.op, ast.And)) else par.test.values):
                    if isinstance(t, ast.Compare) and len(t.ops) == 1 and (src(t.left) == base + '.op_string' or (isinstance(t.left, ast.Name) and t.left.id in alias)):
                        c = t.comparators[0]
                        if isinstance(t.ops[0], ast.Eq) and isinstance(c, ast.Constant) and isinstance(c.value, str):
                            out.append((c.value, n))
                        elif isinstance(t.ops[0], ast.In) and isinstance(c, (ast.Tuple, ast.List, ast.Set)):
                            out += [(e.value, n) for e in c.elts if isinstance(e, ast.Constant) and isinstance(e.value, str)]
            cur = par
    return out


def _functor_result(o, params):
    """is the category of this outcome a functor on every input the path admits?"""
    t = o.result['cat']
    v = sc.absval(t, None, params)
    if v[0] == 'fn':
        return True
    if v[0] == 'litcat':
        return '/' in v[1] or '\\' in v[1]
    if v[0] == 'in':
        for c, pol in o.conds:
            if pol and c[0] == 'cmp' and c[1] == '==' and c[2] == N(v[1]) and c[3][0] == 'const' and isinstance(c[3][1], str) and ('/' in c[3][1] or '\\' in c[3][1]):
                return True
            if pol and c[0] == 'cmp' and c[1] == 'in' and c[2] == N(v[1]) and c[3][0] in ('tuple', 'list', 'set') and c[3][1] and \
                    all(e[0] == 'const' and isinstance(e[1], str) and ('/' in e[1] or '\\' in e[1]) for e in c[3][1]):
                return True
            if pol and c[0] == 'attr' and c[1] == N(v[1]) and c[2] == 'is_functor':
                return True
    return False


def r_label_shape(repo, rep, R='R19.4'):
    """the printers read the parts of a category under nothing but a test of the rule label: every rule of a grammar that emits the
    label must then return a functor, or the format raises AttributeError on the atomic result."""
    n = 0
    from ..core import attach_parents
    ex = attach_parents(ast.parse(LABEL_SHAPE_EXAMPLE))
    if sorted((l, x.lineno) for l, x in label_guarded_shape_reads(ex)) != [('conj', 5), ('gbx', 7), ('lp', 7)]:
        raise AnalysisError('the label-shape rule does not match its positive example')
    for rel in repo.py_files('depccg/printer'):
        mod = repo.module(rel)
        attach_parents(mod.tree)
        reads = label_guarded_shape_reads(mod.tree)
        for label in sorted({l for l, _ in reads}):
            nodes = [x for l, x in reads if l == label]
            for lang, grel in (('en', rg.EN), ('ja', rg.JA)):
                g = repo.module(grel)
                for name, fn in combinator_functions(g):
                    params = [a.arg for a in fn.args.args]
                    for o in sc.outcomes(fn):
                        if not isinstance(o.result, dict) or o.result['op_string'] != C(label):
                            continue
                        n += 1
                        rep.check(_functor_result(o, params), R, '%s:%s %s' % (grel, getattr(o.node, 'lineno', fn.lineno), name),
                                  '%s:%s:label-shape:%s' % (grel, name, label),
                                  '%s: the result labelled %r is a functor (%s); %s:%s reads `%s` under that label' % (name, label, show(o.result['cat'])[:40], rel, nodes[0].lineno, src(nodes[0])),
                                  '%s: returns %s labelled %r, which need not be a functor, but %s:%s reads `%s` of every node with that label: '
                                  'AttributeError on an atomic result and the whole batch is not rendered' % (name, show(o.result['cat'])[:40], label, rel, nodes[0].lineno, src(nodes[0])))
    return n


def check(repo, rep, tier):
    rep.rule('R19.1', 'label closure: labels the grammars can emit are keys of the Prolog tables indexed with them')
    rep.rule('R19.2', 'every --format choice is dispatched by to_string')
    rep.rule('R19.3', 'placeholder-safe token access in printers')
    rep.rule('R19.4', 'feature members / shape-specific attributes in printers are available for every category the parser can return')
    rp.r_failed_placeholder(repo, rep, 'R19.3')
    from ..lints import r_import_time_language
    r_import_time_language(repo, rep, 'R19.2', repo.py_files('depccg/printer'))
    from ..parse_model import ParseModel
    from .. import rules_cxx as rc
    rc.r_nbest(ParseModel(repo), rep, 'R19.3')         # every tree of an n-best list is built from token 0 on: a counter that runs on makes the glue code raise for the whole batch
    rc.r_search_loop(ParseModel(repo), rep, 'R19.3')   # failure is reported exactly when no tree was found: no empty result list
    ti = rp.r_category_table(repo, rep, 'R19.3')
    if ti:
        rp.r_sentence_loop(repo, rep, 'R19.3', ti)     # every sentence contributes its trees or the placeholder
    labels = r_label_closure(repo, rep)
    nl = sum(len(v['binary']) + len(v['unary']) for v in labels.values())
    rep.floor('grammar labels extracted', nl, 9 + 2 + 11 + 6)
    choices = r_dispatch(repo, rep)
    rep.floor('format choices', sum(len(v[0]) for v in choices.values()), 23)
    n = r_token_access(repo, rep)
    rep.floor('printer functions inspected for token access', n, 35)
    rep.rule('R19.5', 'iterators created per sentence are not consumed per n-best tree (the second tree of a sentence would find them used up); results gathered from the workers are one flat list of per-sentence lists')
    from ..lints import r_oneshot_iterators
    r_oneshot_iterators(repo, rep, 'R19.5', repo.py_files('depccg/printer') + ['depccg/parsing.py', 'depccg/tree.py'],
                        'rendering the second n-best tree of a sentence raises StopIteration (or silently writes nothing), and the whole batch with it')
    from .c11 import r_gather
    r_gather(repo, rep, 'R19.5')
    rep.rule('R19.6', 'no printer reads a local on a path where it was never assigned; the labels of a returned tree are the grammar\'s (the printers\' tables are keyed by them); '
                      'the conll head column is computed for every tree shape')
    from ..lints import r_unbound_reads
    r_unbound_reads(repo, rep, 'R19.6', repo.py_files('depccg/printer'), 'the format cannot be written at all')
    rp.r_retrieve_tree(repo, rep, 'R19.6', {'labels'})
    from .c18 import r_printers_pure
    r_printers_pure(repo, rep, 'R19.6', 'R19.6', 'the tokens are shared by all trees of a sentence and by every later rendering: a value another format cannot write '
                    '(a dict where an attribute string is expected, a key removed) makes that rendering raise')
    from ..lints import r_templates_constant
    r_templates_constant(repo, rep, 'R19.6', repo.py_files('depccg/printer'),
                         'a word that contains a brace makes str.format raise (KeyError / IndexError / ValueError) and the whole batch is not rendered')
    from .c07 import r_conll_heads
    r_conll_heads(repo, rep, 'R19.6')
    nf, ns = r_feature_and_shape(repo, rep)
    r_label_shape(repo, rep)      # (conditional on the printers reading under a label test at all: an embedded example instead of an instance floor)
    rep.floor('feature member reads in printers', nf, 1)
    rep.floor('shape-specific reads in category printers', ns, 10)
