"""C10 -- n-best results: order, count bound, duplicate policy."""
from .. import rules_cxx as rc
from .. import rules_pyx as rp
from ..parse_model import ParseModel

EXPLANATION = (
    'Static conformance to R10.1-R10.3: the goal cell is sorted by descending score() before the finalizer loop, '
    'which walks it in list order with a fresh token counter per goal item; the Python side appends trees and '
    'scores in callback order into per-sentence buffers and never reorders; both charts keep duplicates exactly '
    'when nbest > 1 and chart::update drops an item only when !nbest; the search stops at goal.size() >= nbest. '
    'Together with C01\'s monotone pop order this orders the k results best first; that the k scores are the k '
    'largest over all derivations is a semantic consequence not decided here.'
    ' The admissible estimates (row maxima BT/BD, outside tables) and the call-local id-keyed containers are part of this check as well.'
    ' Third round: every accepted chart entry is expanded unconditionally (search:expansion-unconditional).'
    ' Fourth round: the span rule of unary steps (chains included, whatever nbest is) and the admission rule of supertags.'
    ' Fifth round: the chunking / in-order gather rules of the pooled path (shared with C11).'
    ' Sixth round: the outside tables are judged here too (R10.2, partial_sum spelling read); the allowed roots are registered through the category table (R10.3).'
    ' Eighth round: the configuration is built once per call and before the sentence loop (R10.3).')
TRUSTED = ['clang-14 front end', 'CPython ast', 'sa/pyx.py normaliser', 'rule table DESIGN.md C10']


def check(repo, rep, tier):
    m = ParseModel(repo)
    rep.rule('R10.1', 'goal cell sorted descending before output; finalizer walks it in order; Python side keeps callback order')
    rep.rule('R10.2', 'charts in n-best mode iff nbest > 1; loop stops at goal.size() >= nbest; update drops only when !nbest')
    rep.rule('R10.3', 'token counter and result buffers are per goal item / per sentence')
    rc.r_nbest(m, rep, 'R10.1')
    rc.r_chart(m, rep, 'R10.2')
    rc.r_search_loop(m, rep, 'R10.2')
    rc.r_expansion_unconditional(m, rep, 'R10.2')   # every accepted entry is expanded: no derivation is left out of the search
    rc.r_guards(m, rep, 'R10.2', allow_stricter=False)                    # unary steps wherever the grammar allows them (chains included), whatever nbest is
    if len(m.by_kind.get('leaf', [])) == 1:
        rc.r_beam(m, rep, 'R10.2')                  # the derivations counted are those over the admitted tags: the admission rule itself (shared with C16)
    rc.r_priority(m, rep, 'R10.1')
    rc.r_items_immutable(m, rep, 'R10.2')
    rp.r_retrieve_tree(repo, rep, 'R10.3', {'score', 'shape'})
    rc.r_best(m, rep, 'R10.2')             # the k best come out in order only under admissible estimates (row maxima)
    rc.r_estimates(m, rep, 'R10.2', 'out')
    rc.r_outside_fn(m, rep, 'R10.2')       # ... and the outside tables those estimates read are the sums of the words outside the span
    rp.r_call_locals(repo, rep, 'R10.3')
    ti = rp.r_category_table(repo, rep, 'R10.3')
    if ti:
        rp.r_sentence_loop(repo, rep, 'R10.3', ti)
        rp.r_root_ids(repo, rep, 'R10.3', ti)            # every allowed root category gets an id, whether the tagger knows it or not
        rp.r_callbacks(repo, rep, 'R10.2')
    rp.r_config_plumbing(repo, rep, 'R10.3')      # nbest (and the penalty the k best are ranked under) reaches every sentence of the call as given
    # "the list returned for a sentence": a large batch goes through a pool of workers in chunks; the n-best list that comes
    # back at position i must be the one computed from sentence i (shared with C11 R11.2 / R11.3)
    from .c11 import r_chunks, r_gather
    r_chunks(repo, rep, 'R10.3')
    r_gather(repo, rep, 'R10.3')
    rep.floor('chart constructions', len(m.chart_args), 2)
