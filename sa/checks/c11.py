"""C11 -- batch results align with inputs and do not depend on batch history."""
import ast

from ..core import AnalysisError, src, qualname_of, src_ref, enclosing_function
from ..pysym import SymExec, show, subterms, all_calls, terms_of
from ..rules_pyx import N, C, A
from .. import logic
from .. import rules_pyx as rp
from .. import rules_cxx as rc
from .. import pyx
from ..parse_model import ParseModel

EXPLANATION = (
    'R11.1 validation first: _type_check is the first action of depccg.parsing.run and apply_category_filters, its '
    'three rejection conditions each end in raise, and the expected shapes are (tokens, tags) and (tokens, tokens+1); '
    'R11.2 contiguous chunking: _chunks yields list_[i:i+step] for i in range(0, len(list_), step) with the same step; '
    'R11.3 in-order gather: tasks are appended in chunk order, each chunk is passed on as (docs, scores) unzipped from '
    'the chunk itself, results are read by iterating the task list in order with .get(), and no completion-ordered API '
    'is used; R11.4 one result list per sentence on every non-raising path of the sentence loop, failure placeholder on '
    'the too-long and no-parse paths, buffers per sentence; R11.5 the only state surviving from one sentence to the next '
    'is the result list (append only), the category table (append-only, id = position) and the C++ rule cache, whose two '
    'lambdas fill an entry only when absent and never erase.  Equality of results across histories when scores tie (heap '
    'order) and the behaviour of multiprocessing itself are not decided.'
    ' Third round: no working object of parse_sentence has static / thread storage (locals:automatic).'
    ' Fifth round: the rule cache never shrinks during a search (lambdas included).'
    ' Sixth and seventh round: no module-level state in the grammar modules (R11.5), Tree carries every field through pickle and the categories use the generated hash (R11.3), no option name captured by a named parameter of run() (R11.4).'
    ' Eighth round: nothing is done to the gathered results after the gather (R11.3); a tree is rebuilt per n-best entry, not shared below a chart item (R11.4).'
    ' Eleventh round: nothing leaves the validating loop of _type_check early (R11.1).')
TRUSTED = ['CPython ast', 'clang-14 front end', 'sa/pyx.py normaliser', 'multiprocessing.Pool.apply_async/.get semantics']

REL = 'depccg/parsing.py'


def _parents(node, stop):
    out = []
    p = getattr(node, '_parent', None)
    while p is not None and p is not stop:
        out.append(p)
        p = getattr(p, '_parent', None)
    return out


def r_validation(repo, rep, R='R11.1'):
    mod = repo.module(REL)
    for fname in ('run', 'apply_category_filters'):
        fn = mod.get(fname)
        first = None
        for st, o in SymExec(fn, unroll=1).run():
            ev = [e for e in st.events if e[0] in ('call', 'setitem', 'branch')]
            first = ev[0] if ev else None
            break
        tc = ('call', N('_type_check'), (N('doc'), N('score_results'), N('categories')), ())
        rebinds = any(isinstance(s, ast.Assign) and src_ref(s.value) == '_type_check(doc, score_results, categories)' and src(s.targets[0]).replace('(', '').replace(')', '') == 'doc, score_results'
                      for s in fn.body)
        rep.check(first is not None and first[0] == 'call' and first[1] == tc and rebinds, R, '%s:%s %s' % (REL, fn.lineno, fname), '%s:validated-first' % fname,
                  '%s validates (doc, score_results, categories) before anything else and continues with the validated values' % fname,
                  '%s does not start with doc, score_results = _type_check(doc, score_results, categories)' % fname)
    tcf = mod.get('_type_check')
    w = '%s:%s _type_check' % (REL, tcf.lineno)
    pdoc, pscores, pcats = [a.arg for a in tcf.args.args][:3]

    # acceptance form: a path that returns normally has established every admission condition (however the tests
    # are spelt); each rejection is an exception
    classes = {'kind': True, 'tags': True, 'shape': True}
    seen = {'kind': 0, 'tags': 0, 'shape': 0}
    n_raise = 0
    every_sentence = False
    ln = lambda x: ('call', N('len'), (x,), ())
    eq = lambda a_, b_: logic.formula(('cmp', '==', a_, b_))
    for st, o in SymExec(tcf, unroll=1).run():
        if o == 'raise':
            n_raise += 1
            continue
        if o != 'return':
            continue
        conds = [(c, p_) for c, p_, _ in st.conds]
        # kind: both arguments are batches or both are single items, and batches have equal length
        kinds = [c for c, _ in conds if c[0] == 'cmp' and c[1] in ('==', '!=') and c[2][0] == 'bool' and c[3][0] == 'bool']
        okk = False
        for c in kinds:
            ms = c[2] if N(pdoc) in set(subterms(c[2])) else c[3]
            same = logic.formula(('cmp', '==', c[2], c[3]))
            want = ('and', (same, ('or', (logic.neg(logic.formula(ms)), eq(ln(N(pdoc)), ln(N(pscores)))))))
            okk = okk or logic.implied(conds, want)
        seen['kind'] += 1
        classes['kind'] = classes['kind'] and okk
        loop = [e for e in st.events if e[0] == 'loop-enter']
        if loop:
            it = loop[0][1]
            every_sentence = every_sentence or (it[0] == 'call' and it[1] == N('zip') and len(it[2]) == 2)
            elem = ('elem', it, loop[0][2].lineno)
            tokens = ('unpack', elem, 0)
            tag = ('unpack', ('unpack', elem, 1), 0)
            dep = ('unpack', ('unpack', elem, 1), 1)
            ntags = ln(N(pcats))
            ntok = ln(tokens)
            seen['tags'] += 1
            seen['shape'] += 1
            classes['tags'] = classes['tags'] and logic.implied(conds, eq(ntags, ('sub', A(tag, 'shape'), C(1))))
            exp_tag = ('tuple', (ntok, ntags))
            exp_dep = ('tuple', (ntok, ('binop', '+', ntok, C(1))))
            classes['shape'] = classes['shape'] and logic.implied(conds, ('and', (eq(exp_tag, A(tag, 'shape')), eq(exp_dep, A(dep, 'shape')))))
    for name, ok in classes.items():
        what = {'kind': 'a document/score pair of different kinds or lengths', 'tags': 'a tag matrix whose width is not len(categories)',
                'shape': 'score matrices that are not (tokens x tags) and (tokens x tokens+1)'}[name]
        rep.check(ok and seen[name] > 0, R, w, '_type_check:reject:' + name, '%s is rejected with an exception' % what,
                  'a path returns normally without having excluded %s' % what)
    rep.check(n_raise >= 3, R, w, '_type_check:raises', 'each rejection raises (%d raising paths)' % n_raise, 'found %d raising paths' % n_raise)
    rep.check(every_sentence, R, w, '_type_check:all-sentences', 'every sentence of the batch is validated against its own scores', 'validation does not iterate zip(doc, score_results)')
    # ... and the loop runs to its end before the inputs are accepted: no `return` / `break` from inside it
    early = [x for l_ in ast.walk(tcf) if isinstance(l_, (ast.For, ast.While)) for b_ in l_.body for x in ast.walk(b_)
             if isinstance(x, (ast.Return, ast.Break)) and not any(isinstance(p_, (ast.FunctionDef, ast.Lambda)) and p_ is not tcf for p_ in _parents(x, tcf))]
    rep.check(not early, R, '%s:%s _type_check' % (REL, early[0].lineno if early else tcf.lineno), '_type_check:loop-runs-out',
              'the inputs are accepted only after the loop over the sentences has run out',
              '_type_check leaves its loop over the sentences at line %s (`%s`): only the sentences before that point are validated -- a malformed score matrix further down '
              'the batch reaches the parser' % (early[0].lineno if early else 0, src(early[0])[:40] if early else ''))


def chunker(repo):
    """the generator that cuts a batch into chunks: `_chunks`, or (by role) the one module-level generator function of
    depccg/parsing.py.  -> (function, mode): mode 'items' when it yields pieces of a list it is given, 'slices' when it
    yields slice objects for a given length."""
    mod = repo.module(REL)
    fn = mod.get('_chunks', required=False)
    if fn is None:
        gens = [f for f in mod.tree.body if isinstance(f, ast.FunctionDef) and any(isinstance(n, (ast.Yield, ast.YieldFrom)) for n in ast.walk(f))]
        if len(gens) != 1:
            raise AnalysisError('%s: the function that cuts a batch into chunks was not found (generator functions: %s)' % (REL, [g.name for g in gens]))
        fn = gens[0]
    ys = [n for n in ast.walk(fn) if isinstance(n, ast.Yield)]
    mode = 'slices' if ys and all(isinstance(y.value, ast.Call) and src(y.value.func) == 'slice' for y in ys) else 'items'
    return fn, mode


def r_chunks(repo, rep, R='R11.2'):
    fn, mode = chunker(repo)
    lst, nch = [a.arg for a in fn.args.args][:2]
    size = 'len(%s)' % lst if mode == 'items' else lst
    w = '%s:%s %s' % (REL, fn.lineno, fn.name)
    ys = [n for n in ast.walk(fn) if isinstance(n, ast.Yield)]
    loops = [n for n in ast.walk(fn) if isinstance(n, ast.For)]
    ok = len(ys) == 1 and len(loops) == 1
    detail = ''
    if ok:
        l = loops[0]
        it = l.iter
        ok = isinstance(it, ast.Call) and src(it.func) == 'range' and len(it.args) == 3 and src(it.args[0]) == '0' and src(it.args[1]) == size
        step = src(it.args[2]) if ok else None
        i = src(l.target)
        y = ys[0].value
        if mode == 'items':
            ok = ok and isinstance(y, ast.Subscript) and src(y.value) == lst and isinstance(y.slice, ast.Slice) and src(y.slice.lower) == i and \
                src(y.slice.upper).replace(' ', '') in ('%s+%s' % (i, step), '%s+%s' % (step, i)) and y.slice.step is None
        else:
            ok = ok and len(y.args) == 2 and not y.keywords and src(y.args[0]) == i and \
                src(y.args[1]).replace(' ', '') in ('%s+%s' % (i, step), '%s+%s' % (step, i))
        detail = 'yields %s for %s in %s' % (src(y), i, src(it))
        # the step is positive whenever the list is non-empty
        stepdef = [s for s in fn.body if isinstance(s, ast.Assign) and src(s.targets[0]) == step]
        okstep = bool(stepdef) and src(stepdef[0].value).replace(' ', '') == 'math.ceil(%s/max(%s,1))' % (size, nch)
        rep.check(okstep, R, w, '_chunks:step', 'the chunk size is ceil(len / max(num_chunks, 1)): at least 1 for a non-empty list', 'chunk size is %s' % (src(stepdef[0].value) if stepdef else '?'))
    rep.check(ok, R, w, '_chunks:contiguous', 'chunks are consecutive slices covering the list without gap or overlap (%s)' % detail,
              '%s is not `for i in range(0, len(l), step): yield l[i:i+step]` (%s)' % (fn.name, detail))


def r_gather(repo, rep, R='R11.3'):
    mod = repo.module(REL)
    fn = mod.get('run')
    w = '%s:%s run' % (REL, fn.lineno)
    txt = src(fn)
    banned = [b for b in ('imap_unordered', 'as_completed', 'callback=', 'map_async', 'imap(') if b in txt]
    rep.check(not banned, R, w, 'run:no-unordered-api', 'no completion-ordered collection API is used', 'uses %s' % banned)
    is_submit = lambda c: c[1][0] == 'attr' and c[1][2] == 'apply_async'
    pooled = None
    for st, o in SymExec(fn, unroll=1).run():
        if o == 'return' and any(is_submit(c) for c in all_calls(st)):
            pooled = st
    if pooled is None:
        rep.violation(R, w, 'run:pooled-path', 'no returning path submits work with apply_async')
        return
    st = pooled
    calls = all_calls(st)
    cfn, mode = chunker(repo)
    chunks_call = [c for c in calls if c[1] in (N(cfn.name), N(mod.aliases.get(cfn.name, cfn.name)), N('_chunks'))]
    d_doc, d_sc = st.env.get('doc', N('doc')), st.env.get('score_results', N('score_results'))
    zipped = ('call', N('list'), (('call', N('zip'), (d_doc, d_sc), ()),), ())
    parallel = None
    if mode == 'items' and len(chunks_call) == 2 and {c[2][0] for c in chunks_call} == {d_doc, d_sc} and chunks_call[0][2][1:] == chunks_call[1][2][1:]:
        # both lists (validated to have the same length) are cut by the same splitter into the same number of pieces,
        # and the pieces are paired by position
        cd = [c for c in chunks_call if c[2][0] == d_doc][0]
        cs_ = [c for c in chunks_call if c[2][0] == d_sc][0]
        parallel = ('call', N('zip'), (cd, cs_), ())
        ok = True
    elif mode == 'items':
        ok = bool(chunks_call) and chunks_call[0][2][0] == zipped
    else:
        # one sequence of slices for both lists (validated to have the same length)
        ok = bool(chunks_call) and chunks_call[0][2][0] in (('call', N('len'), (d_doc,), ()), ('call', N('len'), (d_sc,), ()))
    rep.check(ok, R, w, 'run:chunk-source', 'the batch is chunked as the list of (sentence, scores) pairs in input order',
              'chunks are taken from %s' % (show(chunks_call[0][2][0])[:80] if chunks_call else None))
    sub = [c for c in calls if is_submit(c)]
    kw = dict(sub[0][3])
    args_t = kw.get('args')
    # the task list: one submission per chunk, in chunk order (a comprehension, or a loop appending to a fresh list)
    tasks = [t for t in (x for y in terms_of(st) for x in subterms(y)) if t[0] == 'listcomp' and len(t[2]) == 1 and t[1] == sub[0]]
    okargs = False
    oktasks = False
    if args_t is not None and tasks:
        en, filt = tasks[0][2][0]
        oktasks = en[0] == 'call' and en[1] == N('enumerate') and bool(chunks_call) and en[2] == ((parallel,) if parallel is not None else (chunks_call[0],)) and not en[3] and not filt
        elems = [x for x in subterms(args_t) if x[0] == 'elem' and x[1] == en]
        if elems:
            chunk = ('unpack', elems[0], 1)
            z = ('call', N('zip'), (('star', chunk),), ())
            want_head = (('call', N('list'), (('unpack', z, 0),), ()), ('call', N('list'), (('unpack', z, 1),), ()))
            if mode == 'slices':
                want_head = (('sub', d_doc, chunk), ('sub', d_sc, chunk))
            if parallel is not None:
                want_head = (('unpack', chunk, 0), ('unpack', chunk, 1))
            okargs = ((args_t[0] == 'binop' and len(args_t) == 4 and args_t[1] == '+' and args_t[2] == ('tuple', want_head))
                      or (args_t[0] == 'tuple' and args_t[1][:2] == want_head)) \
                and bool(sub[0][2]) and sub[0][2][0] == A(A(N('depccg'), '_parsing'), 'run')
    rep.check(okargs, R, w, 'run:chunk-args', 'each worker gets the sentences and the scores of its own chunk, in chunk order', 'worker args are %s' % (show(args_t)[:120] if args_t else None))
    rep.check(oktasks, R, w, 'run:tasks-in-order', 'one task per chunk, kept in a list in submission (= chunk) order',
              'tasks are not kept one per chunk in submission order')
    ret = st.ret
    okc = False
    if ret is not None and ret[0] == 'listcomp' and len(ret[2]) == 2 and tasks:
        (t_it, t_f), (r_it, r_f) = ret[2]
        okc = t_it == tasks[0] and not t_f and not r_f and r_it[0] == 'call' and not r_it[2] and not r_it[3] and r_it[1][0] == 'attr' \
            and r_it[1][2] == 'get' and r_it[1][1][0] == 'elem' and r_it[1][1][1] == t_it and ret[1][0] == 'elem' and ret[1][1] == r_it
        if not okc:
            # the same walk with the task list's own comprehension fused in by the term normaliser:
            # [r for chunk in enumerate(chunks) for r in <task of chunk>.get()]
            okc = t_it == tasks[0][2][0][0] and not t_f and not r_f and r_it == ('call', A(tasks[0][1], 'get'), (), ()) \
                and ret[1][0] == 'elem' and ret[1][1] == r_it
    rep.check(okc, R, w, 'run:gather-in-order', 'results are collected by walking the task list in order and concatenating each task\'s results',
              'results are not gathered as [r for task in tasks for r in task.get()]: %s' % (show(ret)[:100] if ret else None))
    # ... and handed back as the workers made them: nothing is stored into the gathered results (or anything else) on this
    # path -- a fix-up that is right for parsed sentences rewrites the one-leaf placeholder of a failed one
    stores = [e for e in st.events if e[0] in ('setitem', 'setattr', 'del')]
    rep.check(not stores, R, w, 'run:gather:untouched', 'the gathered results are returned as the workers made them (no store on the pooled path)',
              'the pooled path stores into objects after gathering (%s): what comes back through the pool differs from what the same call returns in-process'
              % [show(e[1])[:40] + '[' + show(e[2])[:20] + ']' for e in stores][:2])
    # direct path
    direct = [st2 for st2, o in SymExec(fn, unroll=1).run() if o == 'return' and not any(is_submit(c) for c in all_calls(st2))]
    okd = bool(direct) and direct[0].ret is not None and direct[0].ret[0] == 'call' and direct[0].ret[1] == A(A(N('depccg'), '_parsing'), 'run') and \
        direct[0].ret[2][:2] == (direct[0].env.get('doc'), direct[0].env.get('score_results'))
    rep.check(okd, R, w, 'run:direct', 'a small batch is parsed in-process with the whole (doc, scores) in order', 'direct path returns %s' % (show(direct[0].ret)[:80] if direct else None))
    # same positional/keyword arguments on both paths
    a_direct = direct[0].ret[2][2:] if okd else None
    same = okd and args_t is not None and ((args_t[0] == 'binop' and len(args_t) == 4 and args_t[3] == ('tuple', a_direct))
                                           or (args_t[0] == 'tuple' and args_t[1][2:] == a_direct))
    rep.check(bool(same), R, w, 'run:same-args', 'both paths pass the same categories / rule functions / roots', 'pooled and direct paths pass different fixed arguments')
    kwd = kw.get('kwds')
    okk = kwd is not None and kwd[0] == 'dict' and any(k is None and v == dict(direct[0].ret[3]).get(None, v) for k, v in kwd[1]) if okd else False
    rep.check(kwd is not None and kwd[0] == 'dict' and any(k is None for k, _ in kwd[1]), R, w, 'run:same-kwargs', 'workers get the same option dictionary (plus their process id)',
              'worker keyword arguments are %s' % (show(kwd)[:80] if kwd else None))


def r_state(repo, rep, R='R11.5'):
    mod = pyx.load(repo)
    run = mod.get('run')
    loops = [s for s in run.body if isinstance(s, ast.For) and any(isinstance(n, ast.Call) and src(n.func) == 'parse_sentence' for n in ast.walk(s))]
    loop = loops[0]
    w = '%s:%s run' % (pyx.REL, loop.lineno)
    assigned_in = set()
    order_ok = True
    first_use = {}
    def walk_no_comp(node):
        # comprehension variables live in their own scope
        yield node
        for ch in ast.iter_child_nodes(node):
            if isinstance(ch, (ast.ListComp, ast.SetComp, ast.DictComp, ast.GeneratorExp)):
                for g in ch.generators:
                    for x in walk_no_comp(g.iter):
                        yield x
                continue
            for x in walk_no_comp(ch):
                yield x
    for i, s in enumerate(loop.body):
        for n in walk_no_comp(s):
            if isinstance(n, ast.Name):
                if isinstance(n.ctx, ast.Store):
                    assigned_in.add(n.id)
                    first_use.setdefault(n.id, ('store', n.lineno))
                else:
                    first_use.setdefault(n.id, ('load', n.lineno))
    targets = {n.id for n in ast.walk(loop.target) if isinstance(n, ast.Name)}
    read_before_write = sorted(v for v in assigned_in if first_use.get(v, ('store',))[0] == 'load')
    rep.check(not read_before_write, R, w, 'run:loop:locals-fresh', 'every variable assigned in the sentence loop is assigned before it is read in that iteration (%s)' % sorted(assigned_in),
              'variables carried over from the previous sentence: %s' % read_before_write)
    outer_mut = set()
    for n in ast.walk(loop):
        if isinstance(n, ast.Call) and isinstance(n.func, ast.Attribute) and isinstance(n.func.value, ast.Name) and n.func.attr in rp.MUTATORS \
                and n.func.value.id not in assigned_in and n.func.value.id not in targets:
            outer_mut.add('%s.%s' % (n.func.value.id, n.func.attr))
        if isinstance(n, (ast.Assign, ast.AugAssign)):
            for t in (n.targets if isinstance(n, ast.Assign) else [n.target]):
                if isinstance(t, (ast.Subscript, ast.Attribute)) and isinstance(t.value, ast.Name) and t.value.id not in assigned_in and t.value.id not in targets:
                    outer_mut.add('%s[...] =' % t.value.id)
    # the result list: the name run() returns (created empty before the loop)
    returned = {src(n.value) for n in ast.walk(run) if isinstance(n, ast.Return) and isinstance(n.value, ast.Name) and enclosing_function(n) is run}
    rep.check(outer_mut <= {'%s.append' % r_ for r_ in returned}, R, w, 'run:loop:outer-state', 'inside the loop only the result list is modified among the objects created outside it',
              'the loop also modifies %s' % sorted(outer_mut - {'all_results.append'}))


def check(repo, rep, tier):
    rep.rule('R11.1', 'validation before any parsing; three rejections raise')
    rep.rule('R11.2', 'contiguous chunks')
    rep.rule('R11.3', 'in-order gather of worker results')
    rep.rule('R11.4', 'one result per sentence, failure placeholder, per-sentence buffers')
    rep.rule('R11.5', 'cross-sentence state: result list, append-only category table, fill-once rule cache')
    r_validation(repo, rep)
    r_chunks(repo, rep)
    r_gather(repo, rep)
    from ..lints import r_serialisation_complete
    r_serialisation_complete(repo, rep, 'R11.3', [('depccg/tree.py', 'Tree')],
                             'with more than one worker process the trees come back through pickle and differ from those of a single-process run')
    # categories, the seen-rule set and the unary table travel to the workers through pickle: a hash kept on the instance
    # travels with them and is wrong under the worker's hash seed (every lookup misses) -- the hash is the generated one
    from . import c13
    c13.r_dataclass(repo.module('depccg/cat.py'), rep, 'R11.3')
    ti = rp.r_category_table(repo, rep, 'R11.5')
    rp.r_call_locals(repo, rep, 'R11.5')
    if ti:
        rp.r_callbacks(repo, rep, 'R11.5')
        rp.r_sentence_loop(repo, rep, 'R11.4', ti)
    r_state(repo, rep)
    rp.r_retrieve_tree(repo, rep, 'R11.4', {'shape'})     # every tree is rebuilt from the items of its own sentence (nothing remembered by item address across sentences)
    rp.r_kwargs_not_captured(repo, rep, 'R11.4')     # 'too long' is decided from the max_length the caller passed
    m = ParseModel(repo)
    rc.r_cache(m, rep, 'R11.5')
    rc.r_priority(m, rep, 'R11.5')
    rc.r_ids_not_ordered(m, rep, 'R11.5')
    rc.r_search_loop(m, rep, 'R11.4')
    from ..lints import r_module_state
    r_module_state(repo, rep, 'R11.5', ['depccg/grammar/en.py', 'depccg/grammar/ja.py'],
                   'the rule functions are called back for every sentence: what a call stores at module level is read by the calls made for later sentences, '
                   'so a sentence parsed after others is not parsed as it is alone')
    rc.r_locals_automatic(m, rep, 'R11.5')    # no working object of parse_sentence survives from one sentence to the next
    rep.floor('push sites (search loop analysed)', len(m.sites), 5)
