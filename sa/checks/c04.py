"""C04 -- Japanese combinatory rules are sound."""
import ast

from ..pygrammar import combinator_functions
from .. import rules_grammar as rg
from ..core import AnalysisError, src
from ..pysym import SymExec, show, subterms, all_calls, path_values, guards_of
from ..rules_pyx import N, C, A

EXPLANATION = (
    'Abstract evaluation of every combinator of depccg/grammar/ja.py against the schema its symbol names '
    '(>, <, >B, <B1..4 backward harmonic of degree k, >Bx1..3 forward crossed of degree k keeping the secondary '
    'functor\'s slashes, SSEQ between root categories), modifier shortcut, head_is_left=False, registry and '
    'dispatch as for C03; plus R4.3 for the unary labels: every label of _unary_rule_symbol is reachable (no '
    'statically constant branch test such as comparing an uncalled method with a literal), the adnominal branch '
    'distinguishes two labels and the adverbial branch three, each depending on the shape of the argument.'
    ' The dispatch fold also checks what the combinators are applied to (the inputs themselves).'
    ' Third round: the root list SSEQ tests against equals the default --root-cats of the Japanese command line (R4.2 root-list); Functor.__xor__ as used by scan.'
    ' Fifth round: the bindings reader replaces bound features as a whole and nothing else; every shared variable position is tested, independently of earlier bindings.'
    ' Seventh round: every input of the shipped Japanese unary table is within what the labels can say (R4.3 label-domain).'
    ' Eighth round: no rule kept from a loop reads the loop variable (its symbol, its pattern) late (R4.1).'
    ' Ninth and tenth round: the labelling function is evaluated on its own paths for every input of the shipped unary table and must give the label the shape calls for.')
TRUSTED = ['CPython ast', 'schema table in sa/rules_grammar.py (from the property statement)', 'independent pattern parser sa/symcat.py',
           'class table of depccg/cat.py (which names are methods, which are properties)']

R = {'schema': 'R4.1', 'modifier': 'R4.1', 'restrict': 'R4.1', 'nonschema': 'R4.2', 'labels': 'R4.1', 'complete': 'R4.1'}


def category_members(repo):
    """-> (methods, properties) defined on Category/Atom/Functor"""
    mod = repo.module('depccg/cat.py')
    methods, props = set(), set()
    for cname in ('Category', 'Atom', 'Functor'):
        cls = mod.get(cname)
        for s in cls.body:
            if isinstance(s, ast.FunctionDef):
                if any('property' in src(d) for d in s.decorator_list):
                    props.add(s.name)
                else:
                    methods.add(s.name)
    return methods, props


def r_unary_labels(repo, rep, R='R4.3'):
    mod = repo.module(rg.JA)
    fn = mod.get('_unary_rule_symbol')
    p = fn.args.args[0].arg
    methods, props = category_members(repo)
    w = lambda n: '%s:%s _unary_rule_symbol' % (mod.rel, getattr(n, 'lineno', fn.lineno))
    # (i) statically constant tests: uncalled method compared with a literal
    n_tests = 0
    for node in ast.walk(fn):
        if isinstance(node, ast.Compare) and len(node.ops) == 1:
            n_tests += 1
            sides = [node.left, node.comparators[0]]
            for a, b in (sides, sides[::-1]):
                if isinstance(a, ast.Attribute) and a.attr in methods and a.attr not in props and isinstance(b, ast.Constant) \
                        and not isinstance(getattr(a, '_parent', None), ast.Call) or \
                        (isinstance(a, ast.Attribute) and a.attr in methods and isinstance(b, ast.Constant)
                         and not (isinstance(getattr(a, '_parent', None), ast.Call) and a._parent.func is a)):
                    rep.violation(R, w(node), '%s:_unary_rule_symbol:constant-test:%s' % (mod.rel, src(node)),
                                  'the test `%s` compares the bound method %s (never called) with a constant: it is always false and the label under it is unreachable'
                                  % (src(node), a.attr))
                    break
            else:
                rep.ok(R, w(node), 'test `%s` is not statically constant' % src(node))
    # (ii) labels per branch, and shape dependence of each deciding test
    paths = SymExec(fn).run()
    by_label = {}

    class _Alt(object):
        """one (path, conditional-expression alternative): the tests that lead to a returned value"""
        def __init__(self, conds):
            self.conds = [(c, p_, None) for c, p_ in conds]
    for conds_, v in path_values(paths):
        if v[0] == 'const':
            by_label.setdefault(v[1], []).append(_Alt(conds_))
    rep.note('unary_labels', sorted(by_label))
    adn = {l for l in by_label if l.startswith('ADN')}
    adv = {l for l in by_label if l.startswith('ADV')}
    rep.check(adn == {'ADNext', 'ADNint'}, R, w(fn), '%s:_unary_rule_symbol:adn-labels' % mod.rel,
              'the adnominal branch distinguishes ADNext and ADNint', 'adnominal labels returned: %s' % sorted(adn))
    rep.check(adv == {'ADV0', 'ADV1', 'ADV2'}, R, w(fn), '%s:_unary_rule_symbol:adv-labels' % mod.rel,
              'the adverbial branch distinguishes ADV0, ADV1 and ADV2', 'adverbial labels returned: %s' % sorted(adv))
    # a method called on a feature value must exist on every Feature class, unless the call is guarded by isinstance
    cat = repo.module('depccg/cat.py')
    feats = ['UnaryFeature', 'TernaryFeature']
    seen_calls = set()
    for st, out in paths:
        for e in st.events:
            if e[0] != 'call' or id(e[2]) in seen_calls:
                continue
            f = e[1][1]
            if f[0] == 'attr' and f[1][0] == 'attr' and f[1][2] == 'feature':
                seen_calls.add(id(e[2]))
                meth, recv = f[2], f[1]
                lacking = [c for c in feats if not any(isinstance(s, ast.FunctionDef) and s.name == meth for s in cat.get(c).body)
                           and not any(isinstance(s, ast.FunctionDef) and s.name == meth for s in cat.get('Feature').body)]
                guards = list(guards_of(st, e)) + [(c, pol) for c, pol, _ in st.conds]
                guarded = any(pol and g[0] == 'call' and g[1] == N('isinstance') and g[2] and g[2][0] == recv for g, pol in guards) or \
                    any(pol and g[0] == 'call' and g[1] == N('hasattr') and g[2] and g[2][0] == recv for g, pol in guards)
                rep.check(not lacking or guarded, 'R4.3', w(e[2]), '%s:_unary_rule_symbol:feature-method:%s' % (mod.rel, meth),
                          'feature accessor .%s() is %s' % (meth, 'guarded by a type test' if lacking else 'available on every Feature class'),
                          '`%s` is called on a feature but %s does not define it (a feature-less left-hand side raises AttributeError)'
                          % (src(e[2]), lacking))
    # shape dependence: within a family, the label is decided by a test on the category's shape (arity / structure),
    # not by its feature alone
    SHAPE_ATTRS = {'nargs', 'is_atomic', 'is_functor', 'left', 'right', 'slash'}

    def shape_tests(st):
        out = []
        for c, pol, _ in st.conds:
            feats = [s for s in subterms(c) if s[0] == 'attr' and s[2] == 'feature']
            mentions_shape = any((s[0] == 'attr' and s[2] in SHAPE_ATTRS and N(p) in set(subterms(s))) or
                                 (s[0] == 'binop' and s[1] == '^' and N(p) in set(subterms(s))) or
                                 (s[0] == 'call' and s[1][0] == 'attr' and s[1][2] in ('arg', 'clear_features') and s[1][1] == N(p)
                                  and not feats)
                                 for s in subterms(c))
            if mentions_shape:
                out.append((show(c), pol))
        return out
    for fam, name_ in ((adn, 'adnominal'), (adv, 'adverbial')):
        sigs = {}
        for l in sorted(fam):
            for st in by_label.get(l, []):
                sigs.setdefault(l, set()).add(tuple(shape_tests(st)))
        distinct = len({frozenset(v) for v in sigs.values()}) == len(sigs) and all(any(t for t in v) for v in sigs.values())
        rep.check(distinct, R, w(fn), '%s:_unary_rule_symbol:%s-shape' % (mod.rel, name_),
                  'the %s labels are separated by tests on the shape of the category: %s' % (name_, {k: sorted(v) for k, v in sigs.items()}),
                  'the %s labels are not separated by the shape (number of arguments) of the category: %s' % (name_, {k: sorted(v) for k, v in sigs.items()}))
    # where the deciding test names an arity, it must be the arity the label stands for
    from .. import symcat as sc_

    def implied_nargs(st):
        for c, pol, _ in st.conds:
            if not pol:
                continue
            if c[0] == 'cmp' and c[1] == '==':
                for a, b in ((c[2], c[3]), (c[3], c[2])):
                    if a == A(N(p), 'nargs') and b[0] == 'const' and isinstance(b[1], int):
                        return b[1]
                    if b[0] == 'const' and isinstance(b[1], str) and N(p) in set(subterms(a)):
                        try:
                            q, k = sc_.parse_pattern(b[1].replace('[', '_').replace(']', '_').replace('=', '_').replace(',', '_')), 0
                        except AnalysisError:
                            continue
                        while q[0] == 'fn':
                            q, k = q[1], k + 1
                        return k
            if c == A(N(p), 'is_atomic'):
                return 0
            if c[0] == 'binop' and c[1] == '^':
                for a in (c[2], c[3]):
                    if a[0] == 'call' and a[1] == A(N('Category'), 'parse') and a[2] and a[2][0][0] == 'const':
                        q, k = sc_.parse_pattern(a[2][0][1]), 0
                        while q[0] == 'fn':
                            q, k = q[1], k + 1
                        return k
        return None
    for label, want in (('ADNext', 0), ('ADV1', 1), ('ADV2', 2)):
        for st in by_label.get(label, []):
            k = implied_nargs(st)
            if k is not None:
                rep.check(k == want, R, w(fn), '%s:_unary_rule_symbol:arity:%s' % (mod.rel, label),
                          '%s is returned for a category with %d missing argument(s)' % (label, want),
                          '%s is returned when the category has %d missing argument(s); the label stands for %d' % (label, k, want))
    # apply_unary_rules uses the symbol for both label fields
    au = mod.get('apply_unary_rules')
    ok = False
    for st, out in SymExec(au, unroll=1).run():
        for call in all_calls(st, N('CombinatorResult')):
            kw = dict(call[3])
            pos = list(call[2])
            want = ('call', N('_unary_rule_symbol'), (N(au.args.args[0].arg),), ())
            ok = kw.get('op_string', pos[1] if len(pos) > 1 else None) == want and kw.get('op_symbol', pos[2] if len(pos) > 2 else None) == want
    rep.check(ok, R, '%s:%s apply_unary_rules' % (mod.rel, au.lineno), '%s:apply_unary_rules:symbol' % mod.rel,
              'unary results are labelled _unary_rule_symbol(x) of the input category', 'unary results are not labelled by _unary_rule_symbol(x)')


def _parents(n):
    from ..core import parents
    return parents(n)


def _expand_strings(mod, node, env):
    """the strings a constant expression over literal loops denotes, as a list (one per evaluation), or None"""
    if isinstance(node, ast.Constant) and isinstance(node.value, str):
        return [node.value]
    if isinstance(node, ast.Name) and node.id in env:
        return [env[node.id]]
    if isinstance(node, ast.JoinedStr):
        out = ['']
        for v in node.values:
            if isinstance(v, ast.Constant):
                part = [str(v.value)]
            elif isinstance(v, ast.FormattedValue) and v.format_spec is None and v.conversion == -1:
                part = _expand_strings(mod, v.value, env)
                if part is None:
                    return None
            else:
                return None
            out = [a + b for a in out for b in part]
        return out
    if isinstance(node, ast.BinOp) and isinstance(node.op, ast.Add):
        a, b = _expand_strings(mod, node.left, env), _expand_strings(mod, node.right, env)
        return None if a is None or b is None else [x + y for x in a for y in b]
    return None


def _category_texts(mod, node, env=None, depth=0):
    """texts of a module-level list of Category.parse(<constant text>) entries: a display, a comprehension over literal
    tables, concatenations of those; None when it cannot be read off the source"""
    env = env or {}
    if depth > 6:
        return None
    if isinstance(node, (ast.List, ast.Tuple)):
        out = []
        for e in node.elts:
            if isinstance(e, ast.Starred):
                sub = _category_texts(mod, e.value, env, depth + 1)
            elif isinstance(e, ast.Call) and src(e.func) in ('Category.parse', 'parse') and len(e.args) == 1:
                sub = _expand_strings(mod, e.args[0], env)
            else:
                sub = None
            if sub is None:
                return None
            out += sub
        return out
    if isinstance(node, ast.BinOp) and isinstance(node.op, ast.Add):
        a, b = _category_texts(mod, node.left, env, depth + 1), _category_texts(mod, node.right, env, depth + 1)
        return None if a is None or b is None else a + b
    if isinstance(node, ast.Call) and src(node.func) in ('list', 'tuple') and len(node.args) == 1:
        return _category_texts(mod, node.args[0], env, depth + 1)
    if isinstance(node, (ast.ListComp, ast.GeneratorExp)):
        envs = [dict(env)]
        for g in node.generators:
            if g.ifs or not isinstance(g.target, ast.Name):
                return None
            it = g.iter
            items = None
            if isinstance(it, ast.Constant) and isinstance(it.value, str):
                items = list(it.value)
            else:
                items = rg.const_strings(mod, it)
            if items is None:
                return None
            envs = [dict(e, **{g.target.id: v}) for e in envs for v in items]
        out = []
        for e in envs:
            sub = _category_texts(mod, ast.List(elts=[node.elt], ctx=ast.Load()), e, depth + 1)
            if sub is None:
                return None
            out += sub
        return out
    if isinstance(node, ast.Name):
        binds = [s_ for s_ in mod.tree.body if isinstance(s_, ast.Assign) and any(isinstance(t, ast.Name) and t.id == node.id for t in s_.targets)]
        if len(binds) == 1:
            return _category_texts(mod, binds[0].value, env, depth + 1)
    return None


def r_root_list(repo, rep, R='R4.2'):
    """sentence sequencing joins two *root* categories: the list the grammar tests against is the list of categories the
    Japanese command line allows at the root of a tree (two copies of one table; SSEQ over anything else builds a
    'sentence sequence' out of non-sentences, or misses one)."""
    mod = repo.module(rg.JA)
    binds = [s_ for s_ in mod.tree.body if isinstance(s_, ast.Assign) and any(isinstance(t, ast.Name) and t.id == '_possible_root_categories' for t in s_.targets)]
    if len(binds) != 1:
        raise AnalysisError('%s: expected one module-level binding of _possible_root_categories, found %d' % (mod.rel, len(binds)))
    texts = _category_texts(mod, binds[0].value)
    if texts is None:
        raise AnalysisError('%s:%d the entries of _possible_root_categories cannot be read off the source' % (mod.rel, binds[0].lineno))
    defaults = []
    try:
        from ..cli import cli_options
        _, _, options = cli_options(repo)
        for o in options:
            if '--root-cats' in o.flags and isinstance(o.const('default'), str) and 'mod=' in o.const('default'):       # the Japanese one: feature triples
                defaults.append((getattr(o.node, 'lineno', 0), o.const('default').split('|')))
    except AnalysisError:
        defaults = []
    if len(defaults) != 1:
        # the command line is outside this property's anchors: when its table cannot be located the comparison is
        # recorded as not made rather than guessed
        rep.note('root-list', 'not compared: %d Japanese --root-cats defaults found in depccg/argparse.py' % len(defaults))
        return
    line, cli = defaults[0]
    w = '%s:%d _possible_root_categories' % (mod.rel, binds[0].lineno)
    extra = sorted(set(texts) - set(cli))
    missing = sorted(set(cli) - set(texts))
    rep.check(not extra and not missing, R, w, mod.rel + ':root-list',
              'the %d categories SSEQ accepts are the %d default root categories of the Japanese command line (depccg/argparse.py:%d)' % (len(texts), len(cli), line),
              'the root list of the grammar differs from the default root categories of the Japanese command line (depccg/argparse.py:%d): only in the grammar %s, only on the command line %s'
              % (line, extra, missing))
    dup = sorted({t for t in texts if texts.count(t) > 1})
    rep.check(not dup, R, w, mod.rel + ':root-list:unique', 'no root category is listed twice', 'listed twice: %s' % dup)


def r_unary_table(repo, rep, R='R4.3'):
    """the shipped unary table stays inside what the labels can say: an adverbial input is labelled ADV0 / ADV1 / ADV2 by
    its number of missing arguments, so the table lists no adverbial input that misses more than two (the labelling
    function's last arm would call it ADV0); every input is adnominal or adverbial (anything else is labelled OTHER, which
    names no shape)"""
    from .. import datafiles
    rel = 'depccg/models/unary_rules.ja.jsonnet'
    data = datafiles.load_jsonnet(repo, rel)
    rows = data.get('unary_rules') if isinstance(data, dict) else None
    if not isinstance(rows, list) or not rows:
        raise AnalysisError('%s: no unary_rules list' % rel)
    bad = []
    for row in rows:
        lhs = datafiles.parse_cat(row[0])
        pairs = dict(datafiles.feature_pairs(datafiles.result_atom(lhs)) or [])
        k = datafiles.nargs(lhs)
        if pairs.get('mod') == 'adv' and k > 2:
            bad.append('%s misses %d arguments and is labelled ADV0' % (row[0], k))
        elif pairs.get('mod') not in ('adv', 'adn'):
            bad.append('%s is neither adnominal nor adverbial (labelled OTHER)' % row[0])
    # ... and what the labelling function answers for each of them is the label its shape calls for (evaluated on the paths of
    # the function, where its tests are of the recognised kinds)
    from .c20 import eval_unary_labels
    got = {}
    reach, _t = eval_unary_labels(repo, got)
    if reach is not None:
        wrong = []
        for row in rows:
            lhs = datafiles.parse_cat(row[0])
            pairs = dict(datafiles.feature_pairs(datafiles.result_atom(lhs)) or [])
            k = datafiles.nargs(lhs)
            want = None
            if pairs.get('mod') == 'adn':
                want = 'ADNext' if k == 0 else 'ADNint'
            elif pairs.get('mod') == 'adv' and k <= 2:
                want = 'ADV%d' % k
            if want is not None and got.get(row[0]) != want:
                wrong.append('%s is labelled %s, its shape calls for %s' % (row[0], got.get(row[0]), want))
        rep.check(not wrong, R, '%s:%s _unary_rule_symbol' % (rg.JA, repo.module(rg.JA).get('_unary_rule_symbol').lineno), '_unary_rule_symbol:shipped-inputs',
                  'each of the %d inputs of the shipped unary table gets the label of its shape' % len(rows),
                  'inputs of the shipped unary table get the wrong label: %s' % '; '.join(wrong[:3]))
    rep.check(not bad, R, '%s:1 unary_rules' % rel, rel + ':label-domain',
              'all %d inputs of the shipped unary table are adnominal, or adverbial with at most two missing arguments' % len(rows),
              'the shipped unary table has inputs the labels cannot describe: %s' % '; '.join(bad[:3]))
    return len(rows)


def check(repo, rep, tier):
    mod = repo.module(rg.JA)
    rep.rule('R4.1', 'schema conformance of the 10 unification-based combinators incl. slash preservation, modifier shortcut, labels, head_is_left=False, dispatch')
    rep.rule('R4.2', 'SSEQ: result is the right input, guarded by membership of both inputs in the root list')
    rep.rule('R4.3', '_unary_rule_symbol: all labels reachable, family sizes, feature access defined for every Feature class')
    from ..lints import r_late_binding
    r_late_binding(repo, rep, 'R4.1', [rg.JA, 'depccg/grammar/__init__.py'],
                   'every rule built by the loop carries the symbol (or pattern) of the last one, so a result is labelled with a schema that does not justify it')
    rg.check_is_modifier(mod, rep, 'R4.1')
    labels = set()
    for name, fn in combinator_functions(mod):
        labels |= rg.check_combinator('ja', mod, name, fn, rep, R)
    reg = rg.check_dispatch('ja', mod, rep, 'R4.1')
    from .. import rules_unif as ru
    pur = ru.Purity(repo, rep, 'R4.1')
    ab = mod.get('apply_binary_rules')
    mutated = pur.analyse(mod, ab)
    rep.check(not mutated and not ab.decorator_list, 'R4.1', '%s:%s apply_binary_rules' % (mod.rel, ab.lineno), '%s:apply_binary_rules:no-memo' % mod.rel,
              'apply_binary_rules keeps no state: each answer is computed from its own arguments', 'apply_binary_rules modifies %s: an answer may come from an earlier call' % sorted(mutated))
    from . import c06
    c06.r_scan(repo, rep, 'R4.1')
    c06.r_scan_deep(repo, rep, 'R4.1')
    c06.r_feature_loop(repo, rep, 'R4.1')
    ru.r_instantiation(repo, rep, 'R4.1')
    c06.r_feature_relations(repo, rep, 'R4.1')
    r_unary_labels(repo, rep)
    rep.floor('rows of the shipped unary table', r_unary_table(repo, rep), 15)
    r_root_list(repo, rep)
    from .c13 import r_xor
    r_xor(repo.module('depccg/cat.py'), rep, 'R4.1')     # scan() compares a twice-bound variable's two values with ^
    rep.floor('registered Japanese combinators', len(reg), 11)
    rep.floor('schema symbols produced', len({s for _, s in labels if s in rg.SCHEMAS['ja']}), 10)
    rep.note('labels', sorted(labels))
