"""C14 -- rule application is pure, total, reproducible; filters only remove."""
import ast

from .. import rules_unif as ru
from .. import rules_grammar as rg
from ..pygrammar import combinator_functions
from ..core import AnalysisError, src, qualname_of
from ..pysym import SymExec, show, subterms, guards_of
from ..rules_pyx import N, C, A
from .. import logic

EXPLANATION = (
    'Effect, order-dependence and dominance analyses over the call-graph closure of en/ja apply_binary_rules and '
    'apply_unary_rules (grammar modules, unification.py, cat.py): R14.1 no function mutates a parameter, a module-level '
    'object or anything reachable from them (param-mutation summaries; writes to `self` only inside Unification, whose '
    'objects are created per rule application; category/feature classes are frozen); R14.2 no order-sensitive iteration '
    'over a set (string hashing differs between processes); R14.3 `seen_rules` flows only into one membership test that '
    'dominates the combinator loop, keyed on both inputs with X and nb erased (en) / the raw pair (ja); R14.4 raw English '
    'inputs reach the combinators only through clear_features(..nb..); R14.5 unary lookup returns [] for unknown '
    'categories and one result per configured target, in order, unfiltered; R14.6 enumerated exception sources: matcher '
    'protocol (R6.2), shape-specific attribute reads guarded by shape tests or a successful pattern match, feature '
    'methods available on every feature class.  Exceptions outside these classes (e.g. recursion depth) are not decided.'
    ' Third round: a literal table indexed by a computed value must be total (R14.6 partial-lookup).'
    " Fifth round: feature members read on the matcher's per-variable tables are judged like reads on .feature."
    ' Seventh round: one-shot iterators bound at module level (R14.1); reading a binding back is one substitution step (instantiation rule of C03 / C04 / C06).'
    ' Eighth round: no function of the grammar modules asks depccg.lang for the selected language while it runs (R14.1).'
    ' Ninth and tenth round: the erasure rule of C13 (every atom, left and right) runs under R14.4.')
TRUSTED = ['CPython ast', 'sa/pysym.py path walker', 'frozen dataclasses (checked by C13)', 'rule table DESIGN.md C14']

EN, JA, UNI, CAT = rg.EN, rg.JA, ru.UNI, 'depccg/cat.py'


def _parents_of(n):
    from ..core import parents
    return parents(n)


def closure_functions(repo):
    out = []
    for rel in (EN, JA):
        mod = repo.module(rel)
        for fn in mod.functions():
            out.append((mod, fn))
    um = repo.module(UNI)
    cls = um.get('Unification')
    for s in um.tree.body:
        if isinstance(s, ast.FunctionDef):
            out.append((um, s))
    for s in cls.body:
        if isinstance(s, ast.FunctionDef):
            out.append((um, s))
            for n in ast.walk(s):
                if isinstance(n, ast.FunctionDef) and n is not s:
                    out.append((um, n))
    cm = repo.module(CAT)
    for cname in ('Feature', 'UnaryFeature', 'TernaryFeature', 'Category', 'Atom', 'Functor'):
        for s in cm.get(cname).body:
            if isinstance(s, ast.FunctionDef):
                out.append((cm, s))
    return out


def r_purity(repo, rep, R='R14.1'):
    pur = ru.Purity(repo, rep, R)
    n = 0
    for mod, fn in closure_functions(repo):
        allow_self = mod.rel == UNI
        mutated = pur.analyse(mod, fn, allow_self=allow_self)
        params = pur.fn_params(fn)
        w = '%s:%s %s' % (mod.rel, fn.lineno, qualname_of(fn))
        nested = isinstance(getattr(fn, '_parent', None), ast.FunctionDef)
        private = fn.name.startswith('_') and not fn.name.endswith('__')
        if (nested or private) and mod.rel == UNI:
            # private helpers of the matcher (closures, _methods, module-level _functions) may fill dictionaries handed to
            # them by the matcher itself: what they modify is charged to the argument at each call site in their callers
            rep.ok(R, w, '%s: private helper, judged through its callers (mutates %s)' % (qualname_of(fn), sorted(mutated) or 'nothing'), nontrivial=False)
            continue
        n += 1
        bad = sorted(m for m in mutated if m in params and not (m == 'self' and allow_self))
        free = sorted(m for m in mutated if m not in params)
        rep.check(not bad and not free, R, w, '%s:%s:pure' % (mod.rel, qualname_of(fn)),
                  '%s modifies none of its arguments and no outer state' % qualname_of(fn),
                  '%s modifies %s' % (qualname_of(fn), ', '.join(['its argument `%s`' % b for b in bad] + ['the outer object `%s`' % f for f in free])))
    # the matcher's own state starts from fresh objects (nothing shared between matchers)
    um = repo.module(UNI)
    init = um.get('Unification.__init__')
    iparams = pur.fn_params(init)
    for st, out in SymExec(init).run():
        for e in st.events:
            if e[0] == 'setattr' and e[1] == N('self'):
                v = e[3]
                shared = [s_ for s_ in subterms(v) if s_[0] == 'name' and s_[1] not in iparams
                          and s_[1] not in ('Category', 'isinstance', 'str', 'dict', 'set', 'list', 'False', 'True', 'None')
                          and not (v[0] == 'call' and v[1] == s_)]
                rep.check(not shared, R, '%s:%s Unification.__init__' % (UNI, e[-1].lineno), 'Unification.__init__:fresh:%s' % e[2],
                          'matcher field %s starts from a fresh value (%s)' % (e[2], show(v)[:50]),
                          'matcher field %s is initialised from the shared object %s' % (e[2], [show(x) for x in shared]))
    # nothing is memoised at module level in the closure (lru_cache / module dict)
    for rel in (EN, JA, UNI, CAT):
        mod = repo.module(rel)
        for fn in [f for f in ast.walk(mod.tree) if isinstance(f, ast.FunctionDef)]:
            cached = [src(d) for d in fn.decorator_list if 'cache' in src(d)]
            if cached:
                rep.violation(R, '%s:%s %s' % (rel, fn.lineno, fn.name), '%s:%s:memo' % (rel, fn.name),
                              '%s is memoised with %s: results are shared between calls' % (fn.name, cached))
    rep.floor('functions analysed for purity', n, 55)


def r_gate(repo, rep):
    for lang, rel in (('en', EN), ('ja', JA)):
        mod = repo.module(rel)
        fn = mod.get('apply_binary_rules')
        ps = [a.arg for a in fn.args.args]
        if len(ps) != 3:
            raise AnalysisError('%s: apply_binary_rules has parameters %s' % (rel, ps))
        x, y, seen = ps
        w = '%s:%s apply_binary_rules' % (rel, fn.lineno)
        d = fn.args.defaults
        rep.check(len(d) == 1 and isinstance(d[0], ast.Constant) and d[0].value is None, 'R14.3', w, rel + ':gate:default',
                  'seen_rules defaults to None (no restriction)', 'seen_rules default is %s' % [src(q) for q in d])
        cf = lambda v, *names: ('call', A(N(v), 'clear_features'), tuple(C(n_) for n_ in names), ())
        if lang == 'en':
            keys_ok = lambda k: (k[0] == 'tuple' and len(k[1]) == 2 and all(
                q[0] == 'call' and q[1] == A(N(v), 'clear_features') and {a[1] for a in q[2] if a[0] == 'const'} == {'X', 'nb'} and len(q[2]) == 2
                for q, v in zip(k[1], (x, y))))
            keydesc = "(x.clear_features('X','nb'), y.clear_features('X','nb'))"
        else:
            keys_ok = lambda k: k == ('tuple', (N(x), N(y)))
            keydesc = '(x, y)'
        # decision function of the gate: for every truth assignment of the elementary tests, the paths that can run
        # either apply the combinators (open) or return the empty list (closed); open iff `seen is None or key in seen`.
        paths = []
        seen_elsewhere = []
        args_seen = set()
        for st, out in SymExec(fn, unroll=1).run():
            if out != 'return' or st.ret is None:
                continue
            conds = [(c, p_) for c, p_, _ in st.conds]
            applies = [s_ for e in st.events for t in e[1:-1] if isinstance(t, tuple) for s_ in subterms(t)
                       if s_[0] == 'call' and s_[1][0] == 'elem' and rg.is_registry(s_[1][1])]
            for c_ in applies:
                args_seen.add(c_[2])
            empty = (st.ret[0] == 'alloc' and st.ret[1] == 'list' and not any(
                e[0] == 'call' and e[1][1][0] == 'attr' and e[1][1][1] == st.ret for e in st.events)) or st.ret == ('list', ())
            kind = 'open' if applies else ('closed' if empty else 'other:' + show(st.ret)[:80])
            paths.append((conds, kind))
            # seen_rules used for anything else than tests on this path?
            for e in st.events:
                if e[0] in ('branch', 'assert'):
                    continue
                for t in (q for q in e[1:-1] if isinstance(q, tuple)):
                    if N(seen) in set(subterms(t)) and not any(t in set(subterms(c)) for c, _ in conds):
                        seen_elsewhere.append(show(t)[:60])
        P = ('isnone', N(seen))
        try:
            atoms, rows = logic.decision_table(paths)
        except ValueError as e:
            raise AnalysisError('%s: apply_binary_rules tests too many conditions (%s)' % (rel, e))
        q_atoms = [a for a in atoms if a[0] == 'in' and a[2] == N(seen)]
        good_q = [a for a in q_atoms if keys_ok(a[1])]
        rep.check(len(q_atoms) == 1 and len(good_q) == 1, 'R14.3', w, rel + ':gate:key',
                  'seen_rules is consulted with the key %s' % keydesc,
                  'seen_rules is consulted with %s, expected one test of %s' % ([show(a[1])[:80] for a in q_atoms], keydesc))
        opened = closed = 0
        bad = []
        for sigma, outs in rows:
            want = 'open' if (sigma.get(P, False) or any(sigma.get(a, False) for a in good_q)) else 'closed'
            if not sigma.get(P, False) and P not in sigma:
                want = 'open'           # the function never asks whether seen_rules is None
            for o in outs:
                if o == 'open':
                    opened += 1
                elif o == 'closed':
                    closed += 1
                if o != want:
                    bad.append('%s when %s' % (o, logic.show_sigma(sigma, show)))
        rep.check(not bad, 'R14.3', w, rel + ':gate:closed' if any(b.startswith('open') for b in bad) else rel + ':gate:dominates',
                  'the combinators run exactly when seen_rules is None or %s is in it; otherwise the result is the empty list' % keydesc,
                  'the outcome is not decided by `seen_rules is None or %s in seen_rules`: %s' % (keydesc, sorted(set(bad))[:4]))
        rep.check(P in atoms, 'R14.3', w, rel + ':gate:none-test', 'an absent seen_rules (None) is tested for', 'no path tests `seen_rules is None`')
        rep.check(not seen_elsewhere, 'R14.3', w, rel + ':gate:only-use', 'seen_rules is used for nothing but the gate',
                  'seen_rules also flows into %s' % sorted(set(seen_elsewhere)))
        rep.check(opened >= 1 and closed >= 1, 'R14.3', w, rel + ':gate:both', 'both gate outcomes exist', 'gate outcomes: open %d, closed %d' % (opened, closed))
        # what reaches the combinators
        if lang == 'en':
            ok = bool(args_seen) and all(len(a) == 2 and all(
                q[0] == 'call' and q[1] == A(N(v), 'clear_features') and C('nb') in q[2] and all(z in (C('nb'),) for z in q[2])
                for q, v in zip(a, (x, y))) for a in args_seen)
            rep.check(ok, 'R14.4', w, rel + ':nb-erased', "the combinators only see the inputs with 'nb' erased (and nothing else erased)",
                      'the combinators are called with %s' % [tuple(show(q) for q in a) for a in args_seen])
        else:
            ok = args_seen == {(N(x), N(y))}
            rep.check(ok, 'R14.4', w, rel + ':raw-pair', 'the combinators see the inputs unchanged', 'the combinators are called with %s'
                      % [tuple(show(q) for q in a) for a in args_seen])


def r_partial_lookups(repo, rep, R='R14.6'):
    """a literal table indexed by a computed value answers only for the values it lists: `('A', 'B', 'C')[x.nargs]` raises
    IndexError for a category with more arguments, `{..}[key]` KeyError for an unlisted key.  Such a lookup is total only
    when the index is a truth value into a pair, or the key was tested with `in` / `.get` is used."""
    n = 0
    for mod, fn in closure_functions(repo):
        consts = {}
        for s_ in mod.tree.body:
            if isinstance(s_, ast.Assign) and isinstance(s_.value, (ast.Tuple, ast.List, ast.Dict)) and len(s_.targets) == 1 and isinstance(s_.targets[0], ast.Name):
                consts[s_.targets[0].id] = s_.value
        for node in ast.walk(fn):
            if not isinstance(node, ast.Subscript) or not isinstance(node.ctx, ast.Load):
                continue
            table = node.value
            if isinstance(table, ast.Name) and table.id in consts and not any(
                    isinstance(x, ast.Name) and x.id == table.id and isinstance(x.ctx, ast.Store) for x in ast.walk(fn)):
                table = consts[table.id]
            if not isinstance(table, (ast.Tuple, ast.List, ast.Dict)):
                continue
            idx = node.slice
            if isinstance(idx, (ast.Constant, ast.Slice)) or (isinstance(idx, ast.UnaryOp) and isinstance(idx.operand, ast.Constant)):
                continue
            n += 1
            size = len(table.keys) if isinstance(table, ast.Dict) else len(table.elts)
            w = '%s:%s %s' % (mod.rel, node.lineno, qualname_of(fn))
            total = False
            why = ''
            if not isinstance(table, ast.Dict) and size == 2 and isinstance(idx, (ast.Compare, ast.BoolOp)) or \
                    (isinstance(idx, ast.UnaryOp) and isinstance(idx.op, ast.Not)) or \
                    (isinstance(idx, ast.Call) and src(idx.func) == 'bool'):
                total, why = size == 2, 'a truth value indexes a pair'
            elif isinstance(table, ast.Dict) or isinstance(node.value, ast.Name):
                # inside a branch taken only for keys the table lists: `if key in ')>':` .. TABLE[key]
                key = src(idx)
                if isinstance(table, ast.Dict) and all(isinstance(k_, ast.Constant) for k_ in table.keys):
                    keys = {k_.value for k_ in table.keys}
                    child = node
                    for anc in _parents_of(node):
                        if isinstance(anc, ast.If) and any(child is b_ or any(child is x for x in ast.walk(b_)) for b_ in anc.body):
                            tests = anc.test.values if isinstance(anc.test, ast.BoolOp) and isinstance(anc.test.op, ast.And) else [anc.test]
                            for t in tests:
                                if isinstance(t, ast.Compare) and len(t.ops) == 1 and src(t.left) == key:
                                    members = None
                                    c0 = t.comparators[0]
                                    if isinstance(t.ops[0], ast.In):
                                        if isinstance(c0, ast.Constant) and isinstance(c0.value, str):
                                            members = set(c0.value)
                                        else:
                                            got = rg.const_strings(mod, c0)
                                            if got is None and isinstance(c0, ast.Name):
                                                cv = [s_.value for s_ in mod.tree.body if isinstance(s_, ast.Assign) and len(s_.targets) == 1
                                                      and isinstance(s_.targets[0], ast.Name) and s_.targets[0].id == c0.id]
                                                if len(cv) == 1 and isinstance(cv[0], ast.Constant) and isinstance(cv[0].value, str):
                                                    got = list(cv[0].value)
                                            members = set(got) if got is not None else None
                                    elif isinstance(t.ops[0], ast.Eq) and isinstance(c0, ast.Constant):
                                        members = {c0.value}
                                    if members is not None and members <= keys:
                                        total, why = True, 'reached only for keys %s, all listed' % sorted(members)
                        if isinstance(anc, (ast.FunctionDef, ast.Lambda)):
                            break
                        child = anc
                for t in ast.walk(fn):
                    if isinstance(t, ast.Compare) and len(t.ops) == 1 and isinstance(t.ops[0], (ast.In, ast.NotIn)) and src(t.left) == key \
                            and src(t.comparators[0]) == src(node.value) and t.lineno <= node.lineno:
                        total, why = True, 'the key is tested with `in` first'
            rep.check(total, R, w, '%s:%s:partial-lookup:%s' % (mod.rel, qualname_of(fn), src(node)[:40]),
                      'the literal table lookup `%s` is total (%s)' % (src(node)[:60], why),
                      'the literal table of %d entries is indexed by the computed value `%s`: any other value raises instead of giving an answer'
                      % (size, src(idx)[:40]))
    return n


def r_unary(repo, rep, R='R14.5'):
    for rel in (EN, JA):
        mod = repo.module(rel)
        fn = mod.get('apply_unary_rules')
        x, table = [a.arg for a in fn.args.args][:2]
        w = '%s:%s apply_unary_rules' % (rel, fn.lineno)
        unknown = known = 0
        IN = ('in', N(x), N(table))
        targets = ('sub', N(table), N(x))
        for st, out in SymExec(fn, unroll=1).run():
            if out != 'return' or st.ret is None:
                if out != 'raise':
                    rep.violation(R, w, rel + ':unary:returns', 'a path through apply_unary_rules returns nothing')
                continue
            conds = [(c, p_) for c, p_, _ in st.conds]
            absent = logic.excluded(conds, ('atom', IN))
            present = logic.implied(conds, ('atom', IN))
            r = st.ret
            # `if not unary_rules.get(x): return []` -- absent, or present with nothing configured: either way no result
            nothing = ('or', (logic.neg(('atom', IN)), logic.neg(('atom', ('truthy', targets)))))
            if absent or logic.implied(conds, nothing):
                unknown += 1
                empty = (r[0] == 'alloc' and r[1] == 'list' and not any(e[0] == 'call' and e[1][1][0] == 'attr' and e[1][1][1] == r for e in st.events)) \
                    or r == ('list', ())
                rep.check(empty, R, w, rel + ':unary:unknown',
                          'a category without entry yields the empty list', 'a category without entry yields %s' % show(r))
                continue
            known += 1
            rep.check(present, R, w, rel + ':unary:guarded', 'the table is read only after `x in unary_rules` held',
                      'a path reads the table without having tested `%s in %s`' % (x, table))
            ok = False
            detail = show(r)[:120]
            if r[0] == 'listcomp' and len(r[2]) == 1:
                it, filt = r[2][0]
                elt = r[1]
                is_elem = lambda t, it0=it: t[0] == 'elem' and t[1] == it0
                if it == ('call', ('attr', N(table), 'get'), (N(x),), ()) and present:
                    it = targets        # the entry fetched with .get, on a path where the key is known to be there
                cat = None
                if elt[0] == 'call' and elt[1] == N('CombinatorResult'):
                    cat = dict(elt[3]).get('cat', (elt[2] or (None,))[0])
                ok = it == targets and not filt and cat is not None and is_elem(cat)
                if it != targets:
                    detail = 'iterates %s' % show(it)[:80]
                elif filt:
                    detail = 'filters the targets by %s' % [show(c)[:60] for c in filt]
            rep.check(ok, R, w, rel + ':unary:one-per-target',
                      'every configured target of x yields exactly one result carrying that target, in table order',
                      'the result for a known category is not one CombinatorResult per entry of %s[%s]: %s' % (table, x, detail))
        rep.check(unknown >= 1 and known >= 1, R, w, rel + ':unary:both', 'both lookup outcomes exist', 'lookup outcomes: unknown %d, known %d' % (unknown, known))


def r_feature_methods(repo, rep, R='R14.6'):
    """a method/attribute used on a `.feature` value must exist on every Feature class unless guarded"""
    cat = repo.module(CAT)
    members = {}
    for c in ('UnaryFeature', 'TernaryFeature'):
        ms = set()
        for s in cat.get(c).body + cat.get('Feature').body:
            if isinstance(s, ast.FunctionDef):
                ms.add(s.name)
            if isinstance(s, ast.AnnAssign) and isinstance(s.target, ast.Name):
                ms.add(s.target.id)
        members[c] = ms | {'__eq__', '__hash__', '__str__', '__repr__'}
    n = 0
    for mod, fn in closure_functions(repo):
        if mod.rel == CAT and qualname_of(fn).split('.')[0] in ('UnaryFeature', 'TernaryFeature', 'Feature'):
            continue
        seen = set()
        for st, out in SymExec(fn, unroll=1, watch_attrs=tuple(sorted(set().union(*members.values()) | {'items', 'values', 'keys', 'value', 'kv1', 'kv2', 'kv3'}))).run():
            conds = [(e[1], e[2]) for e in st.events if e[0] == 'branch']
            for e in st.events:
                if e[0] != 'getattr':
                    continue
                recv, attr, node = e[1], e[2], e[3]
                # a feature value: x.feature, or an entry of the matcher's tables of features seen per variable
                # (self.x_features[v] / self.y_features[v], filled with .feature values by the structural scan)
                is_feat = (recv[0] == 'attr' and recv[2] == 'feature') or (
                    recv[0] == 'sub' and recv[1][0] == 'attr' and recv[1][2] in ('x_features', 'y_features') and mod.rel == UNI)
                if not is_feat or id(node) in seen:
                    continue
                seen.add(id(node))
                n += 1
                lacking = [c for c, ms in members.items() if attr not in ms]
                guards = list(guards_of(st, e)) + conds
                guarded = any(pol and g[0] == 'call' and g[1] in (N('isinstance'), N('hasattr')) and g[2] and g[2][0] == recv for g, pol in guards)
                rep.check(not lacking or guarded, R, '%s:%s %s' % (mod.rel, node.lineno, qualname_of(fn)),
                          '%s:%s:feature-member:%s' % (mod.rel, qualname_of(fn), attr),
                          '%s: `.feature.%s` is defined for every feature class%s' % (qualname_of(fn), attr, ' (guarded)' if lacking else ''),
                          '%s: `.feature.%s` does not exist on %s and the read is not guarded by a type test' % (qualname_of(fn), attr, lacking))
    return n


def r_no_settings(repo, rep, R='R14.1'):
    """a rule is a function of its two categories: nothing in the grammar modules asks for a process-wide setting (the selected
    language of depccg.lang) while it runs -- the same pair would give another result after the next set_global_language_to()."""
    n = 0
    for rel in (EN, JA, 'depccg/grammar/__init__.py'):
        mod = repo.module(rel)
        tree = ast.parse(repo.text(rel))
        from ..core import attach_parents, enclosing_function
        attach_parents(tree)
        settings = {}
        for imp in ast.walk(tree):
            if isinstance(imp, ast.ImportFrom) and imp.module in ('depccg.lang', 'depccg') or isinstance(imp, ast.ImportFrom) and imp.level and imp.module == 'lang':
                for a in imp.names:
                    if imp.module.endswith('lang') or a.name == 'lang':
                        settings[a.asname or a.name] = a.name
            if isinstance(imp, ast.Import):
                for a in imp.names:
                    if a.name == 'depccg.lang':
                        settings[(a.asname or 'depccg')] = 'depccg.lang'
        hits = []
        for x in ast.walk(tree):
            if isinstance(x, ast.Name) and isinstance(x.ctx, ast.Load) and x.id in settings and enclosing_function(x) is not None:
                hits.append(x)
        n += 1
        for x in hits:
            fn = enclosing_function(x)
            rep.violation(R, '%s:%s %s' % (rel, x.lineno, fn.name), '%s:%s:reads-setting:%s' % (rel, fn.name, settings[x.id]),
                          '%s reads `%s` of depccg.lang while it runs: what a rule returns for a pair of categories then depends on which language was '
                          'selected last in this process, not on the pair alone (the same call gives another head / result after set_global_language_to)' % (fn.name, x.id))
        if not hits:
            rep.ok(R, rel, '%s: no function asks for the process-wide language setting' % rel)
    return n


def check(repo, rep, tier):
    rep.rule('R14.1', 'purity: no mutation of parameters / module-level objects in the closure of apply_*_rules')
    rep.rule('R14.2', 'no order-sensitive iteration over a set')
    rep.rule('R14.3', 'seen-rule gate: one membership test dominating the combinator loop; closed gate -> []; no other use')
    rep.rule('R14.4', "English combinators see inputs only through clear_features('nb'); Japanese see the raw pair")
    rep.rule('R14.5', 'unary lookup: [] for unknown, one result per configured target in order, unfiltered')
    rep.rule('R14.6', 'exception sources: matcher protocol, shape-guarded attribute reads, feature members on every feature class')
    r_purity(repo, rep)
    n_loops = ru.r_hash_order(repo, rep, [EN, JA, UNI, CAT])
    rep.floor('loops inspected for set iteration', n_loops, 5)
    r_gate(repo, rep)
    r_unary(repo, rep)
    r_no_settings(repo, rep)
    # "English results do not depend on nb marks" and the seen-rule key rest on the erasure itself: clear_features removes the named
    # features on every atom, left and right (rule of C13)
    from .c13 import r_clear
    r_clear(repo.module(CAT), rep, 'R14.4')
    n_sites = ru.r_client_typestate(repo, rep, [EN, JA, 'depccg/grammar/__init__.py'], R='R14.6')
    from .c06 import shared_sites
    n_sites += shared_sites(repo, rep)
    rep.floor('Unification(...) client sites', n_sites, 16)
    n_reads = 0
    from ..pysym import VOCABULARY
    for mod, fn in closure_functions(repo):
        if mod.rel in (EN, JA, UNI) and isinstance(getattr(fn, '_parent', None), ast.Module) and fn.name.startswith('_') and fn.name not in VOCABULARY \
                and mod.aliases.get(fn.name, fn.name) not in VOCABULARY \
                and any(isinstance(c, ast.Name) and c.id == fn.name and isinstance(c.ctx, ast.Load) and not any(p_ is fn for p_ in _parents_of(c))
                        for c in ast.walk(mod.tree)):
            # a private helper of a grammar module (result builder of a schema table, ...): the walker inlines it into the
            # rule functions that call it, and its attribute reads are judged there, under the guards of the caller
            rep.ok('R14.6', '%s:%s %s' % (mod.rel, fn.lineno, fn.name), '%s: private helper, shape-specific reads judged in its callers' % fn.name, nontrivial=False)
            continue
        par_ = getattr(fn, '_parent', None)
        if isinstance(par_, ast.FunctionDef):
            # a closure that does not call itself and is only ever called by name from its host and its sibling closures: the
            # walker reads it in place there, under the tests the caller has made (slashes_agree(s, t) behind s.is_functor and ..)
            uses_ = [c for c in ast.walk(par_) if isinstance(c, ast.Name) and c.id == fn.name and isinstance(c.ctx, ast.Load)]
            direct_ = [c for c in uses_ if isinstance(getattr(c, '_parent', None), ast.Call) and c._parent.func is c]
            recursive_ = any(any(p_ is fn for p_ in _parents_of(c)) for c in uses_)
            if uses_ and len(direct_) == len(uses_) and not recursive_:
                rep.ok('R14.6', '%s:%s %s' % (mod.rel, fn.lineno, fn.name), '%s: closure called only by name from its host, shape-specific reads judged in its callers' % fn.name, nontrivial=False)
                continue
        if isinstance(par_, ast.ClassDef) and fn.name.startswith('_') and not fn.name.startswith('__'):
            # a private method that does not call itself and is only ever called as self.<name>(..) from methods of its own class
            # (the walk `==` and `^` share): read in place there, behind the isinstance tests its callers make
            uses_ = [a_ for a_ in ast.walk(mod.tree) if isinstance(a_, ast.Attribute) and a_.attr == fn.name and isinstance(a_.ctx, ast.Load)]
            direct_ = [a_ for a_ in uses_ if isinstance(a_.value, ast.Name) and a_.value.id == 'self' and isinstance(getattr(a_, '_parent', None), ast.Call) and a_._parent.func is a_
                       and any(p_ is par_ for p_ in _parents_of(a_))]
            recursive_ = any(any(p_ is fn for p_ in _parents_of(a_)) for a_ in uses_)
            if uses_ and len(direct_) == len(uses_) and not recursive_:
                rep.ok('R14.6', '%s:%s %s' % (mod.rel, fn.lineno, fn.name), '%s: private method called only from its own class, shape-specific reads judged in its callers' % fn.name, nontrivial=False)
                continue
        if isinstance(par_, ast.ClassDef) and fn.name.startswith('_') and not fn.name.startswith('__'):
            uses_ = [a_ for a_ in ast.walk(mod.tree) if isinstance(a_, ast.Attribute) and a_.attr == fn.name and isinstance(a_.ctx, ast.Load)]
            as_arg = [a_ for a_ in uses_ if isinstance(getattr(a_, '_parent', None), ast.Call) and a_ in getattr(a_, '_parent').args]
            if uses_ and len(as_arg) == len(uses_):
                # a private method that is only handed on as a function (the per-atom step of a structural map): what it is
                # applied to is decided by the map, its reads are those of the atom case
                rep.ok('R14.6', '%s:%s %s' % (mod.rel, fn.lineno, fn.name), '%s: private method used only as a callback, shape-specific reads belong to the map that applies it' % fn.name, nontrivial=False)
                continue
        n_reads += ru.r_shape_safety(repo, rep, mod, fn, 'R14.6')
    rep.floor('shape-specific attribute reads judged', n_reads, 40)
    r_partial_lookups(repo, rep)
    ru.r_instantiation(repo, rep, 'R14.6')      # reading a binding back is one substitution step per atom: nothing that can loop or raise (shared with C03 / C04 / C06)
    from ..lints import r_oneshot_iterators
    r_oneshot_iterators(repo, rep, 'R14.1', [EN, JA, UNI, CAT],
                        'a membership test or loop over it sees its elements in the first call only, so the same pair gets another answer from the second call on (and in a fresh process)')
    nf = r_feature_methods(repo, rep)
    rep.floor('feature member reads judged', nf, 1)     # (two of the three on the reference tree sit in en._match, which nothing calls)
    for rel in (EN, JA):
        rg.check_dispatch(rel[-5:-3], repo.module(rel), rep, 'R14.3')
