"""C15 -- XML formats round-trip and give ccg2lambda a complete derivation (vocabulary clauses)."""
import ast
import re

from ..core import AnalysisError, attach_parents, src, qualname_of, closure_walk, enclosing_function
from ..pysym import SymExec, show, subterms, str_parts, argof, guards_of, own_params, self_call_pred, all_calls, terms_of
from ..rules_pyx import N, C, A
from .. import codec
from .. import logic
from .c19 import grammar_labels

EXPLANATION = (
    'Vocabulary agreement between each XML writer and its readers: R15.1 C&C XML -- element tags written (ccg, rule, lf) '
    'are exactly the tags read_xml dispatches on, every attribute the reader subscripts is written for that element kind, '
    'the token keys it requires are the keys Token.of_word / of_piped create, children are written in order; R15.2 Jigg '
    'XML -- every attribute read by read_jigg_xml and by ccg2lambda\'s build_ccg_tree / find_node_by_id is written, the '
    'terminal reference and the token id are the same template over (sentence index, token index), child is a '
    'blank-joined list of span ids built by the same expression, root is set from the top span; R15.3 span ids are unique '
    'by construction (built once per traverse call, before recursion, from a counter that advances on every read; one '
    'converter per sentence shared by its n-best trees); R15.4 the rule attribute handed to ccg2lambda is drawn from the '
    'vocabulary the active language\'s templates key on (data: rule values of the Japanese template file are Japanese '
    'symbols, those of the English file are label strings; code: every to_jigg_xml call feeding ccg2lambda.parse selects '
    'symbols exactly as the plain jigg_xml branch does).  Offsets tiling, tree isomorphism and token normalisation are '
    'value-level and not decided.'
    ' The XML readers / writers hand on sentences and n-best trees in the order read (no sort / reverse / set); no default argument evaluates the language at import time; the Jigg writer is found by role and its id / position bookkeeping is accepted as counter, threaded parameter or per-tree counter.'
    " Third round: token names for ccg2lambda (R15.5: normalize_token replaces all logic punctuation and prefixes '_'; normalize_tokens leaves nothing it wrote un-normalised) and no module-level table written by the tree builder modules (R15.6)."
    ' Fourth round: the file-name dispatch of the readers (R15.7), the Jigg spelling of one-valued features (R15.8), normalize_tokens works on a copy (R15.9).'
    ' Fifth round: token fields written through `for k, v in token.items(): set(k, f(v))` are rewritten fields.'
    " Sixth and seventh round: exactly one span flagged as root (R15.3 one-root-flag), categories read from the node's own span, no XML element tested for truth, no container shared between yielded results (R15.2)."
    " Eighth round: printers leave the derivation's tokens alone (R15.2); every sentence, failed or not, is numbered (R15.1)."
    ' Ninth and tenth round: normalize_tokens normalises what is in the attribute now, not a copy read before the write (R15.5); the bare-base rule of the Jigg categories (R15.8).'
    ' Eleventh round: the rule attribute is written on exactly the Jigg spans that have children (R15.2); every token field is written to the C&C leaf whatever its value (R15.1).')
TRUSTED = ['CPython ast', 'sa/pysym.py path walker', 'a line-based scan of the YAML templates for `rule:` values']

PX = 'depccg/printer/xml.py'
JX = 'depccg/printer/jigg_xml.py'
RD = 'depccg/tools/reader.py'
PI = 'depccg/printer/__init__.py'
CT = 'depccg/semantics/ccg2lambda/ccg2lambda_tools.py'
SI = 'depccg/semantics/ccg2lambda/semantic_index.py'


def set_calls(fn):
    """-> {receiver text: {attribute: value src}} of <x>.set('attr', v) calls"""
    out = {}
    for n in closure_walk(fn):
        if isinstance(n, ast.Call) and isinstance(n.func, ast.Attribute) and n.func.attr == 'set' and len(n.args) == 2:
            k = n.args[0]
            key = k.value if isinstance(k, ast.Constant) else '*' + src(k)
            out.setdefault(src(n.func.value), {})[key] = n.args[1]
        # x.attrib.update(d): set(k, v) for every item of d
        if isinstance(n, ast.Call) and isinstance(n.func, ast.Attribute) and n.func.attr == 'update' and len(n.args) == 1 and not n.keywords \
                and isinstance(n.func.value, ast.Attribute) and n.func.value.attr == 'attrib':
            out.setdefault(src(n.func.value.value), {})['*items of ' + src(n.args[0])] = n.args[0]
    return out


def elements(fn):
    """-> {var: tag} for x = etree.Element('tag') / etree.SubElement(parent, 'tag')"""
    out = {}
    for n in closure_walk(fn):
        if isinstance(n, ast.Assign) and isinstance(n.value, ast.Call) and src(n.value.func) in ('etree.Element', 'etree.SubElement'):
            tag = n.value.args[-1]
            if isinstance(tag, ast.Constant) and isinstance(n.targets[0], ast.Name):
                out[n.targets[0].id] = tag.value
    return out


def attrib_reads(fn, var_pred=None):
    """attribute names read through x.attrib['k'] / attrib['k'] / x.get('k')"""
    out = set()
    for n in closure_walk(fn):
        if isinstance(n, ast.Subscript) and isinstance(n.slice, ast.Constant) and isinstance(n.slice.value, str):
            v = src(n.value)
            if v == 'attrib' or v.endswith('.attrib') or v == 'token_attribs':
                out.add((v, n.slice.value))
        if isinstance(n, ast.Call) and isinstance(n.func, ast.Attribute) and n.func.attr in ('get', 'pop') and n.args and isinstance(n.args[0], ast.Constant):
            out.add((src(n.func.value), n.args[0].value))
        if isinstance(n, ast.Compare) and len(n.ops) == 1 and isinstance(n.ops[0], (ast.In, ast.NotIn)) and isinstance(n.left, ast.Constant) \
                and (src(n.comparators[0]) == 'attrib' or src(n.comparators[0]).endswith('.attrib')):
            out.add((src(n.comparators[0]), n.left.value))
    return out


def element_kinds(fn):
    """which XML element a local of the reader stands for, from where it is bound: the loop variable over
    <x>.xpath('<path>') is an element named by the last step of the path; a dictionary comprehension over such elements maps
    to them; a parameter of a local function is what its call sites pass; `v = e.attrib` / `dict(e.attrib)` is e's
    attribute table.  -> {name: 'token' | 'map:span' | 'attrib:ccg' ...}"""
    kinds = {}

    def xpath_kind(it):
        if isinstance(it, ast.Call) and isinstance(it.func, ast.Attribute) and it.func.attr in ('xpath', 'findall', 'iter', 'iterfind', 'iterchildren', 'iterdescendants', 'find') and it.args \
                and isinstance(it.args[0], ast.Constant) and isinstance(it.args[0].value, str):
            last = it.args[0].value.rstrip('/').split('/')[-1]
            return last if last.isidentifier() else None
        return None

    def kind_of(e):
        if isinstance(e, ast.Name):
            return kinds.get(e.id)
        if isinstance(e, ast.Subscript):
            k = kind_of(e.value)
            return k[4:] if k and k.startswith('map:') else None
        if isinstance(e, ast.Attribute) and e.attr == 'attrib':
            k = kind_of(e.value)
            return 'attrib:' + k if k and ':' not in k else None
        if isinstance(e, ast.Call) and isinstance(e.func, ast.Name) and e.func.id == 'dict' and len(e.args) == 1 and not e.keywords:
            k = kind_of(e.args[0])
            return k if k and k.startswith('attrib:') else None
        return None
    local_fns = {f.name: f for f in closure_walk(fn) if isinstance(f, ast.FunctionDef)}
    for _ in range(4):
        for n in closure_walk(fn):
            if isinstance(n, (ast.For, ast.comprehension)) and isinstance(n.target, ast.Name):
                k = xpath_kind(n.iter)
                if k:
                    kinds.setdefault(n.target.id, k)
            if isinstance(n, ast.Assign) and len(n.targets) == 1 and isinstance(n.targets[0], ast.Name):
                v = n.value
                if isinstance(v, ast.DictComp):
                    # comprehension targets first
                    for g in v.generators:
                        if isinstance(g.target, ast.Name) and xpath_kind(g.iter):
                            kinds.setdefault(g.target.id, xpath_kind(g.iter))
                    k = kind_of(v.value)
                    if k and ':' not in k:
                        kinds.setdefault(n.targets[0].id, 'map:' + k)
                else:
                    k = kind_of(v)
                    if k:
                        kinds.setdefault(n.targets[0].id, k)
            if isinstance(n, ast.Call) and isinstance(n.func, ast.Name) and n.func.id in local_fns:
                ps = [a.arg for a in local_fns[n.func.id].args.args]
                for i, a in enumerate(n.args[:len(ps)]):
                    k = kind_of(a)
                    if k:
                        kinds.setdefault(ps[i], k)
    return kinds, kind_of


def kinded_reads(fn):
    """attribute names the reader looks up, by element kind: {(kind, key)}"""
    kinds, kind_of = element_kinds(fn)
    out = set()
    for n in closure_walk(fn):
        if isinstance(n, ast.Subscript) and isinstance(n.slice, ast.Constant) and isinstance(n.slice.value, str):
            k = kind_of(n.value)
            if k and k.startswith('attrib:'):
                out.add((k[7:], n.slice.value))
        if isinstance(n, ast.Call) and isinstance(n.func, ast.Attribute) and n.func.attr in ('get', 'pop') and n.args and isinstance(n.args[0], ast.Constant):
            k = kind_of(n.func.value)
            if k and k.startswith('attrib:'):
                out.add((k[7:], n.args[0].value))
            elif k and ':' not in k and n.func.attr == 'get':
                out.add((k, n.args[0].value))           # element.get('k')
        if isinstance(n, ast.Compare) and len(n.ops) == 1 and isinstance(n.ops[0], (ast.In, ast.NotIn)) and isinstance(n.left, ast.Constant):
            k = kind_of(n.comparators[0])
            if k and k.startswith('attrib:'):
                out.add((k[7:], n.left.value))
    return out


def scope_nodes(mod, fn):
    """the syntax nodes of fn and of the private module-level helpers it hands its work to (transitively): a reader that
    only opens the file and delegates the walk to `_trees_of_xml(root, ..)` is judged on both"""
    seen, todo = [fn], [fn]
    while todo:
        f = todo.pop()
        for c in ast.walk(f):
            if isinstance(c, ast.Call) and isinstance(c.func, ast.Name) and c.func.id.startswith('_'):
                g = mod._find(mod.tree.body, c.func.id, (ast.FunctionDef,)) if hasattr(mod, '_find') else None
                if isinstance(g, ast.FunctionDef) and g not in seen:
                    seen.append(g)
                    todo.append(g)
    out = []
    for f in seen:
        out.extend(ast.walk(f))
    return out


def r_candc(repo, rep, R='R15.1'):
    pm = repo.module(PX)
    pt = pm.get('_process_tree')
    els = elements(pt)
    sets = set_calls(pt)
    w = '%s:%s _process_tree' % (PX, pt.lineno)
    tags = set(els.values())
    rm = repo.module(RD)
    rx = rm.get('read_xml')
    rx_nodes = scope_nodes(rm, rx)
    rtags = {n.comparators[0].value for n in rx_nodes if isinstance(n, ast.Compare) and src(n.left).endswith('.tag')
             and isinstance(n.comparators[0], ast.Constant)}
    # elements selected by name: xpath('ccg') or the ElementTree lookups findall / iterchildren / iter / iterfind('ccg')
    xp = {n.args[0].value.split('/')[-1] for n in rx_nodes if isinstance(n, ast.Call) and isinstance(n.func, ast.Attribute)
          and n.func.attr in ('xpath', 'findall', 'iterchildren', 'iter', 'iterfind', 'iterdescendants')
          and n.args and isinstance(n.args[0], ast.Constant) and isinstance(n.args[0].value, str)}
    rep.check(tags == {'ccg', 'rule', 'lf'} and rtags == {'rule', 'lf'} and 'ccg' in xp, R, w, 'candc:tags',
              'writer tags %s = tags the reader dispatches on %s + %s' % (sorted(tags), sorted(rtags), sorted(xp)),
              'writer tags %s, reader dispatches on %s and selects %s' % (sorted(tags), sorted(rtags), sorted(xp)))
    by_tag = {els[v]: set(a) for v, a in sets.items() if v in els}
    star_leaf = any(k.startswith('*') for k in by_tag.get('lf', ()))
    rec = rm.get('read_xml.parse.rec')
    reads = {k for v, k in attrib_reads(rec)}
    # Token(...) constructions of the reader, as the walker evaluates them (keys from a table, ** of a display, ...)
    token_calls = []
    for st_, o_ in SymExec(rec, unroll=1).run():
        for c_ in all_calls(st_, N('Token')):
            if c_ not in token_calls:
                token_calls.append(c_)
    leaf_keys = {k for c_ in token_calls for k, _ in c_[3] if k is not None}
    reads |= {v[2][1] for c_ in token_calls for _, v in c_[3] if v[0] == 'sub' and v[2][0] == 'const' and show(v[1]).endswith('attrib')}
    rep.check('cat' in by_tag.get('rule', ()) and 'cat' in by_tag.get('lf', ()) and 'cat' in reads, R, w, 'candc:cat',
              'the category attribute `cat` is written on rule and lf elements and read from both', 'cat attribute written on %s' % {t: sorted(a) for t, a in by_tag.items()})
    tm = repo.module('depccg/types.py')
    made = []
    for q in ('Token.of_word', 'Token.of_piped'):
        f = tm.get(q)
        for n in ast.walk(f):
            if isinstance(n, ast.Call) and src(n.func) == 'Token':
                made.append({kw.arg for kw in n.keywords})
    need = reads - {'cat'}
    rep.check(star_leaf and all(need <= m for m in made) and need == leaf_keys, R, w, 'candc:token-keys',
              'the leaf element carries every token field; the reader requires %s, which Token.of_word / of_piped always create' % sorted(need),
              'reader requires token fields %s; tokens created by of_word/of_piped have %s; leaf writes all fields: %s' % (sorted(need), [sorted(m) for m in made], star_leaf))
    child_loops = [n for n in closure_walk(pt) if isinstance(n, (ast.For, ast.comprehension)) and isinstance(n.iter, ast.Attribute) and n.iter.attr == 'children']
    rep.check(bool(child_loops), R, w, 'candc:children', 'children are written in order under their rule element', 'children are not written in order')
    # token values are written and read back verbatim
    wrec = pm.get('_process_tree.rec')
    token_keys = need | {'word'}
    rewritten = []
    for st, o in SymExec(wrec, unroll=1).run():
        for e in st.events:
            if e[0] == 'call' and e[1][1][0] == 'attr' and e[1][1][2] == 'set' and len(e[1][2]) == 2:
                k, v = e[1][2]
                if k[0] == 'const' and k[1] in token_keys:
                    rewritten.append('%s=%s' % (k[1], show(v)[:50]))
                elif k[0] == 'unpack' and k[2] == 0 and k[1][0] == 'elem' and not (v[0] == 'unpack' and v[2] == 1 and v[1] == k[1]):
                    # for k, v in token.items(): node.set(k, f(v)) -- every field goes through f
                    rewritten.append('%s=%s' % (show(k)[:30], show(v)[:50]))
    rep.check(not rewritten, R, w, 'candc:token-verbatim:write', 'token fields are written exactly as stored in the token', 'token fields are rewritten on output: %s' % sorted(set(rewritten)))
    # ... and every field is written, whatever its value: the reader indexes the attributes it needs (attrib['lemma']), so a field left out
    # because its value is empty makes the file unreadable
    skipped = []
    n_star = 0
    for st, o in SymExec(wrec, unroll=1).run():
        for e in st.events:
            if e[0] == 'call' and e[1][1][0] == 'attr' and e[1][1][2] == 'set' and len(e[1][2]) == 2:
                k, v = e[1][2]
                if k[0] == 'unpack' and k[2] == 0 and k[1][0] == 'elem':
                    n_star += 1
                    gs = [(g_, pol_) for g_, pol_ in list(guards_of(st, e)) + [(c_, p_) for c_, p_, _n in st.conds] if any(x_ == k[1] for x_ in subterms(g_))]
                    if gs:
                        skipped.append('; '.join('%s%s' % ('' if pol_ else 'not ', show(g_)[:40]) for g_, pol_ in gs[:2]))
    if n_star:
        rep.check(not skipped, R, w, 'candc:token-fields:all', 'every field of a token is written, whatever its value',
                  'a token field is written only when %s: a field with an empty value is left out of the <lf> and read_xml, which indexes the fields it needs, '
                  'raises KeyError on the file' % (skipped[0] if skipped else ''))
    transformed = []
    for c_ in token_calls:
        if c_[2]:
            transformed.append('positional %s' % [show(a)[:30] for a in c_[2]])
        for k_, v_ in c_[3]:
            if not (k_ is not None and v_[0] == 'sub' and v_[2] == C(k_) and show(v_[1]).endswith('attrib')):
                transformed.append('%s=%s' % (k_, show(v_)[:50]))
    rep.check(not transformed, R, '%s:%s read_xml' % (RD, rx.lineno), 'candc:token-verbatim:read', 'token fields are read back exactly as written (field k from attribute k)',
              'token fields are transformed while reading: %s' % transformed)
    xo = pm.get('xml_of')
    s2 = set_calls(xo)
    ok = any({'sentence', 'id'} <= set(a) for a in s2.values())
    rep.check(ok, R, '%s:%s xml_of' % (PX, xo.lineno), 'candc:ccg-attrs', 'each ccg element carries its sentence number and n-best rank', 'ccg attributes are %s' % {k: sorted(v) for k, v in s2.items()})
    # the derivation root is the single child of a <ccg> element: the loop variable over the selected ccg elements, at [0]
    root_ok = False
    for l in [x for x in rx_nodes if isinstance(x, ast.For) and isinstance(x.target, ast.Name)]:
        v_ = l.target.id
        if any(isinstance(n, ast.Subscript) and isinstance(n.value, ast.Name) and n.value.id == v_ and isinstance(n.slice, ast.Constant) and n.slice.value == 0
               for n in ast.walk(l)):
            root_ok = True
    rep.check(root_ok, R, '%s:%s read_xml' % (RD, rx.lineno), 'candc:root', 'the reader takes the single child of ccg as the derivation root', 'reader does not descend into ccg[0]')


def r_jigg(repo, rep, R='R15.2'):
    jm = repo.module(JX)
    proc, _trav = _jigg_roles(jm)
    tj = jm.get('to_jigg_xml')
    span_sets = set_calls(proc)
    els = elements(proc)
    span_var = [v for v, t in els.items() if t == 'span']
    ccg_var = [v for v, t in els.items() if t == 'ccg']
    if len(span_var) != 1 or len(ccg_var) != 1:
        raise AnalysisError('%s: span / ccg elements not found in process()' % JX)
    span_attrs = set(span_sets.get(span_var[0], {}))
    ccg_attrs = set(span_sets.get(ccg_var[0], {}))
    tok_els = elements(tj)
    tok_var = [v for v, t in tok_els.items() if t == 'token']
    tok_sets = set_calls(tj)
    tok_attrs = set(tok_sets.get(tok_var[0], {})) if tok_var else set()
    w = '%s:%s %s' % (JX, proc.lineno, qualname_of(proc))
    rm = repo.module(RD)
    rj = rm.get('read_jigg_xml')
    reads = attrib_reads(rj)
    span_reads = {k for v, k in reads if v in ('attrib', 'span.attrib')}
    ccg_reads = {k for v, k in reads if v in ('tree.attrib', 'ccg.attrib')}
    tok_reads = {k for v, k in reads if v == 'token_attribs'}
    kr = kinded_reads(rj)
    span_reads |= {k for kd, k in kr if kd == 'span'}
    ccg_reads |= {k for kd, k in kr if kd == 'ccg'}
    tok_reads |= {k for kd, k in kr if kd == 'token'}
    rep.check(span_reads <= span_attrs and {'id', 'category', 'child', 'terminal'} <= span_reads, R, w, 'jigg:span-attrs',
              'span attributes read by read_jigg_xml %s are all written %s' % (sorted(span_reads), sorted(span_attrs)),
              'read_jigg_xml reads span attributes %s, the writer sets %s' % (sorted(span_reads), sorted(span_attrs)))
    rep.check(ccg_reads <= ccg_attrs and {'root', 'id'} <= ccg_reads, R, w, 'jigg:ccg-attrs', 'ccg attributes read %s are written %s' % (sorted(ccg_reads), sorted(ccg_attrs)),
              'read_jigg_xml reads ccg attributes %s, the writer sets %s' % (sorted(ccg_reads), sorted(ccg_attrs)))
    rep.check('id' in tok_attrs and 'id' in tok_reads, R, '%s:%s to_jigg_xml' % (JX, tj.lineno), 'jigg:token-id', 'tokens carry the id the reader indexes them by',
              'token attributes written %s, read %s' % (sorted(tok_attrs), sorted(tok_reads)))
    # ccg2lambda tree builder
    cm = repo.module(CT)
    bt = cm.get('build_ccg_tree')
    breads = {k for v, k in attrib_reads(bt)}
    sm = repo.module(SI)
    fn = sm.get('find_node_by_id')
    ftxt = src(fn)
    uses_id = "@id" in ftxt or "'id'" in ftxt
    rep.check({'root', 'child'} <= breads and 'root' in ccg_attrs and 'child' in span_attrs and uses_id and 'id' in span_attrs, R,
              '%s:%s build_ccg_tree' % (CT, bt.lineno), 'jigg:ccg2lambda-attrs',
              'ccg2lambda\'s tree builder reads root / child / id, all of which the writer sets', 'build_ccg_tree reads %s; writer sets ccg %s span %s' % (sorted(breads), sorted(ccg_attrs), sorted(span_attrs)))
    rep.check('rule' in span_attrs and 'category' in span_attrs, R, w, 'jigg:rule-category', 'inner spans carry rule and category for the templates', 'span attributes are %s' % sorted(span_attrs))
    # `rule` is what tells a rule node from a word for ccg2lambda (a span with a rule is matched against the rule templates, never
    # against the lexical ones): it is written on exactly the spans that have children
    n_leaf = n_inner = 0
    wrong = []
    from ..core import enclosing_function as _encl
    for f_ in [n_ for n_ in ast.walk(proc) if isinstance(n_, ast.FunctionDef) and n_ is not proc] + [proc]:
        if not any(isinstance(c_, ast.Call) and isinstance(c_.func, ast.Attribute) and c_.func.attr == 'set' and c_.args and isinstance(c_.args[0], ast.Constant)
                   and c_.args[0].value == 'terminal' and _encl(c_) is f_ for c_ in ast.walk(f_)):
            continue
        for st_, o_ in SymExec(f_, unroll=1).run():
            if o_ == 'raise':
                continue
            names = [e_[1][2][0][1] for e_ in st_.events if e_[0] == 'call' and e_[1][1][0] == 'attr' and e_[1][1][2] == 'set' and len(e_[1][2]) == 2 and e_[1][2][0][0] == 'const']
            if 'terminal' in names:
                n_leaf += 1
                if 'rule' in names:
                    wrong.append('a leaf span (terminal=..) is given a rule attribute')
            elif 'child' in names:
                n_inner += 1
                if 'rule' not in names:
                    wrong.append('an inner span (child=..) is written without its rule')
        break
    if n_leaf and n_inner:
        rep.check(not wrong, R, w, 'jigg:rule-on-inner-spans-only', 'rule is written on the spans that have children and on no leaf span (%d + %d paths)' % (n_inner, n_leaf),
                  '%s: ccg2lambda takes a span with a `rule` for a rule node, so no lexical template matches the words (and a rule node without it is taken for a word)' % sorted(set(wrong))[0] if wrong else '')
    # id templates, read off the values the writer hands to set('terminal', ..) / set('id', ..) with helpers inlined
    def set_values(fn, attr, recv_has=None, **kw):
        out = []
        for st_, o_ in SymExec(fn, **kw).run():
            for e_ in st_.events:
                if e_[0] == 'call' and e_[1][1][0] == 'attr' and e_[1][1][2] == 'set' and len(e_[1][2]) == 2 and e_[1][2][0] == C(attr):
                    if recv_has is not None and recv_has not in show(e_[1][1][1]):
                        continue
                    if e_[1][2][1] not in out:
                        out.append(e_[1][2][1])
        return out

    def shape(t):
        if t is None:
            return None
        return ''.join(x if isinstance(x, str) else '{}' for x in str_parts(t))
    terms_ = set_values(_trav, 'terminal', init_env={_trav.name: ('func', _trav.name, id(_trav))})
    tids_ = set_values(tj, 'id', recv_has="'token'", unroll=1)
    term = terms_[0] if len(terms_) == 1 else None
    tid = tids_[0] if len(tids_) == 1 else None
    rep.check(term is not None and tid is not None and shape(term) == shape(tid) == 's{}_{}', R, w, 'jigg:terminal-template',
              'terminal references and token ids share the template s<sentence>_<token index>', 'terminal template %s, token id template %s' % (shape(term), shape(tid)))
    ok = term is not None and tid is not None and shape(term) == shape(tid) == 's{}_{}'
    if ok:
        tf = [x for x in str_parts(tid) if not isinstance(x, str)]
        sent_t, tok_t = tf

        def enum_index(t):
            return t[0] == 'unpack' and t[2] == 0 and t[1][0] == 'elem' and t[1][1][0] == 'call' and t[1][1][1] == N('enumerate') and len(t[1][1][2]) == 1 and not t[1][1][3]
        tparam = own_params(tj)[0]
        ok = enum_index(sent_t) and sent_t[1][1][2][0] == N(tparam) and enum_index(tok_t) and any(x == sent_t[1] for x in subterms(tok_t[1][1][2][0]))
        first_t = [x for x in str_parts(term) if not isinstance(x, str)][0]
        first = show(first_t)
        cls_ = proc._parent if isinstance(getattr(proc, '_parent', None), ast.ClassDef) else None
        same_sentence = False
        tj_calls = []
        for st_, o_ in SymExec(tj, unroll=1, no_inline=(proc.name,)).run():
            for c_ in all_calls(st_):
                if c_ not in tj_calls:
                    tj_calls.append(c_)
        if first.startswith('self.') and cls_ is not None:
            # the sentence number is a field of the per-sentence converter, set from the constructor argument
            fld = first[5:]
            init = [f_ for f_ in cls_.body if isinstance(f_, ast.FunctionDef) and f_.name == '__init__']
            q = None
            for x in (ast.walk(init[0]) if init else ()):
                if isinstance(x, ast.Assign) and any(src(t) == 'self.' + fld for t in x.targets) and isinstance(x.value, ast.Name):
                    q = x.value.id
            ips = [a.arg for a in init[0].args.args][1:] if init else []
            for c_ in tj_calls:
                if c_[1] == N(cls_.name) and q in ips:
                    bound = dict(zip(ips, c_[2]))
                    bound.update({k: v for k, v in c_[3] if k is not None})
                    same_sentence = bound.get(q) == sent_t
        else:
            # ... or a parameter of the per-tree function, filled by the caller
            cps = own_params(proc)
            if first in cps:
                for c_ in tj_calls:
                    if c_[1] == N(proc.name) or (c_[1][0] == 'attr' and c_[1][2] == proc.name) or (c_[1][0] == 'func' and c_[1][1] == proc.name):
                        bound = dict(zip(cps, c_[2]))
                        bound.update({k: v for k, v in c_[3] if k is not None})
                        same_sentence = bound.get(first) == sent_t
        ok = ok and same_sentence
    rep.check(ok, R, w, 'jigg:same-indices', 'both templates are filled with the sentence index and the running leaf / token index',
              'terminal reference and token id are not filled from the same (sentence, position) pair')
    # the fields of a token are written as stored: for k, v in token.items(): node.set(k, v)
    rewritten, star = [], 0
    for st_, o_ in SymExec(tj, unroll=1, no_inline=(proc.name,)).run():
        for e_ in st_.events:
            if e_[0] == 'call' and e_[1][1][0] == 'attr' and e_[1][1][2] == 'set' and len(e_[1][2]) == 2:
                k, v = e_[1][2]
                if k[0] == 'unpack' and k[2] == 0 and k[1][0] == 'elem':
                    star += 1
                    if not (v[0] == 'unpack' and v[2] == 1 and v[1] == k[1]):
                        rewritten.append('%s=%s' % (show(k)[:30], show(v)[:50]))
    if star:
        rep.check(not rewritten, R, '%s:%s to_jigg_xml' % (JX, tj.lineno), 'jigg:token-verbatim:write', 'token fields are written exactly as stored in the token',
                  'token fields are rewritten on output: %s -- the file no longer holds the words that were parsed' % sorted(set(rewritten))[:2])
    return span_attrs


def r_span_categories(repo, rep, R='R15.2'):
    """every node the Jigg reader builds takes its category from its own <span>: what the writer puts on the <token>s is
    written once per sentence (from the first tree), the spans are written per tree -- a leaf category read from anywhere
    but the span is the first tree's supertag in every other tree of an n-best list"""
    rm = repo.module(RD)
    rj = rm.get('read_jigg_xml')
    fns = [n for n in scope_nodes(rm, rj) if isinstance(n, ast.FunctionDef)]
    recs = [f for f in fns if any(isinstance(c, ast.Call) and self_call_src(c, f) for c in ast.walk(f))]
    judged = 0
    bad = []
    for rec in recs:
        ps = own_params(rec)
        for st, o in SymExec(rec).run():
            t = st.ret
            if o != 'return' or t is None or t[0] != 'call' or t[1][0] != 'attr' or t[1][1] != N('Tree') or t[1][2] not in ('make_terminal', 'make_unary', 'make_binary'):
                continue
            args = dict(zip(('word', 'cat') if t[1][2] == 'make_terminal' else ('cat',), t[2]))
            args.update({k: v for k, v in t[3] if k is not None})
            cat = args.get('cat')
            if cat is None:
                continue
            judged += 1
            names = {x[1] for x in subterms(cat) if x[0] == 'name'} - {'Category'}
            from_span = any(x[0] == 'sub' and x[2] == C('category') for x in subterms(cat)) or \
                any(x[0] == 'call' and x[1][0] == 'attr' and x[1][2] == 'get' and x[2] and x[2][0] == C('category') for x in subterms(cat))
            if not from_span or not names <= set(ps):
                bad.append((rec.lineno, '%s: %s(.., cat=%s)' % (rec.name, t[1][2], show(cat)[:80])))
    if not judged:
        raise AnalysisError('%s: the node builder of read_jigg_xml was not recognised' % RD)
    rep.check(not bad, R, '%s:%s read_jigg_xml' % (RD, bad[0][0] if bad else rj.lineno), 'jigg:category-from-span',
              'every node read back takes its category from its own span (%d builder paths)' % judged,
              'a category is not read from the node\'s own span: %s -- the <token>s are written once per sentence from the first tree, '
              'the other trees of an n-best list come back with its supertags' % '; '.join(x for _, x in bad[:2]))


def self_call_src(c, f):
    return (isinstance(c.func, ast.Name) and c.func.id == f.name) or (isinstance(c.func, ast.Attribute) and c.func.attr == f.name and src(c.func.value) in ('self', 'cls'))


def _jigg_roles(jm):
    """-> (ccg_fn, trav): the function that creates the <ccg> element of one tree and the recursive span writer it uses,
    wherever they live (method + closure, method + method, module function + closure)"""
    ccg_fn = None
    for fn in [f for f in ast.walk(jm.tree) if isinstance(f, ast.FunctionDef)]:
        if any(isinstance(c, ast.Call) and src(c.func) in ('etree.Element', 'Element') and c.args and isinstance(c.args[0], ast.Constant)
               and c.args[0].value == 'ccg' and enclosing_function(c) is fn for c in ast.walk(fn)):
            ccg_fn = fn
    if ccg_fn is None:
        raise AnalysisError('%s: no function creates the <ccg> element' % JX)
    nested = [n for n in ast.walk(ccg_fn) if isinstance(n, ast.FunctionDef) and n is not ccg_fn and enclosing_function(n) is ccg_fn]
    trav = nested[0] if len(nested) == 1 else jm._helper_by_role(ccg_fn, nested)
    if trav is None:
        raise AnalysisError('%s: recursive span writer of %s not found' % (JX, ccg_fn.name))
    return ccg_fn, trav


def r_ids(repo, rep, R='R15.3'):
    jm = repo.module(JX)
    ccg_fn, trav = _jigg_roles(jm)
    tps = own_params(trav)
    p = [x for x in tps if x in ('node', 'tree')]
    p = p[0] if p else tps[0]
    w = '%s:%s %s' % (JX, trav.lineno, trav.name)
    is_self = self_call_pred(trav)
    cls = ccg_fn._parent if isinstance(getattr(ccg_fn, '_parent', None), ast.ClassDef) else None

    def on_call(st, t, node):
        if is_self(t[1]) and t[2]:
            bound = dict(zip(tps, t[2]))
            bound.update({k: v for k, v in t[3] if k is not None})
            a = bound.get(p, t[2][0])
            tag = a[2] if a[0] == 'attr' and a[1] == N(p) else show(a)
            st.data.setdefault('order', []).append(tag)
            st.data.setdefault('recargs', []).append((tag, bound))
            return ('sym', 'ret-of', tag)
        return None

    # the value returned to the parent: a tuple or a record; which component is the id
    def components(t):
        if t is None:
            return None
        if t[0] == 'tuple':
            return list(t[1]), None
        if t[0] == 'call' and t[1][0] == 'name':
            return list(t[2]) + [v for _, v in t[3]], t[1]
        return None

    def is_fresh(x):
        """a read that takes the next number of a counter: self.<property> or next(<counter>)"""
        if x[0] == 'attr' and x[1] == N('self') and cls is not None:
            prop = [s_ for s_ in cls.body if isinstance(s_, ast.FunctionDef) and s_.name == x[2] and any('property' in src(d) for d in s_.decorator_list)]
            return bool(prop)
        if x[0] == 'call' and x[1][0] == 'attr' and x[1][1] == N('self') and not x[2] and not x[3] and x[1][2] in id_methods:
            return True
        return x[0] == 'call' and x[1] == N('next') and len(x[2]) == 1

    # methods that hand out the next id: advance a field of the converter by one and return a value built from it
    id_methods = set()
    for s_ in (cls.body if cls is not None else []):
        if isinstance(s_, ast.FunctionDef) and not s_.decorator_list and len(s_.args.args) == 1:
            augs_ = [n_ for n_ in ast.walk(s_) if isinstance(n_, ast.AugAssign) and isinstance(n_.op, ast.Add) and isinstance(n_.target, ast.Attribute)
                     and isinstance(n_.target.value, ast.Name) and n_.target.value.id == 'self' and isinstance(n_.value, ast.Constant) and n_.value.value == 1]
            rets_ = [n_ for n_ in ast.walk(s_) if isinstance(n_, ast.Return) and n_.value is not None]
            if len(augs_) == 1 and len(rets_) == 1 and any(isinstance(n_, ast.Attribute) and n_.attr == augs_[0].target.attr for n_ in ast.walk(rets_[0].value)):
                id_methods.add(s_.name)
    props = tuple(s_.name for s_ in (cls.body if cls is not None else []) if isinstance(s_, ast.FunctionDef) and any('property' in src(d) for d in s_.decorator_list))
    kinds = {}
    id_counter = None
    rec_fields = None
    paths = SymExec(trav, on_call=on_call, init_env={trav.name: ('func', trav.name, id(trav))}, watch_attrs=props, no_inline=tuple(id_methods)).run()
    for st, o in paths:
        if o != 'return':
            continue
        conds = [(c, pol) for c, pol, _ in st.conds]
        sets = {}
        for e in st.events:
            if e[0] == 'call' and e[1][1][0] == 'attr' and e[1][1][2] == 'set' and len(e[1][2]) == 2 and e[1][2][0][0] == 'const':
                sets[e[1][2][0][1]] = e[1][2][1]
        idt = sets.get('id')
        fresh_in_id = [x for x in (idt[1] if idt is not None and idt[0] == 'fstr' else ((idt,) if idt is not None else ())) if isinstance(x, tuple) and is_fresh(x)]
        comp = components(st.ret)
        if comp is None:
            kinds['?'] = (False, False, False, show(st.ret)[:40] if st.ret else None)
            continue
        parts, rcls = comp
        i_id = parts.index(idt) if idt in parts else None
        if rcls is not None and rec_fields is None:
            ex = SymExec(trav)
            rec_fields = ex.record_fields(rcls)
        # reads of the id counter on this path, and where recursion starts
        once = False
        if len(fresh_in_id) == 1:
            fr = fresh_in_id[0]
            id_counter = fr
            if fr[0] == 'attr':
                reads = [i for i, e in enumerate(st.events) if e[0] == 'getattr' and e[1] == fr[1] and e[2] == fr[2]]
            else:
                reads = [i for i, e in enumerate(st.events) if e[0] == 'call' and e[1] == fr]
            recs = [i for i, e in enumerate(st.events) if e[0] == 'call' and is_self(e[1][1])]
            once = len(reads) == 1 and (not recs or reads[0] < recs[0])
        ret_ok = i_id is not None

        def child_id(tag):
            forms = [('unpack', ('sym', 'ret-of', tag), i_id if i_id is not None else 0)]
            if rec_fields and i_id is not None and i_id < len(rec_fields):
                forms.append(('attr', ('sym', 'ret-of', tag), rec_fields[i_id]))
            return forms
        leaf = logic.implied(conds, logic.formula(A(N(p), 'is_leaf')))
        unary = logic.implied(conds, logic.formula(A(N(p), 'is_unary')))
        kind = 'leaf' if leaf else ('unary' if unary else 'binary')
        child = sets.get('child')
        if kind == 'leaf':
            child_ok = child is None and 'terminal' in sets
        elif kind == 'unary':
            cands = child_id('left_child') + child_id('child')
            child_ok = child is not None and (child in cands or any(str_parts(child) == [c_] for c_ in cands))
        else:
            child_ok = child is not None and any(str_parts(child) == [l_, ' ', r_] for l_ in child_id('left_child') for r_ in child_id('right_child')) \
                and st.data.get('order') == ['left_child', 'right_child']
        prev = kinds.get(kind, (True, True, True, None))
        kinds[kind] = (prev[0] and once, prev[1] and ret_ok, prev[2] and child_ok, show(child)[:60] if child else None)
    for kind in ('leaf', 'unary', 'binary'):
        if kind not in kinds:
            rep.violation(R, w, 'jigg:traverse:%s' % kind, '%s has no %s path' % (trav.name, kind))
            continue
        once, ret_ok, child_ok, ctext = kinds[kind]
        rep.check(once, R, w, 'jigg:id-once:' + kind, '%s span: the id is built exactly once, before recursing, from the advancing counter, and written as the span id' % kind,
                  '%s span: the id counter is not read exactly once before recursion / not written as id' % kind)
        rep.check(ret_ok, R, w, 'jigg:return-id:' + kind, '%s span returns its own id to the parent' % kind, '%s span does not return its own id' % kind)
        rep.check(child_ok, R, w, 'jigg:child-list:' + kind,
                  '%s span: %s' % (kind, 'carries a terminal reference and no child list' if kind == 'leaf' else 'child is the blank-joined list of the ids its children returned, left first'),
                  '%s span: child attribute is %s' % (kind, ctext))
    # the leaf position used for terminal references restarts at 0 for every tree and advances by one per leaf
    pos_ok = False
    pos_detail = 'no leaf path'
    for st, o in paths:
        if o != 'return' or not logic.implied([(c, pol) for c, pol, _ in st.conds], logic.formula(A(N(p), 'is_leaf'))):
            continue
        term_set = [e[1][2][1] for e in st.events if e[0] == 'call' and e[1][1][0] == 'attr' and e[1][1][2] == 'set' and e[1][2] and e[1][2][0] == C('terminal')]
        if not term_set or term_set[0][0] != 'fstr':
            pos_detail = 'terminal is %s' % (show(term_set[0]) if term_set else None)
            continue
        fields = [x for x in term_set[0][1] if isinstance(x, tuple)]
        pos = fields[-1]
        if pos[0] == 'name' and pos[1] in tps:
            # threaded: the position is a parameter; the first tree call passes 0, the left child inherits it, the right child
            # continues where the left one ended, a leaf ends one further
            P = pos[1]
            comp = components(st.ret)
            parts = comp[0] if comp else []
            leaf_end = ('binop', '+', N(P), C(1)) in parts or ('binop', '+', C(1), N(P)) in parts
            i_pos = [i for i, x in enumerate(parts) if x in (('binop', '+', N(P), C(1)), ('binop', '+', C(1), N(P)))]
            ok_thread = leaf_end
            for st2, o2 in paths:
                if o2 != 'return':
                    continue
                ra = st2.data.get('recargs', [])
                c2 = components(st2.ret)
                parts2 = c2[0] if c2 else []
                ends = lambda tag: [('unpack', ('sym', 'ret-of', tag), i_pos[0])] + ([('attr', ('sym', 'ret-of', tag), rec_fields[i_pos[0]])] if rec_fields and i_pos and i_pos[0] < len(rec_fields) else []) if i_pos else []
                if len(ra) >= 1:
                    ok_thread = ok_thread and ra[0][1].get(P) == N(P)
                if len(ra) == 2:
                    ok_thread = ok_thread and ra[1][1].get(P) in ends(ra[0][0]) and bool(i_pos) and parts2[i_pos[0]] in ends(ra[1][0])
                elif len(ra) == 1:
                    ok_thread = ok_thread and bool(i_pos) and parts2[i_pos[0]] in ends(ra[0][0])
            starts = []
            for st3, o3 in SymExec(ccg_fn, unroll=1, no_inline=(trav.name,)).run():
                for c_ in all_calls(st3):
                    if is_self(c_[1]) or c_[1] == N(trav.name) or (c_[1][0] == 'func' and c_[1][2] == id(trav)):
                        bound = dict(zip(tps, c_[2]))
                        bound.update({k: v for k, v in c_[3] if k is not None})
                        starts.append(bound.get(P))
            pos_ok = ok_thread and bool(starts) and all(x == C(0) for x in starts)
            pos_detail = 'position parameter %s: first call passes %s, threading %s' % (P, [show(x) if x else None for x in starts], 'ok' if ok_thread else 'broken')
        elif pos[0] == 'name':
            augs = [e for e in st.events if e[0] == 'aug' and e[1] == pos]
            inits = [s_ for s_ in ccg_fn.body if isinstance(s_, ast.Assign) and any(isinstance(t, ast.Name) and t.id == pos[1] for t in s_.targets)]
            other = [n for n in ast.walk(ccg_fn) if isinstance(n, (ast.AugAssign, ast.Assign)) and n not in inits and
                     any(isinstance(t, ast.Name) and t.id == pos[1] for t in (n.targets if isinstance(n, ast.Assign) else [n.target]))]
            aug_ok = len(augs) == 1 and augs[0][2] == '+' and augs[0][3] == C(1) and len(other) == 1
            init0 = len(inits) == 1 and src(inits[0].value) == '0'
            # or: bound in the leaf branch to next(<per-tree counter>)
            pos_ok = init0 and aug_ok
            pos_detail = 'position variable %s: initialised %s, leaf updates %s, other writes %d' % (pos[1], [src(i.value) for i in inits], [(a[2], show(a[3])) for a in augs], len(other) - 1)
        elif pos[0] == 'call' and pos[1] == N('next') and len(pos[2]) == 1 and pos[2][0][0] == 'name':
            cn = pos[2][0][1]
            inits = [s_ for s_ in ccg_fn.body if isinstance(s_, ast.Assign) and any(isinstance(t, ast.Name) and t.id == cn for t in s_.targets)]
            reads = [e for e in st.events if e[0] == 'call' and e[1] == pos]
            pos_ok = len(inits) == 1 and src(inits[0].value).replace(' ', '') in ('itertools.count()', 'count()', 'itertools.count(0)', 'count(0)') and len(reads) == 1 \
                and cn not in [a.arg for a in ccg_fn.args.args]
            pos_detail = 'per-tree counter %s = %s, read %d time(s) per leaf' % (cn, [src(i.value) for i in inits], len(reads))
        else:
            pos_detail = 'the leaf position %s is not a counter local to one tree' % show(pos)
    rep.check(pos_ok, R, w, 'jigg:leaf-position', 'the leaf position starts at 0 for every tree and advances by one per leaf (%s)' % pos_detail,
              'terminal references / offsets of the 2nd and later n-best trees are shifted: %s' % pos_detail)
    # the span-id counter lives as long as one sentence: created once per sentence, never reset per tree
    tj = jm.get('to_jigg_xml')
    okc = False
    cdetail = 'span ids are not drawn from a counter'
    if id_counter is not None and id_counter[0] == 'call' and id_counter[1][0] == 'attr' and id_counter[1][1] == N('self') and not id_counter[2]:
        id_counter = id_counter[1]          # an id-issuing method of the converter: judged like the property form
    if id_counter is not None:
        src_t = id_counter if id_counter[0] == 'attr' else id_counter[2][0]
        if src_t[0] == 'attr' and src_t[1] == N('self') and cls is not None:
            init_ = [s_ for s_ in cls.body if isinstance(s_, ast.FunctionDef) and s_.name == '__init__']
            if id_counter[0] == 'attr':
                sp = [s_ for s_ in cls.body if isinstance(s_, ast.FunctionDef) and s_.name == id_counter[2]][0]
                okp = True
                backing = None
                for st, o in SymExec(sp).run():
                    augs = [e for e in st.events if e[0] == 'aug' and e[1][0] == 'attr' and e[1][1] == N('self') and e[2] == '+' and e[3] == C(1)]
                    okp = okp and len(augs) == 1 and st.ret is not None and (st.ret == augs[0][1] or any(x == augs[0][1] for x in subterms(st.ret)))
                    backing = augs[0][1][2] if augs else None
            else:
                okp, backing = True, src_t[2]
            writes = [x for f_ in cls.body if isinstance(f_, ast.FunctionDef) and f_.name != '__init__' for x in ast.walk(f_)
                      if isinstance(x, ast.Assign) and any(src(t) == 'self.%s' % backing for t in x.targets)]
            inited = bool(init_) and any(isinstance(x, ast.Assign) and any(src(t) == 'self.%s' % backing for t in x.targets) and
                                         (id_counter[0] == 'attr' or src(x.value).replace(' ', '') in ('itertools.count()', 'count()', 'itertools.count(0)', 'count(0)'))
                                         for x in ast.walk(init_[0]))
            # one converter object per sentence, used for all its trees
            conv_in_outer = False
            for l in [x for x in ast.walk(tj) if isinstance(x, ast.For)]:
                for s_ in l.body:
                    if isinstance(s_, ast.Assign) and isinstance(s_.value, ast.Call) and src(s_.value.func) == cls.name:
                        cv = src(s_.targets[0])
                        inner = [q for q in l.body if isinstance(q, ast.For) and any(isinstance(n, ast.Call) and src(n.func).startswith(cv + '.') for n in ast.walk(q))]
                        conv_in_outer = bool(inner)
            okc = okp and inited and not writes and conv_in_outer
            cdetail = 'counter self.%s: advances on every read %s, initialised once %s, reset elsewhere %d, one converter per sentence %s' % (backing, okp, inited, len(writes), conv_in_outer)
        elif src_t[0] == 'name':
            # a counter handed to the per-tree function: created once per sentence in the caller
            cparam = src_t[1]
            okc = False
            cdetail = 'counter parameter %s' % cparam
            if cparam in [a.arg for a in ccg_fn.args.args]:
                idx = [a.arg for a in ccg_fn.args.args].index(cparam)
                for l in [x for x in ast.walk(tj) if isinstance(x, ast.For)]:
                    made = [s_ for s_ in l.body if isinstance(s_, ast.Assign) and src(s_.value).replace(' ', '') in ('itertools.count()', 'count()', 'itertools.count(0)', 'count(0)')]
                    for mk in made:
                        cv = src(mk.targets[0])
                        inner = [q for q in l.body if isinstance(q, ast.For) and any(
                            isinstance(n, ast.Call) and src(n.func) == ccg_fn.name and ((len(n.args) > idx and src(n.args[idx]) == cv) or any(k.arg == cparam and src(k.value) == cv for k in n.keywords))
                            for n in ast.walk(q))]
                        if inner:
                            okc = True
                            cdetail = 'counter %s is created once per sentence and handed to %s for each of its trees' % (cv, ccg_fn.name)
    rep.check(okc, R, w, 'jigg:counter', 'the span-id counter belongs to one sentence and is shared by all its n-best trees (%s)' % cdetail,
              'span ids are not unique within a sentence: %s' % cdetail)
    rep.check(okc, R, '%s:%s to_jigg_xml' % (JX, tj.lineno), 'jigg:converter-per-sentence',
              'one id counter per sentence, shared by all its n-best trees (ids unique within the sentence)', 'the id counter is not created once per sentence')
    # root refers to the id returned for the top span
    okroot = False
    for st, o in SymExec(ccg_fn, unroll=1, no_inline=(trav.name,)).run():
        for e in st.events:
            if e[0] == 'call' and e[1][1][0] == 'attr' and e[1][1][2] == 'set' and len(e[1][2]) == 2 and e[1][2][0] == C('root'):
                v = e[1][2][1]
                inner = v[2][0] if v[0] == 'call' and v[1] == N('str') and v[2] else v
                base = inner[1] if inner[0] in ('unpack', 'attr') else None
                tree_params = [a.arg for a in ccg_fn.args.args if a.arg in ('tree', 'node')]
                if base is not None and base[0] == 'call' and (is_self(base[1]) or base[1] == N(trav.name) or (base[1][0] == 'func' and base[1][2] == id(trav))) \
                        and any(N(tp) in base[2] or any(v2 == N(tp) for _, v2 in base[3]) for tp in tree_params):
                    okroot = (inner[0] == 'unpack' and inner[2] == 0) or (inner[0] == 'attr' and rec_fields and inner[2] == rec_fields[0])
    rep.check(okroot, R, '%s:%s %s' % (JX, ccg_fn.lineno, ccg_fn.name), 'jigg:root', 'root refers to the id returned for the top span of the tree', 'root is not set from the id returned for the top span')


ROOT_FLAG_EXAMPLE = """
def process(self, tree):
    def traverse(node):
        xml_node = etree.SubElement(res, 'span')
        if node.is_leaf:
            pass
        else:
            traverse(node.left_child)
        if len(node) == len(tree):
            xml_node.set('root', 'true')
    res = etree.Element('ccg')
    traverse(tree)
"""


def root_flag_findings(ccg_fn, trav):
    """'exactly one span is the root': the places where a span gets root="true".  Accepted: (a) one unconditional statement of the
    per-tree function after the walk, on element [0] of the <ccg> element, with the walk adding a node's span before it descends
    (spans are in pre-order, [0] is the top span), or on the element the top call handed back; (b) inside the walk, under a test
    that holds for the top node only: `node is <the tree>` or a flag parameter that is true in the first call and false in every
    recursive one.  Anything decided from the contents of the node (its width, its position, its category) holds for a unary
    child of the root as well."""
    out = []
    is_flag = lambda n: isinstance(n, ast.Call) and isinstance(n.func, ast.Attribute) and n.func.attr == 'set' and len(n.args) == 2 \
        and isinstance(n.args[0], ast.Constant) and n.args[0].value == 'root' and isinstance(n.args[1], ast.Constant) and n.args[1].value == 'true'
    in_trav = [n for n in ast.walk(trav) if is_flag(n)]
    outside = [n for n in ast.walk(ccg_fn) if is_flag(n) and n not in in_trav]
    if not in_trav and not outside:
        # an attribute dictionary / keyword form: left to the attribute rules
        return out
    ccg_vars = [v for v, tag in elements(ccg_fn).items() if tag == 'ccg']
    tps = own_params(trav)
    rec_calls = [c for c in ast.walk(trav) if isinstance(c, ast.Call) and (src(c.func) == trav.name or (isinstance(c.func, ast.Attribute) and c.func.attr == trav.name and src(c.func.value) in ('self', 'cls')))]
    top_calls = [c for c in ast.walk(ccg_fn) if isinstance(c, ast.Call) and c not in rec_calls and (src(c.func) == trav.name or (isinstance(c.func, ast.Attribute) and c.func.attr == trav.name and src(c.func.value) in ('self', 'cls')))]
    tree_params = own_params(ccg_fn)
    for n in outside:
        stmt = n
        while getattr(stmt, '_parent', None) is not None and not isinstance(stmt, ast.stmt):
            stmt = stmt._parent
        if getattr(stmt, '_parent', None) is not ccg_fn:
            out.append((n.lineno, 'root="true" is set under a condition or in a loop of %s' % ccg_fn.name))
            continue
        rcv = n.func.value
        if isinstance(rcv, ast.Subscript) and isinstance(rcv.slice, ast.Constant) and rcv.slice.value == 0 and src(rcv.value) in ccg_vars:
            # pre-order: the span is attached before the first recursive call
            made = [m for m in ast.walk(trav) if isinstance(m, ast.Call) and ((src(m.func) in ('etree.SubElement', 'SubElement') and m.args and src(m.args[0]) == src(rcv.value))
                                                                               or (isinstance(m.func, ast.Attribute) and m.func.attr == 'append' and src(m.func.value) == src(rcv.value)))]
            if made and rec_calls and min(m.lineno for m in made) > min(c.lineno for c in rec_calls):
                out.append((n.lineno, 'spans are attached after their children, %s[0] is not the top span' % src(rcv.value)))
        elif isinstance(rcv, ast.Name) and any(isinstance(a, ast.Assign) and a.value in top_calls and rcv.id in [x.id for t in a.targets for x in ast.walk(t) if isinstance(x, ast.Name)]
                                                for a in ast.walk(ccg_fn)):
            pass
        else:
            out.append((n.lineno, 'root="true" is set on %s, which is not the top span by construction' % src(rcv)))
    if len(outside) > 1 or (outside and in_trav):
        out.append(((outside + in_trav)[-1].lineno, 'root="true" is set in %d places' % len(outside + in_trav)))
    for n in in_trav:
        tests = []
        q = n
        while getattr(q, '_parent', None) is not None and q._parent is not trav:
            par = q._parent
            if isinstance(par, ast.If) and q in par.body:
                tests.append(par.test)
            elif isinstance(par, (ast.If, ast.For, ast.While)):
                tests.append(None)
            q = par
        ok = False
        for t in tests:
            if t is None:
                continue
            if isinstance(t, ast.Compare) and len(t.ops) == 1 and isinstance(t.ops[0], ast.Is):
                a, b = src(t.left), src(t.comparators[0])
                if (a in tps and b in tree_params) or (b in tps and a in tree_params):
                    ok = True
            if isinstance(t, ast.Name) and t.id in tps:
                i = tps.index(t.id)
                dflt = dict(zip(reversed(tps), reversed([src(d) for d in trav.args.defaults])))

                def passed(c):
                    for k in c.keywords:
                        if k.arg == t.id:
                            return src(k.value)
                    return src(c.args[i]) if len(c.args) > i else dflt.get(t.id)
                if top_calls and all(passed(c) == 'True' for c in top_calls) and all(passed(c) == 'False' for c in rec_calls):
                    ok = True
        if not ok:
            out.append((n.lineno, 'root="true" is decided inside the walk by %s, which a unary child of the root satisfies as well'
                        % ([src(t) for t in tests if t is not None] or ['nothing'])[0]))
    return out


def r_root_flag(repo, rep, R='R15.3'):
    jm = repo.module(JX)
    ccg_fn, trav = _jigg_roles(jm)
    ex = attach_parents(ast.parse(ROOT_FLAG_EXAMPLE))
    exf = ex.body[0]
    if not root_flag_findings(exf, exf.body[0]):
        raise AnalysisError('the root-flag rule does not match its positive example')
    found = root_flag_findings(ccg_fn, trav)
    rep.check(not found, R, '%s:%s %s' % (JX, (found[0][0] if found else ccg_fn.lineno), ccg_fn.name), 'jigg:one-root-flag',
              'exactly one span of a tree carries root="true", the one the walk started from', '; '.join(x for _, x in found))


def yaml_rules(repo, rel):
    vals = set()
    for line in repo.text(rel).split('\n'):
        m = re.match(r'^\s*rule:\s*(.+?)\s*$', line)
        if m and not line.lstrip().startswith('#'):
            v = m.group(1)
            if v[0] in '"\'' and v[-1] == v[0]:
                v = v[1:-1]
            vals.add(v)
    return vals


def r_ccg2lambda_vocab(repo, rep, R='R15.4'):
    labels = grammar_labels(repo)
    ja_sym = {y for _, y in labels['ja']['binary']} | {y for _, y in labels['ja']['unary']}
    en_str = {s for s, _ in labels['en']['binary']} | {s for s, _ in labels['en']['unary']}
    en_sym = {y for _, y in labels['en']['binary']} | {y for _, y in labels['en']['unary']}
    ja = yaml_rules(repo, 'depccg/models/semantic_templates_ja_event.yaml')
    en = yaml_rules(repo, 'depccg/models/semantic_templates_en_event.yaml')
    rep.check(ja <= ja_sym and len(ja) >= 5, R, 'depccg/models/semantic_templates_ja_event.yaml:1 <data>', 'templates:ja',
              'the Japanese templates key on %d rule values, all of them symbols of the Japanese grammar' % len(ja),
              'Japanese templates key on %s which the Japanese grammar never prints as a symbol' % sorted(ja - ja_sym))
    rep.check(not (en & (en_sym - en_str)) and len(en & en_str) >= 8, R, 'depccg/models/semantic_templates_en_event.yaml:1 <data>', 'templates:en',
              'the English templates key on label strings (%d of them emitted by the grammar), never on symbols' % len(en & en_str),
              'English templates key on %s' % sorted(en))
    pm = repo.module(PI)
    ts = pm.get('to_string')
    plain = None
    feeds = []
    for st, o in SymExec(ts, unroll=1).run():
        base = [(c, pol) for c, pol, _ in st.conds]
        allowed, excluded = logic.selector_values(base, N('format'))
        if allowed is not None and not allowed:
            continue        # infeasible combination of tests on `format`
        for e in st.events:
            e0 = e[1:] if e[0] == 'in-comp' else e
            if e0[0] == 'call' and e0[1][1] == N('to_jigg_xml'):
                us = argof(e0[1], 'use_symbol', 1)
                al, ex = logic.selector_values(base + list(guards_of(st, e)), N('format'))
                if al is not None and not al:
                    continue
                fmts = sorted(al) if al else [None]
                for fmt in fmts:
                    feeds.append((fmt, us, e0[2]))
    by_fmt = {}
    for fmt, us, node in feeds:
        by_fmt.setdefault(fmt, set()).add(us)

    def is_ja_test(t):
        return t is not None and t[0] == 'cmp' and t[1] == '==' and C('ja') in (t[2], t[3]) and \
            any(s_ == ('call', N('get_global_language'), (), ()) for s_ in subterms(t))
    # `lang` must be bound to get_global_language() wherever it is used
    for fmt in list(by_fmt):
        by_fmt[fmt] = {x for x in by_fmt[fmt]}
    want = by_fmt.get('jigg_xml')
    rep.check(want is not None and len(want) == 1 and is_ja_test(next(iter(want))), R, '%s:%s to_string' % (PI, ts.lineno), 'to_string:jigg_xml:use_symbol',
              'the jigg_xml format writes symbols exactly for Japanese', 'jigg_xml passes use_symbol=%s' % [show(x) if x else None for x in (want or [])])
    n = 0
    for fmt in ('jigg_xml_ccg2lambda', 'ccg2lambda'):
        got = by_fmt.get(fmt)
        n += 1
        ok = got is not None and len(got) == 1 and is_ja_test(next(iter(got)))
        rep.check(ok, R, '%s:%s to_string' % (PI, ts.lineno), 'to_string:%s:use_symbol' % fmt,
                  'the %s format hands ccg2lambda symbols exactly for Japanese, like the plain jigg_xml format' % fmt,
                  'the %s format calls to_jigg_xml with use_symbol=%s: Japanese nodes reach templates keyed on symbols carrying label strings'
                  % (fmt, [show(x) if x else 'default False' for x in (got or [])]))
    jm = repo.module(JX)
    _ccg, trav = _jigg_roles(jm)
    tps_ = own_params(trav)
    pnode = ([x for x in tps_ if x in ('node', 'tree')] or tps_)[0]
    want_rules = {('ifexp', u_, A(N(pnode), 'op_symbol'), A(N(pnode), 'op_string')) for u_ in (A(N('self'), 'use_symbol'), N('use_symbol'))}
    rules_set = {e[1][2][1] for st, o in SymExec(trav, unroll=1, no_inline=(trav.name,)).run() for e in st.events
                 if e[0] == 'call' and e[1][1][0] == 'attr' and e[1][1][2] == 'set' and len(e[1][2]) == 2 and e[1][2][0] == C('rule')}
    # the choice may be made once, in the constructor: self._label = attrgetter('op_symbol' if use_symbol else 'op_string'),
    # applied to the node where the attribute is written
    cls_ = getattr(_ccg, '_parent', None)
    if len(rules_set) == 1 and not rules_set <= want_rules and isinstance(cls_, ast.ClassDef):
        r0 = next(iter(rules_set))
        init_ = next((f_ for f_ in cls_.body if isinstance(f_, ast.FunctionDef) and f_.name == '__init__'), None)
        if r0[0] == 'call' and r0[1][0] == 'attr' and r0[1][1] == N('self') and r0[2] == (N(pnode),) and not r0[3] and init_ is not None:
            for st_, o_ in SymExec(init_, unroll=1).run():
                g_ = st_.env.get('self.' + r0[1][2])
                if g_ is not None and g_[0] == 'call' and g_[1] in (N('attrgetter'), A(N('operator'), 'attrgetter')) and len(g_[2]) == 1 and g_[2][0][0] == 'ifexp' \
                        and g_[2][0][2][0] == 'const' and g_[2][0][3][0] == 'const':
                    c_ = g_[2][0]
                    rules_set = {('ifexp', c_[1], A(N(pnode), c_[2][1]), A(N(pnode), c_[3][1]))}
    rep.check(len(rules_set) == 1 and rules_set <= want_rules, R, '%s:%s traverse' % (JX, trav.lineno), 'jigg:rule-select',
              'the rule attribute is op_symbol when use_symbol else op_string', 'rule attribute is %s' % [show(x) for x in rules_set])
    return len(feeds)


LOGIC_PUNCT = ['.', ',', '(', ')', '!', '-']
NM = 'depccg/semantics/ccg2lambda/normalization.py'


def r_token_names(repo, rep, R='R15.5'):
    """token names handed to ccg2lambda's templates are identifiers: normalize_token replaces every logic punctuation
    character and prefixes '_'; normalize_tokens leaves no base / surf attribute it wrote itself un-normalised."""
    import re._parser as sre
    from ..pysym import SymExec, path_values
    nm = repo.module(NM)
    fn = nm.get('normalize_token')
    p = fn.args.args[0].arg
    w = '%s:%s normalize_token' % (NM, fn.lineno)
    vals = path_values(SymExec(fn).run())
    ok_prefix = bool(vals)
    chains = []
    for conds, v in vals:
        core = v
        if v[0] == 'binop' and v[1] == '+' and v[2] == C('_'):
            core = v[3]
        elif v[0] == 'fstr' and len(v[1]) == 2 and isinstance(v[1][0], str) and v[1][0].startswith('_') and not any(ch in v[1][0] for ch in LOGIC_PUNCT) \
                and isinstance(v[1][1], tuple):
            core = v[1][1]
        else:
            # returned as is: only when it was seen to start with '_'
            starts = ('call', A(core, 'startswith'), (C('_'),), ())
            ok_prefix = ok_prefix and logic.implied([(c, pol_) for c, pol_ in conds], logic.formula(starts))
        subs = []
        t = core

        def step(t):
            """one rewriting step: re.sub(p, r, x) / re.compile(p).sub(r, x) / x.replace(a, b) -> (regex, replacement, x)"""
            if t[0] != 'call':
                return None
            f, a = t[1], t[2]
            if f in (A(N('re'), 'sub'), N('sub')) and len(a) >= 3 and a[0][0] == 'const' and a[1][0] == 'const':
                return a[0][1], a[1][1], a[2]
            if f[0] == 'attr' and f[2] == 'sub' and f[1][0] == 'call' and f[1][1] in (A(N('re'), 'compile'), N('compile')) and f[1][2] \
                    and f[1][2][0][0] == 'const' and len(a) >= 2 and a[0][0] == 'const':
                return f[1][2][0][1], a[0][1], a[1]
            if f[0] == 'attr' and f[2] == 'replace' and len(a) == 2 and all(x[0] == 'const' and isinstance(x[1], str) for x in a):
                return re.escape(a[0][1]), a[1][1], f[1]
            return None
        while True:
            st_ = step(t)
            if st_ is not None:
                pat_, repl_, t = st_
                subs.append((pat_, repl_))
                continue
            # x.translate(str.maketrans({..})): one pass that replaces each listed character
            base_, pairs_ = codec.replace_chain(t)
            if pairs_ and base_ != t:
                subs += [(re.escape(a_), b_) for a_, b_ in pairs_]
                t = base_
                continue
            break
        chains.append((subs, t))
    rep.check(ok_prefix, R, w, 'normalize_token:prefix', 'the result always starts with an underscore (added unless already there)',
              'normalize_token can return a name without the leading underscore')
    for subs, base in chains:
        covered = {}
        for pat, repl in subs:
            try:
                parsed = list(sre.parse(pat))
            except Exception:
                continue
            if len(parsed) == 1 and str(parsed[0][0]) == 'LITERAL':
                covered[chr(parsed[0][1])] = repl
        missing = [ch for ch in LOGIC_PUNCT if ch not in covered]
        dirty = sorted(ch for ch, repl in covered.items() if ch in LOGIC_PUNCT and any(x in repl for x in LOGIC_PUNCT))
        rep.check(base == N(p) and not missing and not dirty, R, w, 'normalize_token:punctuation',
                  'every occurrence of %s in the name is replaced by punctuation-free text' % ' '.join(LOGIC_PUNCT),
                  'normalize_token leaves logic punctuation in names: not replaced %s, replaced by text that still contains punctuation %s' % (missing, dirty))
    cm = repo.module(CT)
    nt = cm.get('normalize_tokens')
    w2 = '%s:%s normalize_tokens' % (CT, nt.lineno)
    n_paths = 0
    bad = []
    stale = []
    for st, o in SymExec(nt, unroll=1).run():
        if not any(e[0] == 'loop-enter' for e in st.events):
            continue
        n_paths += 1
        for attr in ('base', 'surf'):
            is_set = lambda e: e[0] == 'call' and e[1][1][0] == 'attr' and e[1][1][2] == 'set' and len(e[1][2]) == 2 and e[1][2][0] == C(attr)
            normal = lambda e: is_set(e) and e[1][2][1][0] == 'call' and e[1][2][1][1] == N('normalize_token')
            raw = [i for i, e in enumerate(st.events) if is_set(e) and not normal(e)]
            if not raw:
                continue
            later = st.events[raw[-1] + 1:]
            written = st.events[raw[-1]][1][2][1]
            decided = any(normal(e) for e in later) or any(
                e[0] == 'branch' and any(x == C(attr) or (written[0] != 'const' and x == written) for x in subterms(e[1])) for e in later)
            if not decided:
                bad.append('%s = %s' % (attr, show(st.events[raw[-1]][1][2][1])[:50]))
                continue
            # the normalisation that follows works on what is in the attribute *now*: the value just written, or the attribute read
            # again after the write -- not a copy of the attribute taken before it (`base = token.get('base')` at the top of the loop)
            for j, e in enumerate(later):
                if not normal(e):
                    continue
                arg = e[1][2][1][2][0] if e[1][2][1][2] else None
                if arg is None or arg == written:
                    break
                if arg[0] == 'call' and arg[1][0] == 'attr' and arg[1][2] == 'get' and arg[2] and arg[2][0] == C(attr):
                    reads = [i for i, e2 in enumerate(st.events[:raw[-1] + 1 + j]) if e2[0] == 'call' and e2[1] == arg]
                    if reads and reads[-1] < raw[-1]:
                        stale.append('%s: `%s` was read before `%s` was written and is normalised after it' % (attr, show(arg)[:40], show(st.events[raw[-1]][1])[:50]))
                break
    if not n_paths:
        raise AnalysisError('%s: normalize_tokens has no path through its token loop' % CT)
    rep.check(not stale, R, w2, 'normalize_tokens:fresh-read', 'the value normalised after a write is the one now in the attribute',
              'normalize_tokens normalises a stale copy: %s -- the surface form just copied into an absent base form (base="*") is overwritten with the '
              'normalised "*", and the predicate is named _* instead of the word' % sorted(set(stale))[:2])
    rep.check(not bad, R, w2, 'normalize_tokens:final-write', 'whatever normalize_tokens writes into base / surf is normalised afterwards, or found to be a name already (%d paths)' % n_paths,
              'normalize_tokens leaves a raw value in a token attribute: %s is the last write on a path, with no normalisation decision after it -- '
              'the name reaches the templates with its punctuation and without the underscore' % sorted(set(bad)))


def r_extension_dispatch(repo, rep, R='R15.7'):
    """what depccg writes as <name>.jigg.xml is read back by the Jigg reader, <name>.xml by the C&C reader: the dispatch on
    the file name reaches each reader for its own extension.  Two spellings are known: a chain of `endswith` tests (the
    longer suffix tested first) and a table keyed by os.path.splitext, whose keys can only be one-dot suffixes."""
    rm = repo.module(RD)
    fn = rm.get('read_trees_guess_extension')
    w = '%s:%s %s' % (RD, fn.lineno, fn.name)
    p = fn.args.args[0].arg
    reached = {}
    split_keys = set()
    uses_split = False
    for st, o in SymExec(fn, unroll=1).run():
        conds = [(c, pol) for c, pol, _ in st.conds]
        for t0 in terms_of(st):
            for x in subterms(t0):
                if x[0] == 'call' and x[1][0] == 'attr' and x[1][2] in ('splitext',):
                    uses_split = True
                if x[0] == 'attr' and x[2] == 'suffix' and x[1][0] == 'call' and (x[1][1] == N('Path') or (x[1][1][0] == 'attr' and x[1][1][2] in ('Path', 'PurePath'))):
                    uses_split = True           # pathlib: Path(name).suffix is the last suffix only, like os.path.splitext
                if x[0] == 'cmp' and x[1] == '==' and any(y[0] == 'call' and y[1][0] == 'attr' and y[1][2] == 'splitext' for z in x[2:] for y in subterms(z)):
                    for z in x[2:]:
                        if z[0] == 'const' and isinstance(z[1], str):
                            split_keys.add(z[1])
        for c in all_calls(st):
            f = c[1]
            nm = f[1] if f[0] == 'name' else (f[1] if f[0] == 'func' else None)
            if isinstance(nm, str) and nm.startswith('read_') and c[2] and c[2][0] == N(p):
                ends = {}
                for cnd, pol in conds:
                    if cnd[0] == 'call' and cnd[1] == A(N(p), 'endswith') and len(cnd[2]) == 1 and cnd[2][0][0] == 'const':
                        ends[cnd[2][0][1]] = pol
                    elif cnd[0] == 'call' and cnd[1] == A(N(p), 'endswith') and len(cnd[2]) == 1 and cnd[2][0][0] in ('tuple', 'list') \
                            and all(x_[0] == 'const' for x_ in cnd[2][0][1]):
                        for x_ in cnd[2][0][1]:         # one of several suffixes
                            ends[x_[1]] = pol
                reached.setdefault(nm, []).append(ends)
    if uses_split:
        # keys of the table: constants of the module-level dictionary the suffix is looked up in
        for n_ in ast.walk(rm.tree):
            if isinstance(n_, ast.Dict) and n_.keys and all(isinstance(k, ast.Constant) and isinstance(k.value, str) and k.value.startswith('.') for k in n_.keys if k is not None):
                split_keys |= {k.value for k in n_.keys if k is not None}
        dead = sorted(k for k in split_keys if k.count('.') != 1)
        rep.check(not dead and '.xml' in split_keys, R, w, 'reader:extension-dispatch',
                  'the reader is chosen by the last suffix of the file name; every key of the table is such a suffix (%s)' % sorted(split_keys),
                  'the reader table is keyed by os.path.splitext, which only yields the last suffix: the entries %s can never be chosen (such files go to the reader of %r)'
                  % (dead, '.' + dead[0].split('.')[-1] if dead else '?'))
        return
    jigg = reached.get('read_jigg_xml', [])
    candc = reached.get('read_xml', [])
    if not jigg or not candc:
        raise AnalysisError('%s: %s does not reach read_jigg_xml and read_xml by tests on the file name that are read here (endswith / splitext)' % (RD, fn.name))
    ok = all(e.get('.jigg.xml') is True for e in jigg) and all(e.get('.xml') is True and e.get('.jigg.xml') is False for e in candc)
    rep.check(ok, R, w, 'reader:extension-dispatch', 'a *.jigg.xml file is read as Jigg XML, any other *.xml file as C&C XML (the longer suffix is tested first)',
              'the dispatch on the file name sends *.jigg.xml files to the wrong reader: read_jigg_xml under %s, read_xml under %s' % (jigg, candc))


def r_extension_dispatch_text(repo, rep, R, reader):
    """the line-oriented readers are chosen by how the file name ENDS: read_ptb for *.ptb, read_auto for every name that
    ends in none of the other readers' suffixes -- `corpus.ptb.auto`, `questions.xml.auto` are AUTO files.  (A table keyed
    by os.path.splitext is the same choice; membership of a suffix anywhere in the name is not.)"""
    rm = repo.module(RD)
    fn = rm.get('read_trees_guess_extension')
    w = '%s:%s %s' % (RD, fn.lineno, fn.name)
    p = fn.args.args[0].arg
    reached = []
    uses_split = False
    for st, o in SymExec(fn, unroll=1).run():
        conds = [(c, pol) for c, pol, _ in st.conds]
        for t0 in terms_of(st):
            for x in subterms(t0):
                if x[0] == 'call' and x[1][0] == 'attr' and x[1][2] in ('splitext',):
                    uses_split = True
                if x[0] == 'attr' and x[2] == 'suffix' and x[1][0] == 'call' and (x[1][1] == N('Path') or (x[1][1][0] == 'attr' and x[1][1][2] in ('Path', 'PurePath'))):
                    uses_split = True           # pathlib: Path(name).suffix is the last suffix only, like os.path.splitext
        for c in all_calls(st):
            f = c[1]
            nm = f[1] if f[0] == 'name' else (f[1] if f[0] == 'func' else None)
            if nm == reader and c[2] and c[2][0] == N(p):
                ends, other = {}, []
                for cnd, pol in conds:
                    if cnd[0] == 'call' and cnd[1] == A(N(p), 'endswith') and len(cnd[2]) == 1 and cnd[2][0][0] == 'const':
                        ends[cnd[2][0][1]] = pol
                    elif cnd[0] == 'call' and cnd[1] == A(N(p), 'endswith') and len(cnd[2]) == 1 and cnd[2][0][0] in ('tuple', 'list') \
                            and all(x_[0] == 'const' for x_ in cnd[2][0][1]):
                        for x_ in cnd[2][0][1]:
                            ends[x_[1]] = pol
                    elif any(x_[0] == 'const' and isinstance(x_[1], str) and x_[1].startswith('.') and len(x_[1]) > 1 for x_ in subterms(cnd)):
                        other.append(show(cnd)[:50])        # another kind of test on an extension
                reached.append((ends, other))
    if uses_split:
        rep.check(True, R, w, 'reader:extension-dispatch:' + reader, 'the reader is chosen by the last suffix of the file name (os.path.splitext)', '')
        return
    if not reached:
        raise AnalysisError('%s: %s does not reach %s' % (RD, fn.name, reader))
    if reader == 'read_auto':
        ok = all(e.get('.xml') is False and e.get('.ptb') is False and not other for e, other in reached)
        want = 'every name that ends neither in .xml nor in .ptb is read as an AUTO file'
    else:
        ok = all(e.get('.ptb') is True and e.get('.xml') is not True and not other for e, other in reached)
        want = 'a name that ends in .ptb is read as a PTB file'
    rep.check(ok, R, w, 'reader:extension-dispatch:' + reader, want,
              '%s is reached under %s: the choice is not made by how the name ends, so a file such as corpus.ptb.auto / corpus.xml.auto (or corpus.auto.ptb) goes to another reader than the one for its format'
              % (reader, [(sorted(e.items()), other) for e, other in reached][:2]))


def r_jigg_category(repo, rep, R='R15.8'):
    """Jigg spells a one-valued feature as an attribute-value pair: S[dcl] -> S[dcl=true].  Whether the writer walks the
    category or rewrites its text, every feature of the English inventories (lower case, upper case X, digits) is covered."""
    jm = repo.module(JX)
    fn = jm.get('_cat_multi_valued')
    w = '%s:%s %s' % (JX, fn.lineno, fn.name)
    subs = [c for c in ast.walk(fn) if isinstance(c, ast.Call) and isinstance(c.func, ast.Attribute) and c.func.attr == 'sub']
    if subs:
        import re._parser as sre
        import re._constants as K
        from .c07 import _sre_accepts
        from .. import datafiles as df
        c = subs[0]
        if isinstance(c.func.value, ast.Name) and c.func.value.id == 're':
            pv = jm.literal(c.args[0]) if c.args else None
        else:
            v = jm.literal(c.func.value)
            pv = jm.literal(v.args[0]) if isinstance(v, ast.Call) and src(v.func) in ('re.compile', 'compile') and v.args else None
        if not (isinstance(pv, ast.Constant) and isinstance(pv.value, str)):
            raise AnalysisError('%s: the pattern of %s was not found' % (JX, fn.name))
        alphabet = set()
        for cfg in ('config_en', 'config_rebank'):
            v = df.load_jsonnet(repo, 'depccg/models/%s.jsonnet' % cfg)
            texts = list(v.get('targets', [])) + [x for pr in v.get('unary_rules', []) for x in pr]
            for t in texts:
                depth = 0
                for ch in t:
                    if ch == '[':
                        depth += 1
                    elif ch == ']':
                        depth -= 1
                    elif depth > 0:
                        alphabet.add(ch)
        tree = sre.parse(pv.value)
        items = list(tree)
        ok, detail = False, 'the pattern is not "[" feature "]"'
        flat = []
        for op, arg in items:
            if op == K.SUBPATTERN:
                flat.extend(arg[3])
            else:
                flat.append((op, arg))
        if len(flat) == 3 and flat[0] == (K.LITERAL, ord('[')) and flat[2] == (K.LITERAL, ord(']')) and flat[1][0] in (K.MAX_REPEAT, K.MIN_REPEAT) \
                and len(flat[1][1][2]) == 1:
            refused = sorted(ch for ch in alphabet if not _sre_accepts(flat[1][1][2][0], ch))
            ok = not refused and flat[1][1][1] == K.MAXREPEAT
            detail = 'accepts all %d feature characters of the English inventories' % len(alphabet) if ok else 'refuses %s' % refused
        rep.check(ok, R, w, 'jigg:category-spelling', 'one-valued features are rewritten to [f=true] wherever they occur (%s)' % detail,
                  'some English features are not rewritten to the attribute-value spelling Jigg / ccg2lambda read: the pattern %r %s' % (pv.value, detail))
        return
    # the structural form: an atom with a one-valued feature that is set prints base[feature=true]
    found = False
    for f_ in [fn] + [n_ for n_ in ast.walk(fn) if isinstance(n_, ast.FunctionDef) and n_ is not fn]:
        for st, o in SymExec(f_, unroll=1).run():
            if o != 'return' or st.ret is None:
                continue
            ps_ = str_parts(st.ret) or []
            if len(ps_) == 4 and ps_[1] == '[' and ps_[3] == '=true]' and not isinstance(ps_[0], str) and not isinstance(ps_[2], str) \
                    and ps_[0][0] == 'attr' and ps_[0][2] == 'base' and ps_[2] == ('attr', ps_[0][1], 'feature'):
                found = True
    rep.check(found, R, w, 'jigg:category-spelling', 'an atom with a one-valued feature is written base[feature=true]',
              'no path of %s writes a one-valued feature as base[feature=true]' % fn.name)
    # ... and the bare spelling (the base alone) is chosen only for an atom that has no feature value: a wider test (`is_ignorable`
    # also covers [nb]) writes NP[nb]/N as NP/N in the span categories while the token attribute and every other format keep it
    bare = []
    n_bare = 0
    for f_ in [fn] + [n_ for n_ in ast.walk(fn) if isinstance(n_, ast.FunctionDef) and n_ is not fn]:
        for st, o in SymExec(f_, unroll=1).run():
            if o != 'return' or st.ret is None or not (st.ret[0] == 'attr' and st.ret[2] == 'base'):
                continue
            x_ = st.ret[1]
            n_bare += 1
            fv = A(A(x_, 'feature'), 'value')
            absent = False
            for c_, pol, _n in st.conds:
                if pol and c_[0] == 'cmp' and c_[1] in ('is', '==') and ((c_[2] == fv and c_[3] == C(None)) or (c_[3] == fv and c_[2] == C(None))):
                    absent = True
                if (not pol) and (c_ == fv or (c_[0] == 'cmp' and c_[1] in ('is not', '!=') and c_[2] == fv and c_[3] == C(None))):
                    absent = True
                if pol and c_[0] == 'cmp' and c_[1] == '==' and c_[3] == C('') and c_[2] == ('call', N('str'), (A(x_, 'feature'),), ()):
                    absent = True
            if not absent:
                bare.append('; '.join('%s%s' % ('' if pol else 'not ', show(c_)[:50]) for c_, pol, _n in st.conds[-2:]))
    if n_bare:
        rep.check(not bare, R, w, 'jigg:category-bare', 'the base alone is written only for an atom without a feature value (%d paths)' % n_bare,
                  '%s writes the base alone when %s: an atom that has a feature (e.g. NP[nb]) loses it in the span categories, which then disagree with '
                  'the token attribute and with every other format' % (fn.name, bare[0] if bare else ''))


def r_normalise_on_copy(repo, rep, R='R15.9'):
    """normalize_tokens rewrites the attributes of the token elements it is given; the caller hands it a private copy, so the
    document that is serialised afterwards (jigg_xml_ccg2lambda) still carries the words as they were read."""
    cm = repo.module(CT)
    nt = cm.get('normalize_tokens')
    mut = any(isinstance(c, ast.Call) and isinstance(c.func, ast.Attribute) and c.func.attr == 'set' for c in ast.walk(nt))
    n = 0
    for fn in cm.functions():
        for c in ast.walk(fn):
            if isinstance(c, ast.Call) and isinstance(c.func, ast.Name) and c.func.id == 'normalize_tokens' and c.args:
                n += 1
                w = '%s:%s %s' % (CT, c.lineno, fn.name)
                a = c.args[0]
                fresh = lambda e: isinstance(e, ast.Call) and src(e.func) in ('copy.deepcopy', 'deepcopy')
                ok = fresh(a)
                if not ok and isinstance(a, ast.Name):
                    binds = [s_ for s_ in ast.walk(fn) if isinstance(s_, ast.Assign) and any(isinstance(t, ast.Name) and t.id == a.id for t in s_.targets)
                             and s_.lineno < c.lineno]
                    ok = bool(binds) and fresh(binds[-1].value)
                rep.check(ok or not mut, R, w, 'normalize_tokens:on-copy:%s' % fn.name,
                          'the tokens handed to normalize_tokens are a deep copy of the document\'s token elements',
                          'normalize_tokens rewrites base / surf in place and is given %s, a part of the document itself: the words of the serialised document change' % src(a)[:60])
    rep.floor('normalize_tokens call sites', n, 1)


def check(repo, rep, tier):
    from ..lints import r_import_time_language
    r_import_time_language(repo, rep, 'R15.4', repo.py_files('depccg/printer') + [RD])
    from ..lints import r_no_reordering
    r_no_reordering(repo, rep, 'R15.1', [(RD, 'read_xml'), (RD, 'read_jigg_xml'), (PX, 'xml_of'), (JX, 'to_jigg_xml')], 'sentences and n-best trees')
    rep.rule('R15.1', 'C&C XML: tags / attributes written vs read')
    rep.rule('R15.2', 'Jigg XML: attributes written vs read by read_jigg_xml and ccg2lambda; id templates')
    rep.rule('R15.3', 'span ids unique by construction; child lists and root from returned ids')
    rep.rule('R15.4', 'rule vocabulary handed to ccg2lambda matches the active language\'s templates')
    r_candc(repo, rep)
    from .c12 import r_label_recovery
    r_label_recovery(repo, rep, 'R15.1')
    r_jigg(repo, rep)
    r_span_categories(repo, rep)
    from .c18 import r_printers_pure
    r_printers_pure(repo, rep, 'R15.2', 'R15.2', 'the XML written later for the same results lacks the fields that were renamed in place, and the reader cannot rebuild the tokens')
    from .c07 import r_numbering
    r_numbering(repo, rep, 'R15.1')
    from ..lints import r_yields_fresh
    r_yields_fresh(repo, rep, 'R15.2', [(RD, 'read_jigg_xml'), (RD, 'read_xml')],
                   'after list(read_..(file)) the tokens of every sentence are those of the last one')
    from ..lints import r_element_truth
    r_element_truth(repo, rep, 'R15.2', [CT, SI, 'depccg/semantics/ccg2lambda/parse.py', RD, PX, JX],
                    'the tree of a one-word sentence is a single terminal span: it is taken for missing, and that sentence gets no derivation / no semantics')
    r_ids(repo, rep)
    r_root_flag(repo, rep)
    n = r_ccg2lambda_vocab(repo, rep)
    rep.rule('R15.6', 'ccg2lambda rebuilds each tree from the document it is given: the tree builder keeps no table that outlives a call (span ids restart with every document)')
    from ..lints import r_module_state
    n_obj = r_module_state(repo, rep, 'R15.6', [SI, CT], 'span ids such as s0_sp0 restart with every document, so a table kept between calls answers with nodes of an earlier document')
    rep.ok('R15.6', '%s, %s' % (SI, CT), 'no function of the tree builder modules writes to one of their %d module-level objects' % n_obj)
    rep.rule('R15.5', 'token names for ccg2lambda: normalize_token replaces all logic punctuation and prefixes "_"; normalize_tokens leaves nothing it wrote un-normalised')
    r_token_names(repo, rep)
    rep.rule('R15.7', 'what is written as *.jigg.xml / *.xml is read back by the matching reader (dispatch on the file name)')
    r_extension_dispatch(repo, rep)
    rep.rule('R15.8', 'Jigg category spelling: every one-valued feature becomes [f=true]')
    r_jigg_category(repo, rep)
    rep.rule('R15.9', 'token normalisation for ccg2lambda works on a copy of the token elements')
    r_normalise_on_copy(repo, rep)
    rep.floor('to_jigg_xml call sites in to_string', n, 3)
