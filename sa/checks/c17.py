"""C17 -- the category dictionary restricts exactly the listed words."""
import ast

from ..core import AnalysisError, src
from ..pysym import SymExec, show, subterms
from ..rules_pyx import N, C, A
from .. import logic
from .. import datafiles as df
from .. import effects

EXPLANATION = (
    'R17.1 mask polarity by abstract evaluation of _binarize and its use: the mask starts all-true (ones), the listed ids '
    'are set false, the mask is used un-negated as the column index of an assignment of large_negative_value, so exactly '
    'the categories NOT listed for the word are flattened; R17.2 effects: the only store in apply_category_filters is '
    'tag_scores[row, mask] with row the enumerate index (from 0) of the token in its sentence, guarded by the word being '
    'in the dictionary; category ids are enumerate(categories) positions (from 0); the dependency array is never a store '
    'target; doc is returned as received; shapes are validated first (_type_check dominates every array access); R17.3 '
    'shipped data: every category string in targets.{en,en_rebank,ja}, cat_dict.en, seen_rules.*, unary_rules.* and the '
    'inline tables of config_rebank is accepted by an independent category grammar; target lists have no duplicates; '
    'every category of cat_dict.en occurs in targets.en (compared on the parsed value).  numpy fancy-indexing semantics '
    'are trusted; config loading through allennlp Params is not analysed beyond the keys it pops.'
    ' Category strings of the data files must denote the same category however they are spaced: the tokenise rule of C05 is a clause here.'
    ' Third round: the mask builder is found by role; scores are assigned, never accumulated.'
    " Fourth round: the validation hands back the caller's own objects (no converted copies)."
    ' Fifth round: every sentence of the batch reaches the token loop.'
    ' Sixth and seventh round: the validation step stores nothing into the arrays; the dictionary keyed by parsed categories relies on equality over all fields and the generated hash (R17.3).'
    ' Eighth round: membership tests on generators, Token.__getattr__ storing on the instance, the feature slots named in the shipped unary tables.'
    ' Ninth and tenth round: the ids of all listed categories reach the mask -- no filter on them (R17.2).'
    ' Eleventh round: nothing leaves the token loop of the filter early (R17.2); a mask builder nested in the filter with the tag count as a closure variable is read like the two-parameter one.')
TRUSTED = ['CPython ast', 'numpy boolean-mask assignment semantics', 'independent jsonnet-subset and category readers (sa/datafiles.py)']

REL = 'depccg/parsing.py'


def r_polarity(repo, rep, R='R17.1'):
    mod = repo.module(REL)
    b = mod.get('_binarize', required=False)
    if b is None:
        # by role: the module-level function that builds the per-word value of the dictionary comprehension
        f_ = mod.get('apply_category_filters')
        cands = []
        for n_ in ast.walk(f_):
            if isinstance(n_, ast.DictComp) and isinstance(n_.value, ast.Call) and isinstance(n_.value.func, ast.Name):
                d_ = mod.get(n_.value.func.id, required=False)
                if d_ is None:
                    local = [x for x in ast.walk(f_) if isinstance(x, ast.FunctionDef) and x.name == n_.value.func.id]
                    d_ = local[0] if len(local) == 1 else None
                if d_ is not None and d_ not in cands:
                    cands.append(d_)
        if len(cands) != 1:
            raise AnalysisError('%s: the function building the per-word category mask was not found' % REL)
        b = cands[0]
    MASK = b.name
    closure_len = None
    if len(b.args.args) == 1 and not isinstance(getattr(b, '_parent', None), ast.Module):
        # a closure of the filter function: the length is a once-bound local of its host
        sizes = [c_.args[0].id for c_ in ast.walk(b) if isinstance(c_, ast.Call) and src(c_.func).split('.')[-1] in ('ones', 'zeros', 'full') and c_.args and isinstance(c_.args[0], ast.Name)]
        if len(set(sizes)) == 1:
            closure_len = sizes[0]
    if len(b.args.args) < 2 and closure_len is None:
        raise AnalysisError('%s: %s has %d parameters' % (REL, b.name, len(b.args.args)))
    idx, ln = ([a.arg for a in b.args.args][:2] if closure_len is None else (b.args.args[0].arg, closure_len))
    w = '%s:%s %s' % (REL, b.lineno, b.name)
    paths = SymExec(b).run()
    ok = len(paths) == 1
    listed_value = init_value = None
    index_form = False
    if ok:
        st = paths[0][0]
        ret = st.ret
        init = None
        for s_ in subterms(ret) if ret else []:
            pass
        # result = numpy.ones(length, dtype=bool); result[indices] = 0
        sets = [e for e in st.events if e[0] == 'setitem']
        calls = [e[1] for e in st.events if e[0] == 'call' and e[1][1][0] == 'attr' and e[1][1][2] in ('ones', 'zeros', 'full')]
        flipped = False
        if ret is not None and calls and ((ret[0] == 'unop' and ret[1] in ('~', 'not') and ret[2] == calls[0]) or (
                ret[0] == 'call' and ret[1][0] == 'attr' and ret[1][2] in ('logical_not', 'invert') and ret[2] == (calls[0],))):
            ret, flipped = calls[0], True           # the complement of the vector that was filled
        index_form = False
        if ret is not None and calls and ret[0] == 'call' and ret[1][0] == 'attr' and ret[1][2] == 'flatnonzero' and ret[2] == (calls[0],) and not ret[3]:
            ret, index_form = calls[0], True        # the positions of the True entries: the same selection, spelt as column numbers
        if len(calls) == 1 and len(sets) == 1 and sets[0][1] == calls[0] and sets[0][2] == N(idx) and ret == calls[0]:
            init_value = {'ones': True, 'zeros': False}.get(calls[0][1][2])
            v = sets[0][3]
            listed_value = bool(v[1]) if v[0] == 'const' else None
            if flipped and init_value is not None and listed_value is not None:
                init_value, listed_value = not init_value, not listed_value
            dt = dict(calls[0][3]).get('dtype')
            ok = calls[0][2] and calls[0][2][0] == N(ln) and dt is not None and 'bool' in show(dt)
        else:
            ok = False
    rep.check(ok and init_value is not None and listed_value is not None and init_value != listed_value, R, w, '_binarize:shape',
              '_binarize builds a boolean vector of the tag dimension, %s everywhere except %s at the listed ids' % (init_value, listed_value),
              '_binarize does not build a boolean mask that separates listed from unlisted ids')
    mask_true_means_unlisted = (init_value is True and listed_value is False)
    f = mod.get('apply_category_filters')
    wf = '%s:%s apply_category_filters' % (REL, f.lineno)
    stores = []
    for st, o in SymExec(f, unroll=1, no_inline=(MASK,)).run():
        for e in st.events:
            if e[0] == 'setitem':
                stores.append((st, e))
    uniq = {}
    for st, e in stores:
        uniq.setdefault(id(e[-1]), (st, e))
    augs = {}
    for st, o in SymExec(f, unroll=1, no_inline=(MASK,)).run():
        for e in st.events:
            if e[0] == 'aug':
                augs.setdefault(id(e[-1]), e)
    rep.check(not augs, 'R17.2', wf, 'filters:assigned-not-accumulated', 'scores are set, never accumulated',
              'scores are changed in place by an augmented assignment (%s): the result depends on the value that was there (-inf, nan and very large '
              'scores survive; applying the filter twice gives another value) instead of being the large negative value' % [src(e[-1])[:50] for e in augs.values()])
    rep.check(len(uniq) == 1, 'R17.2', wf, 'filters:single-store', 'apply_category_filters has exactly one store', 'it has %d stores: %s' % (len(uniq), [src(e[-1])[:50] for _, e in uniq.values()]))
    for st, e in uniq.values():
        obj, idx_t, val = e[1], e[2], e[3]
        negated = idx_t[0] == 'tuple' and len(idx_t[1]) == 2 and idx_t[1][1][0] == 'unop' and idx_t[1][1][1] in ('~', 'not')
        col = idx_t[1][1] if idx_t[0] == 'tuple' and len(idx_t[1]) == 2 else None
        if negated:
            col = col[2]
        is_mask = col is not None and col[0] == 'sub' and col[1][0] == 'dictcomp' and col[1][2][0] == 'call' and (col[1][2][1] in (N('_binarize'), N(MASK)) or col[1][2][1][:2] == ('func', MASK))
        flattened_unlisted = is_mask and (mask_true_means_unlisted != negated) and not (index_form and negated)
        rep.check(flattened_unlisted and val == N('large_negative_value'), R, wf, 'filters:polarity',
                  'the cells set to large_negative_value are those of the categories NOT listed for the word',
                  'the store %s = %s flattens the listed categories (or is not driven by the mask)' % (show(idx_t)[:80], show(val)))
        # row / object
        row = idx_t[1][0] if idx_t[0] == 'tuple' else None
        ok_row = row is not None and row[0] == 'unpack' and row[2] == 0 and row[1][0] == 'elem' and row[1][1][0] == 'call' and row[1][1][1] == N('enumerate') \
            and len(row[1][1][2]) == 1 and not row[1][1][3]
        ok_obj = obj[0] == 'unpack' and obj[2] == 0       # first component of the (tag_scores, dep_scores) pair
        rep.check(ok_row and ok_obj, 'R17.2', wf, 'filters:row', 'the row is the token\'s position in its sentence (enumerate from 0) of that sentence\'s tag matrix',
                  'store target is %s[%s]' % (show(obj)[:60], show(row)[:60] if row else None))
        word_guard = is_mask and col[2][0] == 'attr' and col[2][2] == 'word' and \
            logic.implied([(c, pol) for c, pol, _ in st.conds], ('atom', ('in', col[2], col[1])))
        same_word = is_mask and col[2][0] == 'attr' and col[2][2] == 'word'
        rep.check(word_guard and same_word, 'R17.2', wf, 'filters:word-guard', 'only tokens whose word is in the dictionary are touched, with that word\'s mask',
                  'the store is not guarded by `token.word in category_dict` with the same word')
        if is_mask:
            dc = col[1]
            ids = dc[2][2][0] if dc[2][2] else None
            okids = ids is not None and ids[0] == 'listcomp' and ids[1][0] == 'sub' and ids[1][1][0] == 'dictcomp'
            if okids:
                idmap = ids[1][1]
                g = idmap[3][0][0]
                okids = g == ('call', N('enumerate'), (N('categories'),), ()) and idmap[1][0] == 'unpack' and idmap[1][2] == 1 and idmap[2][0] == 'unpack' and idmap[2][2] == 0
            rep.check(bool(okids), 'R17.2', wf, 'filters:ids', 'category ids are positions in the `categories` list (enumerate from 0)',
                      'mask ids are computed as %s' % (show(ids)[:100] if ids else None))
            # ... of every listed category: a filter on the ids (`if id_` drops position 0, the first category of the inventory) leaves a
            # listed category flattened
            filt = [f_ for g_ in (ids[2] if ids is not None and ids[0] == 'listcomp' else []) for f_ in g_[1]]
            rep.check(not filt, 'R17.2', wf, 'filters:ids-all', 'the ids of all listed categories go into the mask (no filter on them)',
                      'the ids of the listed categories are filtered by `%s` before the mask is built: a listed category whose id does not pass (position 0 is falsy) '
                      'is flattened like an unlisted one' % (show(filt[0])[:80] if filt else ''))
            ln_t = dc[2][2][1] if len(dc[2][2]) > 1 else None
            if ln_t is None and closure_len is not None:
                binds = [a_ for a_ in ast.walk(f) if isinstance(a_, ast.Assign) and len(a_.targets) == 1 and isinstance(a_.targets[0], ast.Name) and a_.targets[0].id == closure_len]
                if len(binds) == 1:
                    ln_t = ('name', src(binds[0].value).replace(' ', ''))      # (shown as written)
            rep.check(ln_t is not None and 'shape' in show(ln_t) and show(ln_t).endswith('[1]'), 'R17.2', wf, 'filters:mask-length',
                      'the mask has one entry per tag column', 'mask length is %s' % (show(ln_t) if ln_t else None))
    # every sentence of the batch is gone through: no path through the sentence loop leaves before the token loop
    fors = [n for n in ast.walk(f) if isinstance(n, ast.For)]
    store_nodes = [e[-1] for _, e in uniq.values()]
    inner_l = [l for l in fors if any(sn in list(ast.walk(l)) for sn in store_nodes)]
    inner_l = [l for l in inner_l if not any(l2 is not l and l2 in list(ast.walk(l)) and l2 in inner_l for l2 in fors)]
    outer_l = [l for l in fors if inner_l and l is not inner_l[0] and inner_l[0] in list(ast.walk(l))]
    if inner_l:
        # every token of the sentence is looked at: nothing leaves the token loop early (a `break` on the first word that is not in the
        # dictionary leaves the dictionary words after it unrestricted)
        leaves_ = [x for b_ in inner_l[0].body for x in ast.walk(b_) if isinstance(x, (ast.Break, ast.Return))]
        rep.check(not leaves_, 'R17.2', '%s:%s apply_category_filters' % (REL, leaves_[0].lineno if leaves_ else inner_l[0].lineno), 'filters:every-token',
                  'the loop over the tokens of a sentence runs to its end',
                  'the loop over the tokens is left by `%s` at line %s: the words after that point keep all their scores although the dictionary lists them'
                  % (src(leaves_[0])[:30] if leaves_ else '', leaves_[0].lineno if leaves_ else 0))
    if inner_l and outer_l:
        o_, i_ = outer_l[0], inner_l[0]
        skipping = []
        for st, out in SymExec(f, unroll=1, no_inline=(MASK,)).run():
            if out == 'raise':
                continue
            ent = [k for k, e in enumerate(st.events) if e[0] == 'loop-enter' and e[-1] is o_]
            if not ent:
                continue
            reached = any(e[0] in ('loop-enter', 'loop-skip') and e[-1] is i_ for e in st.events[ent[0]:])
            if not reached:
                br = [e for e in st.events[ent[0]:] if e[0] == 'branch']
                skipping.append(show(br[-1][1])[:60] if br else 'a path without the token loop')
        rep.check(not skipping, 'R17.2', wf, 'filters:every-sentence', 'every sentence of the batch reaches the token loop',
                  'some sentences are left unfiltered: the sentence loop moves on before the tokens are looked at when %s' % sorted(set(skipping))[:2])
    # returns its inputs, validated first
    rets = {show(st.ret) for st, o in SymExec(f, unroll=1, no_inline=(MASK,)).run() if o == 'return'}
    first_call = None
    for st, o in SymExec(f, unroll=1, no_inline=(MASK,)).run():
        calls = [e[1] for e in st.events if e[0] == 'call']
        if calls:
            first_call = calls[0]
        break
    tc = ('call', N('_type_check'), (N('doc'), N('score_results'), N('categories')), ())
    rep.check(first_call == tc, 'R17.2', wf, 'filters:validated-first', 'shapes are validated before any array is touched',
              'the first action is %s' % (show(first_call)[:60] if first_call else None))
    rep.check(len(rets) == 1 and rets == {'(%s#0, %s#1)' % (show(tc), show(tc))}, 'R17.2', wf, 'filters:returns-inputs',
              'the validated (doc, score_results) are returned, in the order received', 'returns %s' % sorted(rets))
    muts = effects.mutations(f, {'doc', 'category_dict', 'categories'})
    rep.check(not muts, 'R17.2', wf, 'filters:no-other-mutation', 'tokens, the dictionary and the category list are not modified',
              'also modifies %s' % [src(n)[:50] for n, _, _ in muts])


def r_validation_hands_back(repo, rep, R='R17.2'):
    """the validation step returns the caller's own objects (wrapped in one-element lists for a single sentence): the
    filter writes into the matrices it was given and the scores that are kept are the scores that were passed in --
    a converted or copied matrix (another dtype, a contiguous copy) is neither"""
    mod = repo.module(REL)
    fn = mod.get('_type_check')
    pd, ps_ = [a.arg for a in fn.args.args][:2]
    w = '%s:%s %s' % (REL, fn.lineno, fn.name)
    good = {('tuple', (N(pd), N(ps_))), ('tuple', (('list', (N(pd),)), ('list', (N(ps_),))))}
    bad = []
    n = 0
    for st, o in SymExec(fn, unroll=1).run():
        if o != 'return':
            continue
        n += 1
        if st.ret not in good and show(st.ret) not in bad:
            bad.append(show(st.ret)[:120])
    if not n:
        raise AnalysisError('%s: %s never returns' % (REL, fn.name))
    # ... and it only looks: nothing reached from its arguments is written, by a store / mutating method or by a numpy call
    # that works in place (copy=False, out=<argument>)
    al = effects.Alias({pd, ps_})
    writes = [src(n_)[:60] for n_, _, _ in effects.mutations(fn, {pd, ps_})]
    for st, o in SymExec(fn, unroll=1).run():
        for e in st.events:
            if e[0] == 'in-comp':
                e = e[1:]
            if e[0] != 'call':
                continue
            t = e[1]
            kw = dict((k, v) for k, v in t[3] if k is not None)
            in_place = kw.get('copy') == C(False) or ('out' in kw and (al.self_(kw['out']) or al.elems(kw['out'])))
            if in_place and any(al.self_(a_) or al.elems(a_) for a_ in t[2]) and show(t)[:60] not in writes:
                writes.append(show(t)[:60])
    rep.check(not writes, R, w, '_type_check:read-only', 'the validation step changes nothing it is given',
              '%s writes into its arguments (%s): scores of words and categories the dictionary does not mention are changed before the filter is applied' % (fn.name, writes[:2]))
    rep.check(not bad, R, w, '_type_check:hands-back', 'the validated document and score matrices are handed back as they were given (%d return paths)' % n,
              '%s returns %s instead of the objects it was given: the filter then changes a copy (the caller\'s matrices stay unfiltered) and the scores '
              'kept are converted values, not the original ones' % (fn.name, bad[:2]))


def r_data(repo, rep, R='R17.3', only_well_formed=False):
    n = 0
    files = {}
    for cfg in ('config_en', 'config_ja', 'config_rebank'):
        rel = 'depccg/models/%s.jsonnet' % cfg
        v = df.load_jsonnet(repo, rel)
        files[cfg] = v
        bad = []

        def chk(s, where):
            nonlocal n
            n += 1
            try:
                return df.show_cat(df.parse_cat(s))
            except df.CatError as e:
                bad.append('%s: %s' % (where, e))
                return None
        for key in ('targets', 'seen_rules', 'unary_rules'):
            if isinstance(v.get(key), dict) and '__unreadable__' in v[key]:
                raise AnalysisError('%s: %s cannot be read: %s' % (rel, key, v[key]['__unreadable__']))
        targets = [chk(x, 'targets') for x in v['targets']]
        for a, b in v['seen_rules']:
            chk(a, 'seen_rules')
            chk(b, 'seen_rules')
        for a, b in v['unary_rules']:
            chk(a, 'unary_rules')
            chk(b, 'unary_rules')
        for row in v.get('binary_rules', []) or []:
            for x in row[:3]:
                chk(x, 'binary_rules')
        cd = v.get('cat_dict') or {}
        missing = set()
        tset = set(targets)
        for wd, cs in cd.items():
            for c in cs:
                cc = chk(c, 'cat_dict[%s]' % wd)
                if cc is not None and cc not in tset:
                    missing.add(c)
        w = '%s:1 <data>' % rel
        rep.check(not bad, R, w, cfg + ':well-formed', 'every category string reachable from %s is well formed' % cfg, 'ill-formed category strings: %s' % bad[:5])
        # three-part features name their slots: the names used in the rule tables are those of the tagger's inventory for
        # the same base (a table row with `from=` for `form=` parses, prints back unchanged and never matches anything)
        def key_triples(s):
            out = set()
            try:
                c = df.parse_cat(s)
            except df.CatError:
                return out
            todo = [c]
            while todo:
                x = todo.pop()
                if x[0] == 'fn':
                    todo += [x[1], x[3]]
                else:
                    fp = df.feature_pairs(x)
                    if fp:
                        out.add((x[1], tuple(k for k, _v in fp)))
            return out
        known = set()
        for x in v['targets']:
            known |= key_triples(x)
        if known:
            odd = []
            rows = [('seen_rules', s_) for r_ in v['seen_rules'] for s_ in r_] + [('unary_rules', s_) for r_ in v['unary_rules'] for s_ in r_] + \
                [('binary_rules', s_) for r_ in (v.get('binary_rules') or []) for s_ in r_[:3]]
            known_keys = {ks for _b, ks in known}
            for where, s_ in rows:
                for base, ks in key_triples(s_):
                    if ks not in known_keys:
                        odd.append('%s: %s has a feature with slots %s' % (where, s_, list(ks)))
            rep.check(not odd, R, w, cfg + ':feature-slots', 'the three-part features of the rule tables of %s use the slot names of the inventory (%s)' % (cfg, sorted(known_keys)),
                      'feature slots unknown to the inventory: %s' % odd[:3])
        if only_well_formed:
            continue
        dups = sorted({t for t in targets if t is not None and targets.count(t) > 1}) if len(set(targets)) != len(targets) else []
        rep.check(not dups, R, w, cfg + ':targets-unique', 'the %d target categories of %s are pairwise different values' % (len(targets), cfg),
                  'target categories listed twice (depccg._parsing.run rejects duplicates): %s' % dups[:5])
        if cd:
            rep.check(not missing, R, w, cfg + ':dict-in-inventory', 'all categories of the %d dictionary entries belong to the target inventory' % len(cd),
                      'dictionary categories missing from the inventory (KeyError in apply_category_filters): %s' % sorted(missing)[:5])
    return n


def r_loading(repo, rep, R='R17.3'):
    """read_params builds dictionary and tables by parsing every string and erasing X / nb in seen rules (judged on the
    values its paths compute, helpers inlined -- wherever the comprehension lives)"""
    from ..pysym import terms_of
    mod = repo.module('depccg/allennlp/utils.py')
    fn = mod.get('read_params')
    w = 'depccg/allennlp/utils.py:%s read_params' % fn.lineno
    comps = []
    for st, o in SymExec(fn, unroll=1).run():
        for t in terms_of(st):
            for x in subterms(t):
                if x[0] in ('setcomp', 'dictcomp', 'listcomp') and x not in comps:
                    comps.append(x)
    parse = A(N('Category'), 'parse')

    def erased(t, it):
        """Category.parse(<component of the element>).clear_features('X', 'nb')"""
        return t[0] == 'call' and t[1][0] == 'attr' and t[1][2] == 'clear_features' and not t[3] and len(t[2]) == 2 \
            and {a[1] for a in t[2] if a[0] == 'const'} == {'X', 'nb'} and t[1][1][0] == 'call' and t[1][1][1] == parse \
            and len(t[1][1][2]) == 1 and t[1][1][2][0][0] == 'unpack' and t[1][1][2][0][1][0] == 'elem' and t[1][1][2][0][1][1] == it
    seen = [c for c in comps if c[0] == 'setcomp' and len(c[2]) == 1 and "pop('seen_rules')" in show(c[2][0][0])]
    # (one comprehension per path: the parameter object it pops from may have been popped from before, or not)
    ok = bool(seen) and all(not c_[2][0][1] and c_[1][0] == 'tuple' and len(c_[1][1]) == 2
                            and all(erased(e, c_[2][0][0]) for e in c_[1][1]) and [e[1][1][2][0][2] for e in c_[1][1]] == [0, 1] for c_ in seen)
    rep.check(ok, R, w, 'read_params:seen_rules',
              'seen rules are stored as pairs with X and nb erased on both sides (the key apply_binary_rules looks up)', 'seen-rule normalisation changed')
    dc = [c for c in comps if c[0] == 'dictcomp' and "pop('cat_dict')" in show(c[3][0][0])]
    unfiltered = False
    if len(dc) == 1:
        key, val, gens = dc[0][1], dc[0][2], dc[0][3]
        it = gens[0][0]
        unfiltered = len(gens) == 1 and not gens[0][1] and it[0] == 'call' and it[1][0] == 'attr' and it[1][2] == 'items' \
            and key == ('unpack', ('elem', it, key[1][2] if key[0] == 'unpack' and key[1][0] == 'elem' else None), 0) \
            and val[0] == 'listcomp' and len(val[2]) == 1 and not val[2][0][1] and val[2][0][0][0] == 'unpack' and val[2][0][0][2] == 1 \
            and val[1][0] == 'call' and val[1][1] == parse and len(val[1][2]) == 1 and val[1][2][0][0] == 'elem' and val[1][2][0][1] == val[2][0][0]
    rep.check(unfiltered, R, w, 'read_params:cat_dict', 'the dictionary maps each word to all of its listed categories, parsed (no entry or category is filtered out while loading)',
              'cat_dict loading drops or rewrites entries (comparison of raw spellings would e.g. lose the comma category, spelled ", " in targets.en)')


def check(repo, rep, tier):
    rep.rule('R17.1', 'mask polarity: unlisted categories are flattened')
    rep.rule('R17.2', 'effects of apply_category_filters: one store, right row, ids by position, validated first, inputs returned')
    rep.rule('R17.3', 'shipped data well formed, targets unique, dictionary within inventory')
    r_polarity(repo, rep)
    r_validation_hands_back(repo, rep)
    # the inventory and the dictionary meet as parsed categories: a category string must denote the same category
    # however it is spaced (targets.en spells the comma category ', ')
    from .c05 import r_delimiters
    r_delimiters(repo.module('depccg/cat.py'), rep, 'R17.3')
    # ... and the ids of the inventory are looked up in a dict keyed by those parsed categories: two categories are the same
    # key exactly when they are spelt the same (equality over all declared fields, hash over the same fields) -- an
    # equality that lets NP[nb]/N stand for NP/N files the listed one under the other's column
    from . import c13
    cm = repo.module('depccg/cat.py')
    c13.r_dataclass(cm, rep, 'R17.3')
    c13.r_eq(cm, rep, 'R17.3')
    from ..lints import r_oneshot_iterators
    r_oneshot_iterators(repo, rep, 'R17.2', ['depccg/parsing.py'], 'a membership test against it is true only for words met further on than the last hit: dictionary words are silently left unrestricted')
    from .c18 import r_token_accessors
    r_token_accessors(repo, rep, 'R17.2', 'a value kept from the first read of token.word hides a later change of the word from the dictionary lookup')
    n = r_data(repo, rep)
    rep.floor('category strings checked', n, 24000)
    r_loading(repo, rep)
