"""C09 -- the reported score is the model score of the returned tree."""
from .. import rules_cxx as rc
from .. import rules_pyx as rp
from ..parse_model import ParseModel

EXPLANATION = (
    'Static conformance to R9.1-R9.3: the inside-score recurrences at all 5 push sites (leaf = tag score of the '
    'popped candidate, unary = child - penalty, binary = left + right + dep(child head, head+1), goal = item + '
    'dep(head, root column)) as linear forms over discovered roles; head propagation at both binary sites from '
    'the very back-pointers stored; the number handed out is goal.score() with out_score literally 0, appended '
    'once per goal item and zipped positionally with the trees; the failure placeholder carries -inf. '
    'Float accumulation order is not decided.'
    ' Goal collection / status (only goal items are delivered with their score), the positional callbacks and the call-local rule cache are part of this check as well.'
    ' Third round: the Tree factories store what they are given and retrieve_tree takes label, symbol and head flag from the cached rule result, so the tree returned carries the head flags the score was computed with.'
    ' Fourth round: the declared layout of the score buffers (rule of C02); the options are read once per call.'
    ' Seventh round: chunking and in-order gather (the score reported for sentence i is computed from its own matrices).'
    ' Eighth round: depccg.parsing.run is one pass -- it does not call itself again with other options for the sentences that failed (R9.1).')
TRUSTED = ['clang-14 front end', 'CPython ast', 'sa/pyx.py normaliser', 'rule table DESIGN.md C09']


def check(repo, rep, tier):
    m = ParseModel(repo)
    rep.rule('R9.1', 'in_score linear forms at leaf/unary/binary/goal push sites; tag matrix indexing')
    rep.rule('R9.2', 'head = (r.head_is_left ? left : right) of the stored back-pointers; dep(child.head, head.head+1)')
    rep.rule('R9.3', 'score read-out: item.score() of the goal item (out_score 0), once, zipped with trees; placeholder -inf')
    rc.r_item_methods(m, rep, 'R9.1')
    rc.r_estimates(m, rep, 'R9.1', 'in')
    rc.r_leaf_loop(m, rep, 'R9.1')
    rc.r_best(m, rep, 'R9.1')
    rc.r_heads(m, rep, 'R9.2')
    rc.r_items_immutable(m, rep, 'R9.2')
    rc.r_chart(m, rep, 'R9.2')
    rp.r_config_plumbing(repo, rep, 'R9.1')
    rp.r_score_buffers(repo, rep, 'R9.1')     # the scores that are summed are the caller's: the matrices are read with the layout they really have
    rc.r_backpointers(m, rep, 'R9.2')
    for s in m.by_kind.get('goal', []):
        from ..parse_model import LIT
        rep.check(s.f['out_score'] in (LIT(0), LIT(0.0)), 'R9.3', s.where(), 'goal:out_score',
                  'the goal item\'s outside estimate is the literal 0, so score() is the inside score',
                  'goal item out_score is not 0')
    rc.r_nbest(m, rep, 'R9.3')
    rp.r_retrieve_tree(repo, rep, 'R9.3', {'score', 'shape', 'labels'})
    rp.r_tree_factories(repo, rep, 'R9.2')  # the returned tree carries the head flags the search scored with: the factories store what they are given
    rc.r_search_loop(m, rep, 'R9.3')       # only goal items (full span, allowed root, out 0) are delivered with their score
    rc.r_guards(m, rep, 'R9.3')
    ti = rp.r_category_table(repo, rep, 'R9.3')
    rp.r_call_locals(repo, rep, 'R9.2')    # a rule cache outliving the call hands back results (head directions) of other ids
    if ti:
        rp.r_sentence_loop(repo, rep, 'R9.3', ti)
        rp.r_callbacks(repo, rep, 'R9.2')  # the head direction used for scoring is that of the result at the stored position
    from .c11 import r_chunks, r_gather
    r_chunks(repo, rep, 'R9.3')            # the score reported for sentence i is computed from sentence i's matrices: the batch split neither skips nor repeats
    r_gather(repo, rep, 'R9.3')            # ... and the pieces come back in the order they were cut
    rep.floor('agenda push sites', len(m.sites), 5)
